#!/bin/bash
# ./check.sh <ID> <quick|thorough> [--replay FILE] [extra args]
# Rebuilds the harness against /repo's current working tree, then runs the check.
cd "$(dirname "$0")/harness" || exit 2
export CARGO_NET_OFFLINE=true
if ! RUSTFLAGS="--cfg servo_html5ever_verif" cargo build --release --offline -q 2>/tmp/hv-build-$$.log; then
  cat /tmp/hv-build-$$.log >&2; rm -f /tmp/hv-build-$$.log
  echo "INCONCLUSIVE property=$1 harness build failed"
  exit 2
fi
rm -f /tmp/hv-build-$$.log
# C12 needs the instrumented global allocator, which only vcheck_alloc installs
bin=vcheck
case "$1" in c12|C12) bin=vcheck_alloc ;; esac
exec target/release/$bin "$@"
