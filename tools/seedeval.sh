#!/bin/bash
# tools/seedeval.sh <worktree> <n> <ID> [more check IDs...]
# Confirms a seeded change (patch applies, existing tests still pass with it, the
# demonstration passes without and fails with it) in the agent's scratch worktree,
# copies it to /verif/seeded/<ID>-<n>/, and runs the given checks against a
# mutated scratch copy (tools/mutate.sh).  Writes /verif/seeded/<ID>-<n>/eval.log.
wt=$1; n=$2; id=$3; shift 3
src=$wt/seeded/$n
dst=/verif/seeded/${SEED_PREFIX:-}$id-$n
mkdir -p $dst
rsync -a --exclude target --exclude '*.log' $src/ $dst/ 2>/dev/null
log=$dst/eval.log
{
echo "== patch applies to /repo HEAD?"; git -C /repo apply --check $src/patch.diff && echo yes
echo "== existing test suite with the patch (in the scratch worktree)"
git -C $wt checkout -q -- . ; git -C $wt apply $src/patch.diff
(cd $wt && cargo test --workspace --no-fail-fast --offline 2>&1 | grep -E "^test result" | awk '{p+=$4; f+=$6} END {print p" passed, "f" failed"}')
git -C $wt checkout -q -- .
echo "== demonstration (run.sh of the seed: without, then with the patch)"
(cd $src && timeout 900 sh ./run.sh 2>&1 | grep -E "PASS|FAIL|RESULT|VIOLAT|exit|MISMATCH" | head -12)
git -C $wt checkout -q -- .
echo "== my checks on the mutated copy"
/verif/tools/mutate.sh seed-$id-$n $src/patch.diff -- $id "$@" 2>&1 | grep -E "^===|^exit=|VIOLATION|INCONCLUSIVE|KNOWN" | head -40
} > $log 2>&1
echo "done $id-$n"
