#!/bin/bash
# tools/snap.sh <dir> : export the committed /verif (HEAD) plus the compiled dependencies into <dir>,
# for long background runs (VERIF_SRC=<dir> tools/mutate.sh ...) that must not see later edits.
d=$1; rm -rf "$d"; mkdir -p "$d"
git -C /verif archive HEAD | tar -x -C "$d"
[ -d /verif/harness/target ] && cp -a /verif/harness/target "$d/harness/target"
echo "$d"
