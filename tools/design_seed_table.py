#!/usr/bin/env python3
"""Rewrites the block between <!-- SEEDED-BEGIN --> and <!-- SEEDED-END --> in DESIGN.md from
seeded/*/meta.json (run tools/seedindex.py first)."""
import json, glob, os, re
root = os.path.dirname(os.path.dirname(os.path.abspath(__file__)))
rows = []
def key(d):
    n = os.path.basename(d)
    rnd = 2 if n.startswith("r2-") else 3 if n.startswith("r3-") else 4 if n.startswith("r4-") else 1
    m = re.search(r"C(\d+)-(\d+)", n)
    return (int(m.group(1)), rnd, int(m.group(2)))
for d in sorted(glob.glob(os.path.join(root, "seeded", "*C*-*")), key=key):
    mp = os.path.join(d, "meta.json")
    if not os.path.exists(mp):
        continue
    m = json.load(open(mp))
    v = m.get("verification", {})
    title = (m.get("title") or m.get("what_breaks") or "").replace("|", "/").replace("\n", " ")
    if len(title) > 170:
        title = title[:167] + "..."
    files = m.get("files_changed") or []
    if isinstance(files, str):
        files = [files]
    files = ", ".join(os.path.basename(f) if "/" in f else f for f in files)[:60]
    rows.append((os.path.basename(d), title, files, ", ".join(v.get("caught_by_quick_checks", [])) or "-",
                 ", ".join(v.get("not_flagged_by", [])) or "-", ", ".join(v.get("first_missed_then_strengthened", [])) or "-"))
own_caught = sum(1 for r in rows if re.search(r"C\d+", r[0]).group(0) in r[3].split(", "))
out = []
out.append(f"{len(rows)} changes (rounds 1-3: two per property; round 4: six properties, changes outside the anchor files); {own_caught} are flagged by the quick tier of the property they were written against.  "
           "The others: C05-2 and r4-C20-2 were judged not to violate the property as worded (their demonstrations need what the TreeSink contract excludes, see seeded/INDEX.md); "
           "r4-C07-2, r4-C11-1 and r4-C11-2 are changes whose effect lies in another property's territory and are flagged by that property's check (C02, C10, C13/C01).  "
           "'first missed' names checks that did not flag the change when it arrived and were strengthened (section 9); "
           "'also run, silent' lists other checks I ran against the change that have no reason to see it or that see it only through another property.\n")
out.append("| seed | change (agent's title) | files | flagged by (quick tier, final checks) | also run, silent | first missed |")
out.append("|---|---|---|---|---|---|")
for r in rows:
    out.append("| " + " | ".join(r) + " |")
block = "\n".join(out) + "\n"
p = os.path.join(root, "DESIGN.md")
s = open(p).read()
a, b = "<!-- SEEDED-BEGIN -->\n", "<!-- SEEDED-END -->"
i, j = s.index(a) + len(a), s.index(b)
open(p, "w").write(s[:i] + block + s[j:])
print(len(rows), "rows,", own_caught, "caught by own check")
