#!/usr/bin/env python3
"""Regenerates /verif/MANIFEST.json from the table below (keeps it valid at all times)."""
import json, os, sys
ROOT = os.path.dirname(os.path.dirname(os.path.abspath(__file__)))
props = [json.loads(l) for l in open(os.path.join(ROOT, "properties.jsonl"))]

# id -> (technique, level text, level note, design ref)
CHECKS = {
 "C19": ("differential + metamorphic test: observed EncodingIndicator sequence vs the reference tree builder's inserted meta elements and a char-based transcription of the extraction algorithm; exhaustive content strings over a token grammar; twin-document resumption check",
         "For every generated document/fragment and chunking the sequence of indicators equals, in order, the labels of the HTML meta elements the reference inserted; the meta element is connected when feed() returns; the final tree equals the twin document's without declarations. Every content string of <=5 (thorough 7) tokens over 10 grammar tokens.",
         "The label checks exclude cases whose tree differs from the reference (C02's, counted); the resumption (twin) relation is decided for every case; labels are not validated.",
         "DESIGN.md 4 C19"),
 "C02": ("differential testing against an independent reference tree builder (with the reference tokenizer): grammar-based generation, exhaustive short tag sequences, doctype table sweep; every fragment context x short probe sequences; deviation switches attribute failures to listed known findings",
         "html5ever's DOM (ModelDom sink) and reported quirks mode are compared with a transcription of WHATWG 13.2.6 for generated documents and fragments under ~50 contexts and all option combinations of the property's domain; every sequence of <=2 (thorough 3) tag tokens over ~110 tokens in document mode and 8 fragment contexts; the whole quirks table in 5 spellings.",
         "Trusted: refimpl/treebuilder.rs + tb_modes.rs, written from memory of the living standard; select-relaxation rules are self-consistency only; iframe_srcdoc with a non-default initial quirks mode and select-context fragments containing <input> are excluded (counted).",
         "DESIGN.md 4 C02"),
 "C07": ("round-trip and metamorphic property test over constructed trees with adversarial strings and over parsed trees; decode oracle inverting the five entities",
         "serialize + parse_fragment reproduces constructed trees over the ordinary vocabulary; IncludeNode == start tag + ChildrenOnly(Some(name)) + end tag on every non-void element of constructed and parsed trees for both scripting settings; every attribute/text run decodes back to the original, verbatim iff under an HTML raw-text element.",
         "Attribute values and text are generated free of CR and NUL; void elements exempt from inner==outer.",
         "DESIGN.md 4 C07"),
 "C04": ("robustness fuzzing with a validity oracle: generated HTML/XML x options x chunkings in-process under deterministic step budgets (hook H1), pathological shapes in child processes with a watchdog",
         "No panic/abort/signal, queue empty after every Done, end()/finish() return, exactly one EOF delivered last (counted by a forwarding TokenSink), step counters within a linear budget; 80 pathological shape families at sizes up to 3000 (quick) / 60000+ (thorough) in child processes with an 8 MiB stack.",
         "A watchdog timeout is inconclusive, not a violation; profile=true is exercised by C08.",
         "DESIGN.md 4 C04"),
 "C11": ("model-based stateful property test: random operation histories over a pool of tendrils against Vec<u8> models, all formats x atomicities",
         "After every operation every live tendril equals its model (non-interference), checked variants fail exactly when the model says so, UTF-8/WTF-8 validity holds; crash guard turns SIGSEGV/SIGABRT into a violation with the running case.",
         "Trusted: the byte-vector models and the documented preconditions of the safe API; `unsafe` entry points are not called.",
         "DESIGN.md 4 C11"),
 "C12": ("execution monitoring of generated histories and thread schedules under an instrumented global allocator (red zones, guard pages, quarantine, live table, per-case leak scopes)",
         "Same histories as C11 plus thread schedules distributing clones/SendTendrils over 2-8 threads; every allocation in a case scope must be freed exactly once with the right layout, red zones and poison intact, nothing live afterwards. Runs in the vcheck_alloc binary.",
         "Every other case runs on a guard-page scheme (block placed against an inaccessible page), where an out-of-bounds read past the end faults; reads after free are visible through content equality (poison), and under AddressSanitizer in the thorough tier's libFuzzer campaign; weak-memory reorderings of the atomic refcount are out of reach (real threads, x86).",
         "DESIGN.md 4 C12"),
 "C18": ("fault-injection style property test: a garbage-collecting model sink collects untraced, disconnected nodes at every suspension point of generated parses (one character per chunk)",
         "After every feed() return trace_handles is called, everything not connected to a traced handle or the document is marked collected; any later sink call on a collected handle is a violation and the final tree must equal a GC-free run. HTML documents, fragments (incl. a caller-supplied form pointer) and XML.",
         "Simulated scripts detach sets of ancestors of the script element at script pauses (otherwise most traced groups stay connected to the document and are unobservable); XML is also driven with hand-fed token sequences.",
         "DESIGN.md 4 C18"),
 "C20": ("differential model-based test: tee sink applying every TreeSink call to RcDom and to an abstract DOM model, driven by generated parses and by direct random valid operation sequences",
         "RcDom tree, parent links and serializer visit order are compared with the model after parses of generated HTML/XML and during/after direct sequences of contract-valid sink calls (incl. selectedcontent mirroring).",
         "Trusted: ModelDom semantics of the TreeSink operations; reparent_children generated only where it cannot create adjacent text nodes.",
         "DESIGN.md 4 C20"),
 "C08": ("metamorphic testing: same input and schedule under every combination of diagnostic/housekeeping options",
         "HTML tokens and trees under exact_errors x profile, XML tokens and trees under exact_errors x profile, discard_bom and drop_doctype relations, over grammar-generated inputs with text runs placed for the SIMD path. Exploration.",
         "profile=true output redirected away from stdout during the run.",
         "DESIGN.md 4 C08"),
 "C15": ("metamorphic testing over xml5ever: chunking, exact_errors, newline/NUL normalisation, BOM; every partition of a pool of short inputs + generated documents",
         "One-piece default run vs any chunking, exact_errors=true, and the newline/NUL-normalised input, at token and tree level (ModelDom and RcDom).",
         "Trusted: the normalisation function (CRLF/CR->LF, NUL->U+FFFD) as the statement of what the tokenizer must do.",
         "DESIGN.md 4 C15"),
 "C16": ("model-based oracle: independent lexical-scope namespace resolver over the generated source tags, evaluated along the output tree's ancestor chain; enumerated two-level family + random generation",
         "Each output element/attribute's namespace is recomputed from the declarations on its own and its tree ancestors' source tags; attribute lists must be the source attributes minus justified expanded-name duplicates.",
         "Elements/attributes with unbound prefixes are not asserted; declarations are not counted as attributes.",
         "DESIGN.md 4 C16"),
 "C17": ("round-trip property test: parse -> serialize -> parse over generated namespaced XML",
         "Canonical dumps of T and of parse(serialize(T)) must be equal (names, prefixes, namespaces, values, text, comments, PIs).",
         "Trees are those reachable by parsing; doctype excluded.",
         "DESIGN.md 4 C17"),
 "C01": ("differential testing against an independent reference tokenizer: bounded-exhaustive short strings from every tokenizer state + grammar/noise random generation (proptest-driven, shrinking)",
         "html5ever's token stream is compared, after the normalisation the property states, with an independent character-at-a-time transcription of WHATWG 13.2.5 under the same start state, last-start-tag name and sink policy: exhaustively for all strings up to length 3 (thorough 4) over a 26-character alphabet from ~150 starts, length 4 (5) from the fragment-selectable states, plus random token soup. Exploration: held on all generated cases.",
         "Trusted: harness/src/refimpl/tokenizer.rs as transcription of the standard; entity table from Python's html.entities.html5; cold starts asserted only for token-free states.",
         "DESIGN.md 4 C01"),
 "C03": ("metamorphic testing over generated chunk/suspend/inject schedules (every partition of short inputs + random schedules)",
         "Token level: scheduled run == one-piece run over the effective stream for tokens, parse errors and line numbers; pause position and injection semantics at Script suspensions. Tree level: final tree and quirks mode equal. Exploration over all partitions of a ~3k pool of short inputs and random schedules.",
         "Trusted: the comparison normal form (character fragments concatenated, line of last fragment kept).",
         "DESIGN.md 4 C03"),
 "C05": ("runtime contract monitoring (a validating model TreeSink) over grammar-generated HTML and XML inputs",
         "Every TreeSink call made while parsing generated HTML documents/fragments and XML documents is validated against the documented contract before it is applied to a model DOM. Exploration.",
         "Trusted: ModelDom (harness/src/sinks/model.rs) and its reading of the contract clauses.",
         "DESIGN.md 4 C05"),
 "C06": ("validity-predicate property test over grammar-generated documents and chunkings",
         "The skeleton predicate (both directions) is evaluated on the final ModelDom and RcDom trees of generated documents biased to skeleton-relevant constructs and truncated inputs. Exploration.",
         "'frameset optionally followed by noframes' read as zero or more noframes (the standard inserts every one).",
         "DESIGN.md 4 C06"),
 "C09": ("differential/invariant testing of reported line numbers against consumption positions of the reference tokenizer; exhaustive short strings x all partitions + random",
         "For inputs on which html5ever and the reference tokenizer agree, every tag/comment/doctype/EOF token's line must equal 1 + line breaks consumed by the reference at emission; lines are monotone. Exhaustive over short strings from every tokenizer state with every chunk cut placement, plus random inputs with dense line breaks. Exploration.",
         "Character and error tokens are only bracketed by monotonicity (their emission point involves look-ahead).",
         "DESIGN.md 4 C09"),
 "C14": ("exhaustive enumeration of the finite character-reference space against an independent entity table and the reference algorithm",
         "All 2231 names x extensions/followers x 5 contexts, all numeric values 0..=0x110000 (canonical form; other forms on a stride in quick, all in thorough), overflow/edge forms, table identity, and xml5ever for ';'-terminated names.",
         "Trusted: Python html.entities.html5 as the WHATWG table; refimpl character-reference algorithm.",
         "DESIGN.md 4 C14"),
 "C10": ("bounded-exhaustive enumeration + random structured generation; differential against std lossy decode / encoding_rs one-shot decode",
         "Every byte string of length <=4 (thorough <=5) over the 25 UTF-8 boundary bytes under every chunk partition, plus random structured byte strings with random cut schedules, compared item-for-item (characters and error reports) with an independent whole-input decoder; the same for 40 encoding_rs encodings and for parser trees via from_utf8(). Exploration: held on all generated cases, no claim beyond them.",
         "Trusted: std::str::Utf8Chunks/from_utf8_lossy and encoding_rs one-shot decode as reference decoders; the harness's recording TendrilSink.",
         "DESIGN.md 4 C10"),
 "C13": ("model-based stateful property test (proptest-driven operation histories against a flat String model)",
         "Random histories of BufferQueue operations on two queues checked call-by-call against a String model that tracks buffer joins; exploration over millions of histories.",
         "Trusted: the String model in props/c13.rs; empty eat() patterns excluded as outside documented use.",
         "DESIGN.md 4 C13"),
}
NA_REASON = "check not built yet (work in progress; see DESIGN.md section 8 build order)"

def main():
    checks = []
    for p in props:
        pid = p["id"]
        if pid not in CHECKS:
            continue
        tech, text, note, ref = CHECKS[pid]
        checks.append({
            "property_id": pid,
            "quick_cmd": f"./check.sh {pid} quick",
            "thorough_cmd": f"./check.sh {pid} thorough",
            "evidence_file": f"evidence/{pid}.json",
            "replay_cmd_template": f"./check.sh {pid} quick --replay {{path}}",
            "engine": "hv",
            "level_claimed": {"category": "exploration", "text": text, "design_ref": ref},
            "level_note": note,
            "technique": tech,
        })
    fixes = []
    m = {
        "version": 1,
        "setup_cmd": "./setup.sh",
        "hooks": {
            "guard": "servo_html5ever_verif",
            "enable": "RUSTFLAGS=\"--cfg servo_html5ever_verif\" (set by check.sh/setup.sh for the harness build, which compiles /repo's crates as path dependencies)",
            "baseline_off_cmd": "cd /repo && cargo test --workspace --no-fail-fast --offline",
            "source_commits": ["852dd63134dd5f86624f6a373324d5f769c58b92"],
            "add_only": True,
        },
        "engines": [{
            "name": "hv",
            "path": "harness",
            "serves_properties": sorted(CHECKS),
            "kind_free_text": "Rust harness crate (bin vcheck): proptest-driven random generation over choice sequences with shrinking, bounded-exhaustive enumerators, reference models, replay files; libFuzzer targets under harness/fuzz",
        }],
        "checks": checks,
        "notes": "All checks: ./check.sh <ID> <quick|thorough> rebuilds the harness (and /repo's crates, as path dependencies) from the current working tree, honours VERIF_SEED, writes evidence/<ID>.json. Exit 0 held / 1 VIOLATION / 2 inconclusive. Known findings: known_findings.json.",
        "not_applicable": [{"property_id": p["id"], "reason": NA_REASON} for p in props if p["id"] not in CHECKS],
    }
    json.dump(m, open(os.path.join(ROOT, "MANIFEST.json"), "w"), indent=1)
    print("MANIFEST.json written:", len(checks), "checks,", len(m["not_applicable"]), "not applicable")

main()
