#!/usr/bin/env python3
"""Regenerates /verif/MANIFEST.json from the table below (keeps it valid at all times)."""
import json, os, sys
ROOT = os.path.dirname(os.path.dirname(os.path.abspath(__file__)))
props = [json.loads(l) for l in open(os.path.join(ROOT, "properties.jsonl"))]

# id -> (technique, level text, level note, design ref)
CHECKS = {
 "C10": ("bounded-exhaustive enumeration + random structured generation; differential against std lossy decode / encoding_rs one-shot decode",
         "Every byte string of length <=4 (thorough <=5) over the 25 UTF-8 boundary bytes under every chunk partition, plus random structured byte strings with random cut schedules, compared item-for-item (characters and error reports) with an independent whole-input decoder; the same for 40 encoding_rs encodings and for parser trees via from_utf8(). Exploration: held on all generated cases, no claim beyond them.",
         "Trusted: std::str::Utf8Chunks/from_utf8_lossy and encoding_rs one-shot decode as reference decoders; the harness's recording TendrilSink.",
         "DESIGN.md 4 C10"),
 "C13": ("model-based stateful property test (proptest-driven operation histories against a flat String model)",
         "Random histories of BufferQueue operations on two queues checked call-by-call against a String model that tracks buffer joins; exploration over millions of histories.",
         "Trusted: the String model in props/c13.rs; empty eat() patterns excluded as outside documented use.",
         "DESIGN.md 4 C13"),
}
NA_REASON = "check not built yet (work in progress; see DESIGN.md section 8 build order)"

def main():
    checks = []
    for p in props:
        pid = p["id"]
        if pid not in CHECKS:
            continue
        tech, text, note, ref = CHECKS[pid]
        checks.append({
            "property_id": pid,
            "quick_cmd": f"./check.sh {pid} quick",
            "thorough_cmd": f"./check.sh {pid} thorough",
            "evidence_file": f"evidence/{pid}.json",
            "replay_cmd_template": f"./check.sh {pid} quick --replay {{path}}",
            "engine": "hv",
            "level_claimed": {"category": "exploration", "text": text, "design_ref": ref},
            "level_note": note,
            "technique": tech,
        })
    fixes = []
    m = {
        "version": 1,
        "setup_cmd": "./setup.sh",
        "hooks": {
            "guard": "servo_html5ever_verif",
            "enable": "RUSTFLAGS=\"--cfg servo_html5ever_verif\" (set by check.sh/setup.sh for the harness build, which compiles /repo's crates as path dependencies)",
            "baseline_off_cmd": "cd /repo && cargo test --workspace --no-fail-fast --offline",
            "source_commits": [],
            "add_only": True,
        },
        "engines": [{
            "name": "hv",
            "path": "harness",
            "serves_properties": sorted(CHECKS),
            "kind_free_text": "Rust harness crate (bin vcheck): proptest-driven random generation over choice sequences with shrinking, bounded-exhaustive enumerators, reference models, replay files; libFuzzer targets under harness/fuzz",
        }],
        "checks": checks,
        "notes": "All checks: ./check.sh <ID> <quick|thorough> rebuilds the harness (and /repo's crates, as path dependencies) from the current working tree, honours VERIF_SEED, writes evidence/<ID>.json. Exit 0 held / 1 VIOLATION / 2 inconclusive. Known findings: known_findings.json.",
        "not_applicable": [{"property_id": p["id"], "reason": NA_REASON} for p in props if p["id"] not in CHECKS],
    }
    json.dump(m, open(os.path.join(ROOT, "MANIFEST.json"), "w"), indent=1)
    print("MANIFEST.json written:", len(checks), "checks,", len(m["not_applicable"]), "not applicable")

main()
