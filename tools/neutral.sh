#!/bin/bash
# tools/neutral.sh [patch-name...] : run the checks listed in neutral/README.md against each
# property-preserving patch (scratch copy via tools/mutate.sh); writes neutral/RESULTS.md.
cd /verif
names="$@"
[ -z "$names" ] && names=$(ls neutral/*.diff | xargs -n1 basename | sed 's/\.diff$//')
out=neutral/RESULTS.md
[ -z "$*" ] && echo "# Results of tools/neutral.sh ($(date -u +%F))" > $out
for n in $names; do
  ids=$(grep "^| $n " neutral/README.md | awk -F'|' '{print $4}')
  res=$(tools/mutate.sh nt-$n neutral/$n.diff -- $ids 2>&1 | grep -E "^===|^exit=|VIOLATION|INCONCLUSIVE" | tr '\n' ' ')
  echo "* $n: $res" >> $out
  echo "done $n"
done
