#!/usr/bin/env python3
"""tools/automut.py <workers> <mutants-per-file> [seed] [file-substring,...]

Cheap mutation run (complements the hand-written seeded changes): single-token mutations of the
files the properties are anchored in.  For each mutant, in a per-worker scratch copy of /repo and
/verif under /tmp/am-<w>/ (incremental builds):
  1. the pinned test suite must still compile and pass (otherwise the mutant is not counted:
     the brief asks for changes that pass the existing tests),
  2. the quick checks listed for the file are run; the mutant is KILLED if one exits 1 with a
     VIOLATION line, SURVIVED if all exit 0, INCONCLUSIVE otherwise.
Results: /verif/automut/RESULTS.md (one line per counted mutant) - survivors are the reading list
for equivalent-mutant triage / check strengthening.  Scratch copies are removed at the end.
"""
import os, re, sys, random, subprocess, shutil, json, threading, queue

FILES = {
    "html5ever/src/tokenizer/mod.rs": ["C01", "C03", "C09", "C08"],
    "html5ever/src/tokenizer/char_ref/mod.rs": ["C14", "C01", "C03"],
    "html5ever/src/tree_builder/mod.rs": ["C02", "C05", "C06", "C18", "C04"],
    "html5ever/src/tree_builder/rules.rs": ["C02", "C06", "C05", "C04"],
    "html5ever/src/tree_builder/data.rs": ["C02"],
    "html5ever/src/encoding.rs": ["C19"],
    "html5ever/src/serialize/mod.rs": ["C07"],
    "html5ever/src/driver.rs": ["C03", "C02", "C10"],
    "xml5ever/src/tokenizer/mod.rs": ["C15", "C08", "C04", "C16"],
    "xml5ever/src/tokenizer/char_ref/mod.rs": ["C14", "C15"],
    "xml5ever/src/tree_builder/mod.rs": ["C16", "C05", "C18", "C17"],
    "xml5ever/src/serialize/mod.rs": ["C17"],
    "xml5ever/src/driver.rs": ["C15", "C10"],
    "markup5ever/util/buffer_queue.rs": ["C13", "C03", "C15"],
    "markup5ever/util/smallcharset.rs": ["C13", "C01"],
    "markup5ever/interface/tree_builder.rs": ["C02", "C05"],
    "tendril/src/tendril.rs": ["C11", "C12"],
    "tendril/src/buf32.rs": ["C11", "C12"],
    "tendril/src/fmt.rs": ["C11"],
    "tendril/src/futf.rs": ["C11", "C10"],
    "tendril/src/utf8_decode.rs": ["C10"],
    "tendril/src/stream.rs": ["C10"],
    "rcdom/lib.rs": ["C20", "C07", "C04", "C17"],
}

OPS = [
    (r" == ", " != "), (r" != ", " == "), (r" <= ", " < "), (r" >= ", " > "), (r" < ", " <= "), (r" > ", " >= "),
    (r" && ", " || "), (r" \|\| ", " && "), (r"\btrue\b", "false"), (r"\bfalse\b", "true"),
    (r" \+ 1\b", " + 2"), (r" - 1\b", " - 0"), (r"\b0\.\.", "1.."), (r"\.is_some\(\)", ".is_none()"), (r"\.is_none\(\)", ".is_some()"),
    (r"\.is_empty\(\)", ".len() == 1"), (r"!self\.", "self."),
]


def candidates(path):
    lines = open(path).read().split("\n")
    out = []
    in_test = False
    for i, l in enumerate(lines):
        st = l.strip()
        if st.startswith("#[cfg(test)]") or st.startswith("mod test"):
            in_test = True
        if in_test or st.startswith("//") or st.startswith("///") or st.startswith("#[") or "debug_assert" in l or "assert!" in l or "trace!" in l or "debug!" in l or "warn!" in l:
            continue
        if "verif" in l:
            continue
        for k, (pat, rep) in enumerate(OPS):
            for m in re.finditer(pat, l):
                # skip generics / where clauses / lifetimes
                if pat in (r" < ", r" > ") and ("fn " in l or "impl" in l or "where" in l or "->" in l):
                    continue
                out.append((i, m.start(), m.end(), rep, k))
        # statement deletion: a lone call statement
        if re.match(r"^\s*self\.[a-z_\.]+\(.*\);\s*$", l) and "?" not in l:
            out.append((i, 0, len(l), "", -1))
    return lines, out


def run(cmd, cwd, timeout=1800, env=None):
    e = dict(os.environ)
    e.update(env or {})
    # own process group, so that a timeout also ends grandchildren (a mutant that loops forever
    # inside one of the repository's test binaries)
    p = subprocess.Popen(cmd, cwd=cwd, shell=True, stdout=subprocess.PIPE, stderr=subprocess.STDOUT, text=True, env=e, start_new_session=True)
    try:
        out, _ = p.communicate(timeout=timeout)
        return p.returncode, out
    except subprocess.TimeoutExpired:
        import signal
        try:
            os.killpg(p.pid, signal.SIGKILL)
        except ProcessLookupError:
            pass
        p.wait()
        return 124, "timeout"


def worker(w, jobs, results, lock):
    root = f"/tmp/am-{w}"
    shutil.rmtree(root, ignore_errors=True)
    os.makedirs(root + "/verif")
    run(f"rsync -a --exclude target --exclude .git /repo/ {root}/repo/", "/")
    run(f"rsync -a --exclude target --exclude evidence --exclude replays --exclude .git --exclude seeded /verif/ {root}/verif/", "/")
    os.makedirs(root + "/verif/replays/regress", exist_ok=True)
    os.makedirs(root + "/verif/evidence", exist_ok=True)
    run(f"cp -r /verif/replays/regress/. {root}/verif/replays/regress/; cp /verif/replays/KF-*.json {root}/verif/replays/ 2>/dev/null; cp -a /verif/harness/target {root}/verif/harness/target", "/")
    # warm the repo's own test build once
    run("cargo test --workspace --no-fail-fast --offline --no-run", root + "/repo", env={"CARGO_TARGET_DIR": root + "/rt"})
    while True:
        try:
            job = jobs.get_nowait()
        except queue.Empty:
            break
        rel, lines, (i, a, b, rep, k) = job
        path = f"{root}/repo/{rel}"
        orig = open(path).read()
        new_line = lines[i][:a] + rep + lines[i][b:]
        mutated = "\n".join(lines[:i] + [new_line] + lines[i + 1:])
        open(path, "w").write(mutated)
        desc = f"{rel}:{i+1}: `{lines[i].strip()[:90]}` -> `{new_line.strip()[:90]}`"
        rc, out = run("cargo test --workspace --no-fail-fast --offline 2>&1 | grep -E '^test result|^error\\[|could not compile' | head -40", root + "/repo", env={"CARGO_TARGET_DIR": root + "/rt"})
        if "could not compile" in out or "error[" in out or not out.strip():
            verdict = "NOT-COUNTED (does not compile)"
        else:
            failed = sum(int(m) for m in re.findall(r"(\d+) failed", out))
            passed = sum(int(m) for m in re.findall(r"(\d+) passed", out))
            if failed > 0 or passed < 142:
                verdict = f"NOT-COUNTED (pinned tests: {passed} passed, {failed} failed)"
            else:
                verdict = None
        if verdict is None:
            res = []
            for cid in FILES[rel]:
                rc, out = run(f"./check.sh {cid} quick > /dev/null 2>&1; echo rc=$?", root + "/verif", env={"VERIF_ROOT": root + "/verif"})
                m = re.search(r"rc=(\d+)", out)
                code = m.group(1) if m else "?"
                res.append(f"{cid}={code}")
                if code == "1":
                    break
            if any(r.endswith("=1") for r in res):
                verdict = "KILLED " + " ".join(res)
            elif all(r.endswith("=0") for r in res):
                verdict = "SURVIVED " + " ".join(res)
            else:
                verdict = "INCONCLUSIVE " + " ".join(res)
        open(path, "w").write(orig)
        with lock:
            results.append((desc, verdict))
            with open("/verif/automut/RESULTS.md", "a") as f:
                f.write(f"* {verdict} | {desc}\n")
    shutil.rmtree(root, ignore_errors=True)


def main():
    workers = int(sys.argv[1])
    per_file = int(sys.argv[2])
    seed = int(sys.argv[3]) if len(sys.argv) > 3 else 0
    only = sys.argv[4].split(",") if len(sys.argv) > 4 else None
    rnd = random.Random(seed)
    jobs = queue.Queue()
    n = 0
    for rel in FILES:
        if only and not any(o in rel for o in only):
            continue
        lines, cands = candidates("/repo/" + rel)
        rnd.shuffle(cands)
        for c in cands[:per_file]:
            jobs.put((rel, lines, c))
            n += 1
    os.makedirs("/verif/automut", exist_ok=True)
    with open("/verif/automut/RESULTS.md", "a") as f:
        f.write(f"\n## run: seed {seed}, {per_file} mutants per file, {n} mutants\n\n")
    results, lock = [], threading.Lock()
    ts = [threading.Thread(target=worker, args=(w, jobs, results, lock)) for w in range(workers)]
    for t in ts:
        t.start()
    for t in ts:
        t.join()
    k = sum(1 for _, v in results if v.startswith("KILLED"))
    s = sum(1 for _, v in results if v.startswith("SURVIVED"))
    nc = sum(1 for _, v in results if v.startswith("NOT-COUNTED"))
    with open("/verif/automut/RESULTS.md", "a") as f:
        f.write(f"\nsummary: {k} killed, {s} survived, {nc} not counted (broken build or pinned tests), {len(results)-k-s-nc} inconclusive\n")
    print(k, s, nc)


if __name__ == "__main__":
    main()
