#!/bin/bash
# tools/commit.sh "message" : commit /verif only if every quick check is silent on the current trees.
cd /verif
if tools/allquick.sh 0 > /tmp/allquick.out 2>&1; then
  git add -A && git commit -qm "$1" && echo "committed: $1"
else
  grep -E "VIOLATION|INCONCL|\^\^\^|SILENT" /tmp/allquick.out; echo "NOT committed"; exit 1
fi
