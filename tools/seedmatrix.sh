#!/bin/bash
# Re-run the property's own check (and the checks named in eval.log) against every
# seeded change with the current checks; writes seeded/<dir>/final.log.
# usage: tools/seedmatrix.sh [parallelism] [seed]   (seed given: results go to final-s<seed>.log)
par=${1:-3}
seed=${2:-}
export MUT_SEED=$seed
out=final${seed:+-s$seed}.log
export out
cd /verif
# frozen copy of the checks, so that edits in /verif during the (long) run do not leak into it
snap=/tmp/verif-snap
rm -rf $snap; mkdir -p $snap
rsync -a --exclude evidence --exclude .git --exclude seeded --exclude fuzz/target /verif/ $snap/
export VERIF_SRC=$snap
ls -d seeded/*/ | while read d; do
  d=${d%/}; name=$(basename $d)
  [ -f $d/patch.diff ] || continue
  id=$(echo $name | grep -oE 'C[0-9]+' | head -1)
  others=$(grep -oE '^=== C[0-9]+' $d/eval.log 2>/dev/null | awk '{print $2}' | sort -u | grep -v "^$id$" | tr '\n' ' ')
  # (xargs -L continues a line that ends in a blank)
  echo "$name $id $others" | sed 's/ *$//'
done | xargs -P $par -L 1 sh -c 'name=$0; id=$1; shift; /verif/tools/mutate.sh fm-$name /verif/seeded/$name/patch.diff -- $id "$@" 2>&1 | grep -E "^===|^exit=|VIOLATION|INCONCLUSIVE" > /verif/seeded/$name/$out; echo "done $name"'
rm -rf $snap
