#!/usr/bin/env python3
"""tools/probe.py <input> [ID...] : replay one HTML input (single chunk, document parse, default
options) through the tree-level checks (default C06 C20 C02 C05).  Scratch helper."""
import json, subprocess, sys, tempfile, os
inp = sys.argv[1]
ids = sys.argv[2:] or ["C06", "C02", "C05"]
cfg = {"ctx": None, "scripting": True, "srcdoc": False, "quirks0": 0, "tb_exact_errors": False, "tok_exact_errors": False,
       "drop_doctype": False, "discard_bom": False, "dsd_allow": False, "profile": False, "form_ptr": False}
for i in ids:
    case = {"cfg": cfg, "input": inp, "chunks": [inp]}
    if i == "C04":
        case = {"Html": {"cfg": cfg, "chunks": [inp], "rcdom": True}}
    f = tempfile.NamedTemporaryFile("w", suffix=".json", delete=False)
    json.dump({"property": i, "case": case, "what": "probe"}, f); f.close()
    r = subprocess.run(["/verif/check.sh", i, "quick", "--replay", f.name], capture_output=True, text=True)
    out = [l for l in (r.stdout + r.stderr).splitlines() if "VIOLATION" in l or "what:" in l or "---" in l or "|" in l]
    print(i, "exit", r.returncode, "\n".join(out)[:1500])
    os.unlink(f.name)
