#!/usr/bin/env python3
"""tools/seedprep.py <round> <ID>... : prepare scratch worktrees /tmp/seed<round>-<ID> of /repo for
sub-agents: PROPERTY.txt (statement and anchors of the property, nothing else from /verif) and
TASK.md (the task, plus the titles of the changes earlier rounds produced for this property)."""
import json, sys, os, subprocess, glob
rnd = sys.argv[1]
ids = sys.argv[2:]
props = {json.loads(l)["id"]: json.loads(l) for l in open("/verif/properties.jsonl")}
TASK = open("/verif/tools/seedtask4.md" if rnd == "4" else "/verif/tools/seedtask.md").read()
for i in ids:
    wt = f"/tmp/seed{rnd}-{i}"
    subprocess.run(["git", "-C", "/repo", "worktree", "remove", "--force", wt], capture_output=True)
    subprocess.run(["rm", "-rf", wt])
    subprocess.check_call(["git", "-C", "/repo", "worktree", "add", "-q", "--detach", wt, "HEAD"])
    p = props[i]
    with open(f"{wt}/PROPERTY.txt", "w") as f:
        f.write(f"Property {i}: {p.get('title','')}\n\n{p['statement']}\n\nAnchors (where the property lives in the code):\n")
        f.write(json.dumps(p.get("anchors", {}), indent=1))
        f.write("\n")
    prev = []
    for d in sorted(glob.glob(f"/verif/seeded/*{i}-*")):
        try:
            m = json.load(open(d + "/meta.json"))
            fs = m.get("files_changed") or []
            if isinstance(fs, str):
                fs = [fs]
            prev.append(f"- {m.get('title') or m.get('what_breaks','')[:160]} (files: {', '.join(fs)})")
        except Exception:
            pass
    with open(f"{wt}/TASK.md", "w") as f:
        f.write(TASK.replace("@WT@", wt).replace("@PREV@", "\n".join(prev)))
    print("prepared", wt)
