#!/bin/bash
# Sensitivity protocol (DESIGN.md 2.9): run checks against a mutated scratch copy.
# usage: tools/mutate.sh <name> <patch-file|-e 'sed-expr' file> -- <ID> [<ID>...]
#   tools/mutate.sh m1 -e 's/a/b/' markup5ever/util/buffer_queue.rs -- C13
#   tools/mutate.sh m2 /path/to/patch.diff -- C01 C03
# Env: MUT_TESTS=1 also runs the repo's own test suite on the mutated copy.
set -u
name=$1; shift
root=/tmp/mt-$name
rm -rf "$root"; mkdir -p "$root"
rsync -a --exclude target --exclude .git /repo/ "$root/repo/"
mkdir -p "$root/verif"
src=${VERIF_SRC:-/verif}
rsync -a --exclude target --exclude evidence --exclude replays --exclude .git --exclude seeded "$src/" "$root/verif/"
mkdir -p "$root/verif/replays" "$root/verif/evidence"
[ -d "$src/replays/regress" ] && cp -r "$src/replays/regress" "$root/verif/replays/"
for f in "$src"/replays/KF-*.json; do [ -e "$f" ] && cp "$f" "$root/verif/replays/"; done
# reuse compiled registry dependencies
if [ -d "$src/harness/target" ]; then cp -a "$src/harness/target" "$root/verif/harness/target"; fi
if [ "$1" = "-e" ]; then
  expr=$2; file=$3; shift 3
  before=$(md5sum "$root/repo/$file")
  sed -i -E "$expr" "$root/repo/$file"
  after=$(md5sum "$root/repo/$file")
  if [ "$before" = "$after" ]; then echo "MUTATION DID NOT APPLY"; rm -rf "$root"; exit 3; fi
else
  patch=$(readlink -f "$1"); shift
  (cd "$root/repo" && patch -p1 --no-backup-if-mismatch < "$patch") || { echo "PATCH FAILED"; rm -rf "$root"; exit 3; }
fi
[ "$1" = "--" ] && shift
(cd "$root/repo" && diff -ru /repo "$root/repo" -x target -x .git | head -40)
rc_all=0
if [ "${MUT_TESTS:-0}" = "1" ]; then
  (cd "$root/repo" && CARGO_TARGET_DIR=$root/rt cargo test --workspace --no-fail-fast --offline 2>&1 | grep -E "^test result|FAILED|failed" | grep -v "^test result: ok" | head -20)
fi
for id in "$@"; do
  echo "=== $id on mutant $name"
  if [ -n "${MUT_REPLAY:-}" ]; then
    # MUT_REPLAY=<replay file>: replay one saved case against the mutant instead of the quick tier
    VERIF_ROOT="$root/verif" "$root/verif/check.sh" "$id" quick --replay "$(readlink -f "$MUT_REPLAY")" 2>&1 | tail -${MUT_TAIL:-6}
    echo "exit=${PIPESTATUS[0]}"
    continue
  fi
  VERIF_ROOT="$root/verif" "$root/verif/check.sh" "$id" quick ${MUT_SEED:+--seed $MUT_SEED} 2>&1 | tail -${MUT_TAIL:-6}
  echo "exit=${PIPESTATUS[0]}"
done
rm -rf "$root"
