#!/bin/bash
# tools/allquick.sh [seed] : every quick check on the current trees; prints one line per check and
# a final ALL-SILENT / NOT-SILENT verdict (exit 1 if any check exits non-zero or prints VIOLATION /
# INCONCLUSIVE).
cd /verif
seed=${1:-0}
bad=0
for i in $(seq -w 1 20); do
  id=C$i
  out=$(./check.sh $id quick --seed $seed 2>&1); rc=$?
  echo "$out" | grep -E "VIOLATION|INCONCLUSIVE" | head -3
  echo "$out" | tail -1 | cut -c1-160
  if [ $rc -ne 0 ] || echo "$out" | grep -qE "VIOLATION|INCONCLUSIVE"; then bad=1; echo "  ^^^ $id rc=$rc"; fi
done
[ $bad = 0 ] && echo "ALL-SILENT seed=$seed" || { echo "NOT-SILENT seed=$seed"; exit 1; }
