#!/usr/bin/env python3
"""Summarise /verif/seeded/*/eval.log into seeded/INDEX.md and add a `verification`
block to each meta.json (what I ran, which checks caught the change)."""
import json, os, re, glob
root = os.path.dirname(os.path.dirname(os.path.abspath(__file__)))
rows = []
NOTES = {
 "C05-2": "REJECTED as a C05 seed: the change makes xml:lang and x:lang (x bound to the XML namespace URI) coexist; their qualified names differ, so the property as worded (no two attributes with the same qualified name) still holds, and C16 only says when an attribute MAY be dropped. Kept for the record; no check is expected to flag it.",
 "C01-1": "first missed by C01 (needs a raw-text end tag written </name/> followed by a markup declaration); C01 now primes every way of leaving a raw state followed by '<!' and the token soup has </title/> etc.",
 "C12-1": "first missed (needs reserve() beyond 2^31); C11/C12 histories now contain huge reserves (documented overflow panic, tendril must stay intact).",
 "C17-2": "first missed by C17 (needs an element named template in the XHTML namespace); the XML generator now has that name and namespace.",
 "C18-2": "needs a script that detaches an ancestor at a script pause; C18 now simulates such scripts.",
 "r2-C01-1": "first missed by C01: its normalisation split NUL out of character runs on both sides; NUL inside CharacterTokens is now its own token kind that never matches.",
 "r2-C05-2": "first missed by C05: the monitor accepted any element as form-association target; it now requires a form-associatable HTML element.",
 "r2-C06-1": "first missed by C06 (six conditions: foreign element with a table-part name, integration point, table opened and closed, table-structure tag); the HTML generator now has foreign elements with HTML-meaningful names.",
 "r2-C06-2": "first missed by C06 (needs selectedcontent ending in text + selected option starting with text); the HTML generator now emits whole customizable-select blocks.",
 "r2-C04-2": "first evaluation lost (process killed); needs select/selectedcontent/table/selected option/</option>/foster-parented text; caught since the generator emits customizable-select blocks.",
 "r2-C07-1": "first missed by C07 (threshold 4096 bytes before the character to escape); generated text/attribute values now have plain runs of 2^k-2..2^k+1 bytes up to 64 KiB.",
 "r2-C12-2": "first missed by C12 (copy of >=128 KiB with length mod 4096 in 4081..4095); lengths now include size classes and page multiples up to 1 MiB, +-20.",
 "r2-C13-1": "first missed by C13 (SWAR carry: '?' in the set directly after a character ending in 0xBF); alphabet and sets extended to the bitmap edge and the UTF-8 byte boundaries.",
 "r2-C13-2": "first missed by C13 (buffers >= 64 bytes of characters >= 64 with a set member in the last len%8 bytes); long high-byte runs added.",
 "r2-C15-1": "first missed by C15 (numeric reference >= 2^32 split across chunks); the XML token soup has such references.",
 "r2-C15-2": "first missed by C15 (>= 64 script suspensions in one process() call of the crate's own driver); C15 now also drives XmlParser::process/finish and the soup repeats fragments 20-90 times.",
 "r2-C08-2": "first missed by C08 and C15 (form feed in an unquoted XML attribute value under exact_errors); the XML token soup has unquoted values with FF/TAB/CR separators.",
 "r2-C16-1": "first missed by C16 (more than 20 prefixed attributes on one tag); tags with 17-40 attributes added.",
 "r2-C17-1": "first missed by C17 (U+0085 in text); C1 controls, U+0085, U+2028/9 added to the pools.",
 "r2-C19-1": "first missed by C19 and C08 (profile=true loop drops the indicator); C19 toggles profile/exact_errors, C08 compares the sequence of feed() results.",
 "r2-C20-1": "C20 first did not terminate on this change (RcDom's own ancestor walk looped on the stale parent link): exit 143 when killed. C20 now compares every handle's parent link after every direct operation and reports the stale link where it is created; the engine has a watchdog (exit 2).",
 "r3-C01-1": "first missed by C01 (needs a sink that switches the tokenizer state in answer to an END tag); policies now have end-tag keys.",
 "r3-C02-1": "first missed by C02 (SVG/MathML fragment context named form + breakout + <form>); C02 now enumerates every fragment context x short probe sequences.",
 "r3-C04-1": "first missed by C04 (meta content with characters whose lower-casing changes the UTF-8 length); such content values added to the HTML generator.",
 "r3-C04-2": "first evaluation inconclusive (harness edited during the run); needs a multi-byte character at a quirks-table prefix length in the public identifier; doctype mutations and a sweep with a multi-byte character at every position added.",
 "r3-C06-1": "first missed by C06 (U+000B treated as white space); characters next to HTML white space added to the generator.",
 "r3-C08-2": "first missed by C08 and C02 (<pre> + stray DOCTYPE + LF under drop_doctype); the ignore-next-LF rule x every kind of next token added.",
 "r3-C09-2": "first missed by C09 (line not forwarded before TreeSink::parse_error for error tokens); C09 now checks the forwarded line at every TreeSink call.",
 "r3-C10-1": "first missed by C10 (LossyDecoder::new_from_encoding_rs_decoder with a BOM-handling UTF-8 decoder); that entry point is now exercised with every kind of decoder.",
 "r3-C10-2": "first missed by C10 (caught by C15): XML driver resumes only once per process(); C10's parser-level cases now use generated markup.",
 "r3-C11-1": "first missed by C11 (U+E000 mis-classified); the edges of every code-point range added.",
 "r3-C11-2": "first missed by C11 (read_to_tendril after a hard I/O error); read_to_tendril from scripted readers added.",
 "r3-C12-1": "first missed by C12: the defect is an out-of-bounds READ (contents end up right); every other case now runs on a guard-page allocation scheme, and the generator grows short views of the tail of shared buffers.",
 "r3-C12-2": "first missed by C12 and C11 (Extend from an iterator whose size_hint lies); such iterators added.",
 "r3-C13-1": "first missed by C13 (eat with a caller-supplied comparison other than the two in-tree ones); custom comparisons added.",
 "r3-C14-1": "first missed by C14 and C15 (xml5ever: stale state in a recycled character-reference tokenizer, visible only in a SECOND reference); every ordered pair of reference-shaped pieces must now resolve as each does alone.",
 "r3-C15-1": "first missed by C15 (caught by C13): keyword spanning three or more buffers when several chunks are queued before one feed(); that schedule added to C15 and C03.",
 "r3-C16-1": "first missed by C16 (64-bit fold of the expanded name collides for e.g. count/sound); names over tiny alphabets added.",
 "r3-C16-2": "first missed by C16 (unprefixed p-id after p:id treated as duplicate); colon-replaced spellings added.",
 "r3-C18-1": "first missed by C18 (head pointer untraced while a template opened after </head> is open; needs a script that detaches two ancestors); scripts now detach sets of ancestors, ancestors continue through template hosts, scripts are placed inside templates next to the head/form pointers.",
 "r3-C19-1": "first missed by C19 and (at that snapshot) C08: U+FEFF dropped where the parser resumes after an EncodingIndicator; C19's resumption relation is now decided independently of the reference comparison (which had excluded the case as 'C02's business'), and both generators put U+FEFF at resumption points.",
 "r3-C20-2": "first missed by C20 (copies lose the annotation-xml integration-point flag, invisible in the dump); element flags are now compared in lockstep.",
 "r4-C01-1": "first missed by C01 (caught by C14): one entry of the C1 replacement table in web_atoms; all 32 C1 references added to the token soup.",
 "r4-C02-1": "first missed by C02 (Noah's Ark equality also compares the duplicate-attribute flag); a Noah's-Ark family (same tag written with permuted / repeated / re-cased attributes) added.",
 "r4-C07-1": "first missed by C07 (default attach_declarative_shadow answers true, so RcDom loses <template shadowrootmode=open> below the root on re-parse); such templates added to the built trees.",
 "r4-C07-2": "a fragment-parsing change (foreign context elements): outside what C07 exercises (it re-parses with an HTML div context); flagged by C02.",
 "r4-C11-1": "a change of the UTF-8 stream decoder, which is C10's subject; C11 (tendril operations) has no reason to see it; flagged by C10.",
 "r4-C11-2": "first missed by C13 and C01 (scan window of 4096 bytes cuts a multi-byte character): buffers of 1022..65536 bytes added to C13 and buffer-sized runs to the token soup. C11 has no reason to see it.",
 "r4-C20-1": "first missed by C20: the model compared attribute names with QualName's own ==, which the change redefines; the model now compares namespace, prefix and local name field by field, and the attribute pool has the same expanded names under several prefixes.",
 "r4-C20-2": "REJECTED: both demonstration traces hand the sink attribute lists with repeated names (in create_element, or inside one add_attrs_if_missing call), which the TreeSink contract (C05) excludes and neither tokenizer produces; on contract-valid calls the change behaves like HEAD.",
 "C02-2": "patch re-based by hand after /repo commit 01c708b moved the changed block (original kept as patch.orig.diff).",
}
for d in sorted(glob.glob(os.path.join(root, "seeded", "C*-*")) + glob.glob(os.path.join(root, "seeded", "r2-C*-*")) + glob.glob(os.path.join(root, "seeded", "r3-C*-*")) + glob.glob(os.path.join(root, "seeded", "r4-C*-*"))):
    name = os.path.basename(d)
    log = os.path.join(d, "eval.log")
    if not os.path.exists(log):
        continue
    txt = open(log).read()
    applies = "yes" in txt.split("== existing")[0]
    m = re.search(r"(\d+) passed, (\d+) failed", txt)
    tests = m.group(0) if m else "?"
    demo = txt.split("== demonstration")[1].split("== my checks")[0] if "== demonstration" in txt else ""
    demo_ok = ("PASS" in demo) and ("FAIL" in demo or "VIOLAT" in demo or "MISMATCH" in demo)
    checks0 = re.findall(r"=== (C\d+) on mutant [^\n]*\n(?:[^\n]*\n)*?exit=(\d)", txt.split("== my checks")[1] if "== my checks" in txt else "")
    # final.log (tools/seedmatrix.sh: the committed checks re-run against every seed) wins
    fin = os.path.join(d, "final.log")
    checks1 = re.findall(r"=== (C\d+) on mutant [^\n]*\n(?:[^\n]*\n)*?exit=(\d)", open(fin).read()) if os.path.exists(fin) else []
    seen = {c for c, _ in checks1}
    checks = checks1 + [(c, e) for c, e in checks0 if c not in seen]
    first_missed = [c for c, e in checks0 if e == "0" and (c, "1") in checks1]
    # second matrix run with VERIF_SEED=1 (tools/seedmatrix.sh 3 1)
    fin1 = os.path.join(d, "final-s1.log")
    checks_s1 = re.findall(r"=== (C\d+) on mutant [^\n]*\n(?:[^\n]*\n)*?exit=(\d)", open(fin1).read()) if os.path.exists(fin1) else []
    caught = [c for c, e in checks if e == "1"]
    missed = [c for c, e in checks if e == "0"]
    inconc = [c for c, e in checks if e == "2"]
    meta_p = os.path.join(d, "meta.json")
    meta = {}
    if os.path.exists(meta_p):
        try:
            meta = json.load(open(meta_p))
        except Exception:
            meta = {"raw": open(meta_p).read()}
    meta["verification"] = {
        "patch_applies_to_repo_head": applies,
        "existing_tests_with_patch": tests,
        "demonstration_passes_without_and_fails_with_patch": demo_ok,
        "commands": ["tools/seedeval.sh <scratch worktree> <n> " + " ".join(c for c, _ in checks)],
        "caught_by_quick_checks": caught,
        "not_flagged_by": missed,
        "inconclusive": inconc,
        "first_missed_then_strengthened": first_missed,
        "caught_by_quick_checks_with_seed_1": [c for c, e in checks_s1 if e == "1"],
        "note": NOTES.get(name, ""),
    }
    json.dump(meta, open(meta_p, "w"), indent=1)
    title = meta.get("title", "")
    rows.append((name, title, tests, demo_ok, caught, missed, NOTES.get(name, "")))
with open(os.path.join(root, "seeded", "INDEX.md"), "w") as f:
    f.write("# Seeded changes (written by independent sub-agents from the property text only)\n\n")
    f.write("Each directory: `patch.diff` (applies to /repo HEAD), the demonstration (`run.sh` + sources), `meta.json` (agent's description + my `verification` block), `eval.log` (what I ran).\n\n")
    f.write("| seed | change | existing tests with patch | demo confirmed | caught by (quick tier) | not flagged by | note |\n|---|---|---|---|---|---|---|\n")
    for r in rows:
        f.write(f"| {r[0]} | {r[1]} | {r[2]} | {'yes' if r[3] else 'see eval.log'} | {', '.join(r[4]) or '-'} | {', '.join(r[5]) or '-'} | {r[6]} |\n")
print(len(rows), "seeds indexed")
