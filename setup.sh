#!/bin/bash
# Build the verification harness from files on disk only (offline).
set -e
cd "$(dirname "$0")/harness"
export CARGO_NET_OFFLINE=true
RUSTFLAGS="--cfg servo_html5ever_verif" cargo build --release --offline -q
