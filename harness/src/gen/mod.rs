//! Shared generators (all driven by `engine::Src`).
