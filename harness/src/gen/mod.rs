//! Shared generators (all driven by `engine::Src`).
pub mod chunks;
pub mod bytes;
pub mod html;
pub mod cases;
pub mod xml;
