//! Byte strings biased to UTF-8 structure.
use crate::engine::Src;

/// The boundary bytes of the UTF-8 well-formedness table.
pub const BOUNDARY: [u8; 25] = [
    0x00, 0x41, 0x7F, 0x80, 0x8F, 0x90, 0x9F, 0xA0, 0xBF, 0xC0, 0xC1, 0xC2, 0xDF, 0xE0, 0xE1, 0xEC, 0xED, 0xEE, 0xEF,
    0xF0, 0xF1, 0xF3, 0xF4, 0xF5, 0xFF,
];

pub fn gen_utf8ish(s: &mut Src, max_units: usize) -> Vec<u8> {
    let n = s.len(max_units);
    let mut out = vec![];
    for _ in 0..n {
        match s.below(12) {
            0..=3 => out.push(*s.pick(b"a<>&/ \n\r=\"'!-x")),
            4 => {
                let c = s.any_char();
                let mut b = [0u8; 4];
                out.extend_from_slice(c.encode_utf8(&mut b).as_bytes());
            },
            5 => {
                // truncated multi-byte sequence
                let c = char::from_u32(0x80 + s.below(0x10F000) as u32).unwrap_or('€');
                let mut b = [0u8; 4];
                let e = c.encode_utf8(&mut b).as_bytes();
                let k = s.range(1, e.len().max(2) - 1);
                out.extend_from_slice(&e[..k.min(e.len())]);
            },
            6 => out.push(*s.pick(&BOUNDARY)),
            7 => {
                // surrogate encoded as 3 bytes / overlong / beyond 10FFFF
                match s.below(4) {
                    0 => out.extend_from_slice(&[0xED, 0xA0 + s.below(0x20) as u8, 0x80 + s.below(0x40) as u8]),
                    1 => out.extend_from_slice(&[0xE0, 0x80 + s.below(0x20) as u8, 0x80]),
                    2 => out.extend_from_slice(&[0xF4, 0x90 + s.below(0x30) as u8, 0x80, 0x80]),
                    _ => out.extend_from_slice(&[0xF0, 0x80 + s.below(0x10) as u8, 0x80, 0x80]),
                }
            },
            8 => out.push(0x80 + s.below(0x40) as u8),
            9 => out.extend_from_slice("\u{FFFD}".as_bytes()),
            10 => out.extend_from_slice("\u{FEFF}".as_bytes()),
            _ => out.push(s.byte()),
        }
    }
    out
}
