//! HTML text generators.
use crate::engine::Src;

pub const TOK_FRAGMENTS: &[&str] = &[
    "<", ">", "/", "!", "-", "--", "?", "=", "\"", "'", "&", "#", ";", "]", "[", "]]>", "<![CDATA[", "<!--", "-->", "--!>",
    "<!DOCTYPE", "<!doctype html>", " PUBLIC ", " SYSTEM ", "\"-//W3C//DTD HTML 4.01//EN\"", "'about:legacy-compat'",
    "<a", "<a ", "</a>", "<b>", "</b>", "<title>", "</title>", "<textarea>", "</textarea>", "<style>", "</style>",
    "<script>", "</script>", "</script ", "<!--<script>", "<xmp>", "</xmp>", "<plaintext>", "<svg>", "</svg>", "<math>",
    "</math>", "<iframe>", "</iframe>", "<noembed>", "<noframes>", "</noframes>", "<p", "<div", "<br/>", " x", " x=y",
    " x='y'", " x=\"y\"", " X=1", " x", "/>", "&amp;", "&amp", "&lt", "&not", "&notin;", "&noti", "&#", "&#x", "&#65;",
    "&#x41", "&#0;", "&#128;", "&#xD800;", "&#1114112;", "&AElig", "&Aacute=", "&copy1", "\t", "\n", "\r", "\r\n",
    "\x0C", " ", "\0", "a", "A", "z", "é", "\u{FEFF}", "😁", "x", "scr", "ipt", "TITLE", "`", "<?", "<?xml ?>", "</ >", "</",
    "<averyveryverylongtagname0123456789 ", "averyveryverylongattributename0123456789=", "\"a very very very long attribute value 0123456789 &amp; more\"",
    "<!--a very very very long comment 0123456789 - with - dashes-->", "<!DOCTYPE averyveryverylongdoctypename PUBLIC \"a very very long public identifier\" 'and a long system identifier'>",
    "some long text of more than sixteen bytes, and then some more", "&CounterClockwiseContourIntegral;", "&CounterClockwiseContourIntegra",
    // non-ASCII letters with a Unicode (not ASCII) lower-case mapping: names are ASCII-lowercased only
    "É", "\u{212A}", "İ", "Σ", "<!DOCTYPE hÉ>", "<!doctype htm\u{212A}>", "<É", "<aÉ b=c>", "<a É=Ü>", "</aÉ>", "<TITLÉ>", "</TITLÉ>", "<sCRİPT>",
    "&#x80;", "&#x81;", "&#x82;", "&#x83;", "&#x84;", "&#x85;", "&#x86;", "&#x87;", "&#x88;", "&#x89;", "&#x8A;", "&#x8B;", "&#x8C;", "&#x8D;",
    "&#x8E;", "&#x8F;", "&#x90;", "&#x91;", "&#x92;", "&#x93;", "&#x94;", "&#x95;", "&#x96;", "&#x97;", "&#x98;", "&#153;", "&#x9A;", "&#x9B;", "&#x9C;",
    "&#x9D;", "&#x9E;", "&#159;",
    "&#x100000041;", "&#4294967361;", "&#x0000000041;", "&#99999999999;", "</title/>", "</script/>", "</style/>", "</textarea/>", "</xmp/ x>", "</title x=y>", "</script\t>", "</TITLE/>", "<!x>", "<!-", "<!->", "<!--->", "<!---->", "<!-- <!-- -->", "--!", "<![", "<![cdata[", "]]", "PUBLIC", "system",
];

/// Token soup: fragments that exercise every tokenizer state, glued together,
/// followed by character-level noise.
pub fn tok_soup(s: &mut Src, max_frags: usize) -> String {
    let n = s.len(max_frags);
    let mut out = String::new();
    for _ in 0..n {
        if s.chance(8) {
            // a run long enough for the 16-byte SIMD stride, with a special character somewhere
            let k = if s.chance(16) {
                // a buffer-sized run: plain bytes up to just before 2^k, then multi-byte characters
                // straddling the boundary
                *s.pick(&[1021usize, 1022, 1023, 4092, 4093, 4094, 4095, 4096, 8189, 8190, 8191, 65533, 65534])
            } else {
                s.range(14, 70)
            };
            if k > 100 {
                for _ in 0..k {
                    out.push('a');
                }
                out.push_str(*s.pick(&["é", "中", "😁", "éé", "中中", "a中"]));
            } else {
                for _ in 0..k {
                    out.push(*s.pick(&['a', 'b', ' ', 'c', '\n', 'é', 'd', 'e']));
                }
            }
            out.push(*s.pick(&['<', '&', '\r', '\0', 'x']));
        } else if s.chance(4) {
            many_attrs_tag(s, &mut out);
        } else if s.chance(200) {
            out.push_str(*s.pick(TOK_FRAGMENTS));
        } else {
            out.push(s.any_char());
        }
    }
    noise(s, out)
}

/// A start (rarely end) tag with many attributes: 9-80 mostly distinct names, each of which
/// may be repeated later in the tag (thresholds of duplicate detection, small vectors, hashing).
pub fn many_attrs_tag(s: &mut Src, out: &mut String) {
    let n = *s.pick(&[9usize, 15, 16, 17, 31, 32, 33, 34, 40, 63, 64, 65, 80]) + s.below(3);
    out.push_str(*s.pick(&["<div", "<a", "<svg", "<b", "<td", "<input", "</p", "<math", "<option", "<html", "<body"]));
    let mut names: Vec<String> = vec![];
    for i in 0..n {
        let name = if !names.is_empty() && s.chance(24) {
            // repeat an earlier attribute (any position, biased to the latest and to the thresholds)
            let j = match s.below(4) {
                0 => names.len() - 1,
                1 => s.below(names.len()),
                2 => (*s.pick(&[0usize, 7, 8, 15, 16, 31, 32, 33, 63, 64])).min(names.len() - 1),
                _ => names.len().saturating_sub(1 + s.below(3)),
            };
            let r = names[j].clone();
            if s.chance(60) { r.to_ascii_uppercase() } else { r }
        } else {
            format!("n{i}")
        };
        out.push(*s.pick(&[' ', ' ', '\n', '/']));
        out.push_str(&name);
        match s.below(4) {
            0 => {},
            1 => out.push_str(&format!("=v{i}")),
            2 => out.push_str(&format!("=\"w {i}\"")),
            _ => out.push_str("='x'"),
        }
        names.push(name.to_ascii_lowercase());
    }
    out.push_str(*s.pick(&[">", ">", "/>", " >"]));
}

/// character-level insert / delete / replace
pub fn noise(s: &mut Src, text: String) -> String {
    if !s.chance(80) {
        return text;
    }
    let mut cs: Vec<char> = text.chars().collect();
    let k = s.range(1, 3);
    const NOISE: &[char] = &['<', '>', '/', '&', '"', '\'', '=', ' ', '\n', '\r', '\0', '-', '!', ';', 'a', ']'];
    for _ in 0..k {
        if cs.is_empty() {
            cs.push(s.char_from(NOISE));
            continue;
        }
        let i = s.below(cs.len());
        match s.below(4) {
            3 => {
                // flip the case of the next ASCII letter
                if let Some(j) = (i..cs.len()).find(|j| cs[*j].is_ascii_alphabetic()) {
                    cs[j] = if cs[j].is_ascii_uppercase() { cs[j].to_ascii_lowercase() } else { cs[j].to_ascii_uppercase() };
                }
            },
            0 => cs.insert(i, s.char_from(NOISE)),
            1 => {
                cs.remove(i);
            },
            _ => cs[i] = s.char_from(NOISE),
        }
    }
    cs.into_iter().collect()
}

// ---------------------------------------------------------------------------
// Tree-level grammar

pub const HEAD_FAMILY: &[&str] = &["html", "head", "body", "title", "base", "link", "meta", "style", "script", "noscript", "template", "basefont", "bgsound"];
pub const BLOCK: &[&str] = &[
    "address", "article", "aside", "blockquote", "center", "details", "dialog", "dir", "div", "dl", "fieldset", "figcaption",
    "figure", "footer", "header", "hgroup", "main", "menu", "nav", "ol", "p", "search", "section", "summary", "ul", "pre",
    "listing", "form", "plaintext", "xmp", "hr",
];
pub const HEADINGS: &[&str] = &["h1", "h2", "h3", "h6"];
pub const LISTS: &[&str] = &["li", "dd", "dt"];
pub const FORMATTING: &[&str] = &["a", "b", "big", "code", "em", "font", "i", "nobr", "s", "small", "strike", "strong", "tt", "u"];
pub const SCOPING: &[&str] = &["applet", "marquee", "object", "button"];
pub const TABLE: &[&str] = &["table", "caption", "colgroup", "col", "tbody", "thead", "tfoot", "tr", "td", "th"];
pub const SELECT: &[&str] = &["select", "option", "optgroup", "selectedcontent", "input", "keygen", "textarea"];
pub const RUBY: &[&str] = &["ruby", "rb", "rt", "rtc", "rp"];
pub const VOID: &[&str] = &["area", "br", "embed", "img", "wbr", "param", "source", "track", "input", "image"];
pub const RAW: &[&str] = &["iframe", "noembed", "noframes", "textarea", "title", "style", "script", "xmp"];
pub const FRAMES: &[&str] = &["frameset", "frame", "noframes"];
pub const FOREIGN: &[&str] = &[
    "svg", "math", "foreignObject", "desc", "title", "mi", "mo", "mn", "ms", "mtext", "annotation-xml", "mglyph", "malignmark",
    "path", "g", "circle", "clipPath", "altGlyph", "feBlend", "linearGradient", "textPath", "mrow", "semantics",
];
pub const MISC: &[&str] = &[
    "span", "isindex", "x-custom", "unknown", "label", "output", "nextid", "spacer", "math", "svg", "sub", "var", "acronym", "bdo",
    "blink", "multicol", "noindex", "picture", "slot", "canvas", "audio", "video", "menuitem", "meter", "progress", "datalist",
    "legend", "abbr", "cite", "q", "time", "mark", "kbd", "samp", "ins", "del", "map", "sup", "big", "strike", "center", "keygen",
    "command", "content", "shadow", "element", "rb", "rtc", "wbr", "data", "bdi", "dfn", "address", "hgroup", "main", "search",
];

pub const FAMILIES: &[&[&str]] = &[
    HEAD_FAMILY, BLOCK, HEADINGS, LISTS, FORMATTING, SCOPING, TABLE, SELECT, RUBY, VOID, RAW, FRAMES, FOREIGN, MISC,
];
const FAMILY_WEIGHTS: &[u32] = &[10, 14, 3, 6, 18, 4, 16, 6, 3, 5, 5, 3, 10, 5];

pub fn pick_name(s: &mut Src) -> &'static str {
    let f = s.weighted(FAMILY_WEIGHTS);
    if std::ptr::eq(FAMILIES[f], FOREIGN) && s.chance(90) {
        // any entry of the SVG tag-name adjustment table (lower-case spelling, as it arrives)
        return s.pick(crate::refimpl::treebuilder::SVG_TAGS).0;
    }
    *s.pick(FAMILIES[f])
}

const FOREIGN_ATTRS: &[&str] = &[
    "xlink:actuate", "xlink:arcrole", "xlink:href", "xlink:role", "xlink:show", "xlink:title", "xlink:type", "xml:lang", "xml:space",
    "xmlns", "xmlns:xlink", "definitionurl", "xlink:foo", "xml:base", "xmlns:foo",
];

const ATTRS: &[&str] = &[
    "id=a", "class=c", "type=hidden", "type=text", "TYPE=HIDDEN", "encoding=text/html", "encoding=\"application/xhtml+xml\"",
    "encoding=TEXT/HTML", "encoding=x", "color=red", "face=x", "size=1", "xlink:href=a", "xlink:title=t", "xml:lang=en",
    "xml:space=preserve", "xmlns=\"http://www.w3.org/2000/svg\"", "xmlns:xlink=\"http://www.w3.org/1999/xlink\"", "xmlns:foo=x",
    "definitionurl=u", "definitionURL=v", "viewbox=1", "viewBox=\"0 0 1 1\"", "attributename=x", "shadowrootmode=open",
    "shadowrootmode=closed", "shadowrootmode=x", "selected", "multiple", "charset=utf-8", "http-equiv=content-type",
    "content=\"text/html; charset=x\"", "form=f", "href=#", "name=n", "x", "x=1", "x=2", "a='b'", "a=\"c\"", "disabled",
    // values the algorithm compares as a whole: near misses of each magic value
    "encoding=text/html;charset=utf-8", "encoding=\"text/html \"", "encoding=\" text/html\"", "encoding=text/htmlx", "encoding=text/htm",
    "encoding=\"application/xhtml+xml;q=1\"", "encoding=Text/HTML;", "encoding=application/xhtml", "type=hidden;", "type=\" hidden\"",
    "type=hiddenx", "type=HIDDEN\t", "type=hıdden", "shadowrootmode=opened", "shadowrootmode=OPEN", "shadowrootmode=\"open \"",
    "http-equiv=\"content-type \"", "http-equiv=content-typ", "color", "color=", "face", "size", "selected=no", "multiple=multiple",
    "content=\"İcharset=x\"", "content=\"İİİİ charset=x\"", "content=\"\u{212A}\u{212A}charset=utf-8\"", "content=\"ſ;charset=y\"", "content=\"charset\"",
    "content=\"text/html; charſet=z\"", "content=\"😁charset=q\"", "charset=\"İ\"", "http-equiv=Content-Type", "http-equiv=CONTENT-TYPE",
    "nonce=n", "data-a-very-long-attribute-name-0123456789=\"a long value, more than sixteen bytes\"", "title='another quite long value 0123456789'", "=", "a=&amp;", "b=&ampx", "é=ü", "\0=\0", "xlink:bogus=1", "xml:bogus=1", "xmlns:bogus=1",
];

fn gen_attrs(s: &mut Src, out: &mut String) {
    if s.chance(3) {
        // many attributes (the tag name is already written)
        let mut t = String::new();
        many_attrs_tag(s, &mut t);
        if let Some(i) = t.find(|c: char| c == ' ' || c == '\n' || c == '/') {
            let body = t[i..].trim_end_matches(|c| c == '>' || c == '/');
            out.push_str(body);
        }
        return;
    }
    let n = match s.below(8) {
        0..=3 => 0,
        4 | 5 => 1,
        6 => 2,
        _ => s.range(2, 5),
    };
    for _ in 0..n {
        out.push(*s.pick(&[' ', ' ', ' ', '\n', '\t', '/']));
        match s.below(12) {
            0 => {
                // any entry of the SVG attribute adjustment table
                out.push_str(s.pick(crate::refimpl::treebuilder::SVG_ATTRS).0);
                out.push_str("=v");
            },
            1 => {
                out.push_str(*s.pick(FOREIGN_ATTRS));
                out.push_str("=w");
            },
            _ => out.push_str(*s.pick(ATTRS)),
        }
    }
}

const TEXTS: &[&str] = &[
    "x", "text", " ", "  ", "\n", " \n\t", "a b", "\0", "a\0b", "\r\n", "\r", "\u{FEFF}", "é", "😁", "&amp;", "&lt;", "&nbsp;",
    "&notit;", "&#0;", "&#x10FFFF;", "&", "\n x", "\x0C", "0123456789abcdef0123456789", "]]>", "--", "&not", "&#13;", "\t",
];

const DOCTYPES: &[&str] = &[
    "<!DOCTYPE html>", "<!doctype html>", "<!DOCTYPE>", "<!DOCTYPE html SYSTEM \"about:legacy-compat\">", "<!DOCTYPE foo>",
    "<!DOCTYPE html PUBLIC \"-//W3C//DTD HTML 4.01//EN\" \"http://www.w3.org/TR/html4/strict.dtd\">",
    "<!DOCTYPE html PUBLIC \"-//W3C//DTD HTML 4.01 Transitional//EN\">",
    "<!DOCTYPE html PUBLIC \"-//W3C//DTD HTML 4.01 Transitional//EN\" \"http://www.w3.org/TR/html4/loose.dtd\">",
    "<!DOCTYPE html PUBLIC \"-//W3C//DTD HTML 4.01 Frameset//EN\">",
    "<!DOCTYPE html PUBLIC \"-//W3C//DTD XHTML 1.0 Transitional//EN\" \"x\">",
    "<!DOCTYPE html PUBLIC \"-//W3C//DTD XHTML 1.0 Frameset//EN\">",
    "<!DOCTYPE html PUBLIC \"-//W3C//DTD HTML 3.2 Final//EN\">", "<!DOCTYPE html PUBLIC \"HTML\">",
    "<!DOCTYPE html PUBLIC \"-//W3O//DTD W3 HTML Strict 3.0//EN//\">", "<!DOCTYPE html PUBLIC \"-/W3C/DTD HTML 4.0 Transitional/EN\">",
    "<!DOCTYPE html SYSTEM \"http://www.ibm.com/data/dtd/v11/ibmxhtml1-transitional.dtd\">",
    "<!DOCTYPE html PUBLIC \"-//IETF//DTD HTML//EN//3.0\" \"\">", "<!DOCTYPE HTML PUBLIC '' ''>", "<!DOCTYPE html x>",
    "<!DOCTYPE html PUBLIC \"+//Silmaril//dtd html Pro v0r11 19970101//EN\">",
    "<!DOCTYPE html PUBLIC \"-//W3C//DTD HTML 4.01 FRAMESET//en\" \"s\">", "<!DOCTYPE", "<!DOCTYPE html PUBLIC \"-//W3C//DTD XHTML 1.1//EN\">",
];

const COMMENTS: &[&str] = &["<!---->", "<!--x-->", "<!-- -- -->", "<!-->", "<!--->", "<!--a--!>", "<!--<!--x-->", "<!x>", "<?pi?>", "</ >", "<!--\0-->"];

/// A DOCTYPE from the dictionary, sometimes with a multi-byte / case-mapping-sensitive character
/// inserted at a random position (identifiers are compared ASCII-case-insensitively, by prefix,
/// at many different lengths).
pub fn gen_doctype(s: &mut Src) -> String {
    let d = s.pick(DOCTYPES).to_string();
    if !s.chance(70) {
        return d;
    }
    let cs: Vec<char> = d.chars().collect();
    let at = s.below(cs.len() + 1);
    let c = *s.pick(&['é', 'İ', '\u{212A}', '😁', 'ſ', 'É', '\u{80}', '\u{7ff}', '\u{800}']);
    let mut out: String = cs[..at].iter().collect();
    out.push(c);
    if s.chance(60) {
        out.push(c);
    }
    out.extend(cs[at..].iter());
    out
}

/// A customizable-select block as the standard describes it: select, optional button,
/// selectedcontent with arbitrary (possibly unclosed) content, then options, some selected.
fn gen_select_block(s: &mut Src, out: &mut String) {
    const INNER: &[&str] = &[
        "x", "y ", "<b>", "</b>", "<i>z</i>", "<table>", "<div>", "<p>", "<span>q</span>", "<svg><circle/></svg>", "<!--c-->", "<template>t</template>",
        "<math><annotation-xml encoding=text/html><p>z</p></annotation-xml></math>", "<math><annotation-xml encoding=x>", "<svg><foreignObject><i>",
        "<a>", " ", "<td>", "<tr>", "</div>", "<img>", "<selectedcontent>", "<option>", "<hr>", "<input>",
    ];
    out.push_str(*s.pick(&["<select>", "<select>", "<select multiple>", "<SELECT>", "<div><select>", "<b><select>", "<table><td><select>"]));
    let button = s.chance(100);
    if button {
        out.push_str("<button>");
    }
    if s.chance(230) {
        out.push_str("<selectedcontent>");
        for _ in 0..s.below(4) {
            out.push_str(*s.pick(INNER));
        }
        if s.chance(150) {
            out.push_str("</selectedcontent>");
        }
    }
    if button && s.chance(200) {
        out.push_str("</button>");
    }
    for _ in 0..s.range(1, 3) {
        out.push_str(*s.pick(&["<option selected>", "<option selected>", "<option>", "<option selected=selected value=v>", "<optgroup><option selected>"]));
        for _ in 0..s.below(3) {
            out.push_str(*s.pick(INNER));
        }
        if s.chance(200) {
            out.push_str("</option>");
        }
        for _ in 0..s.below(2) {
            out.push_str(*s.pick(INNER));
        }
    }
    if s.chance(128) {
        out.push_str("</select>");
    }
}

/// One HTML input: 0..max_tokens tokens with well-nested preference and a
/// misnesting rate, then optional character noise.
pub fn gen_html(s: &mut Src, max_tokens: usize) -> String {
    let n = s.len(max_tokens);
    let mut out = String::new();
    let mut open: Vec<&'static str> = vec![];
    let misnest = *s.pick(&[10u8, 40, 100]);
    // optional prologue
    if s.chance(50) {
        out.push_str(&gen_doctype(s));
    }
    for _ in 0..n {
        match s.weighted(&[40, 22, 16, 4, 2, 2, 3, 3, 1, 1, 1, 1]) {
            8 => gen_select_block(s, &mut out),
            11 => {
                // the Noah's Ark clause: three to six formatting start tags with the same name whose
                // attribute lists are the same set written differently (order, case, a repeated
                // attribute) or differ in one value, then something that reconstructs them
                let f = *s.pick(FORMATTING);
                let pool: &[&str] = &["x", "class=c", "id=a", "title='t u'", "y=1"];
                let k = s.below(4);
                let set: Vec<&str> = (0..k).map(|i| pool[(i + s.below(2)) % pool.len()]).collect();
                out.push_str(*s.pick(&["", "<div>", "<p>", "<table><td>"]));
                for _ in 0..s.range(3, 6) {
                    let mut a: Vec<String> = set.iter().map(|x| x.to_string()).collect();
                    if a.len() > 1 && s.bool() {
                        let i = s.below(a.len());
                        let j = s.below(a.len());
                        a.swap(i, j);
                    }
                    if !a.is_empty() && s.chance(60) {
                        let d = a[s.below(a.len())].clone();
                        a.push(d); // repeated attribute (dropped by the tokenizer, flag set)
                    }
                    if !a.is_empty() && s.chance(40) {
                        let i = s.below(a.len());
                        a[i] = a[i].to_ascii_uppercase();
                    }
                    if !a.is_empty() && s.chance(30) {
                        let i = s.below(a.len());
                        a[i] = format!("{}z", a[i]); // a different value / name: not the same tag
                    }
                    out.push('<');
                    out.push_str(f);
                    for x in &a {
                        out.push(' ');
                        out.push_str(x);
                    }
                    out.push('>');
                }
                out.push_str(*s.pick(&["</div>y", "<p>z", "</p>w", "</td>v", "x", "<div>u</div>"]));
            },
            10 => {
                // the stack of template insertion modes: templates (nested) with mode-switching
                // start tags inside, closed or not, then table-structure / body content
                out.push_str(*s.pick(&["<template>", "<div><template>", "<table><template>", "<head><template>", "<template><div><template>", "<select><template>"]));
                for _ in 0..s.below(5) {
                    out.push_str(*s.pick(&[
                        "<col>", "<tr>", "<td>", "<caption>", "<tbody>", "<colgroup>", "<div>", "x", "<template>", "</template>", "<select>", "<svg>", "<p>",
                        "<frameset>", "<body>", "<html>", "<head>", "<title>t</title>", "<script></script>", "<table>", "</table>", "<th>", "<thead>",
                    ]));
                }
                if s.chance(160) {
                    out.push_str("</template>");
                }
                out.push_str(*s.pick(&["<td>x", "<tr>", "x", "<col>", "</table>", "<div>y", "</template>", "", "<tbody>", "</div>z"]));
            },
            9 => {
                // the "ignore a line feed that is the next token" rule x every kind of next token
                out.push_str(*s.pick(&["<pre>", "<listing>", "<textarea>", "<PRE x=y>", "<div><pre>", "<table><pre>"]));
                out.push_str(*s.pick(&[
                    "", "<!--c-->", "<!DOCTYPE html>", "<!doctype>", "\0", "&#10;", "&#13;", "\r", "<b>", "</b>", "</x>", " ", "<![CDATA[x]]>",
                    "<!-->", "</>", "<?pi?>", "&amp;",
                ]));
                out.push_str(*s.pick(&["\n", "\nx", "\n\n", "\r\n", "\n</pre>", "x\n"]));
            },
            0 => {
                // start tag
                let name = if s.chance(40) && !open.is_empty() {
                    // repeat an open name (nested a, nobr, table, p, li ...)
                    open[s.below(open.len())]
                } else {
                    pick_name(s)
                };
                out.push('<');
                if s.chance(20) {
                    out.push_str(&name.to_ascii_uppercase());
                } else {
                    out.push_str(name);
                }
                gen_attrs(s, &mut out);
                if s.chance(20) {
                    out.push('/');
                }
                out.push('>');
                if !VOID.contains(&name) {
                    open.push(name);
                }
                if RAW.contains(&name) && s.chance(200) {
                    // raw text body and (usually) its end tag
                    out.push_str(*s.pick(&["", "x", "<b>", "&amp;", "<!--", "</x>", "\n", "\0"]));
                    if s.chance(220) {
                        out.push_str(&format!("</{name}>"));
                        open.pop();
                    }
                }
            },
            1 => {
                // end tag
                let name = if !open.is_empty() && !s.chance(misnest) {
                    open.pop().unwrap()
                } else if !open.is_empty() && s.bool() {
                    let i = s.below(open.len());
                    open.remove(i)
                } else {
                    pick_name(s)
                };
                out.push_str("</");
                out.push_str(name);
                if s.chance(10) {
                    out.push_str(" x=y");
                }
                out.push('>');
            },
            2 => out.push_str(*s.pick(TEXTS)),
            3 => out.push_str(*s.pick(COMMENTS)),
            4 => out.push_str(&gen_doctype(s)),
            5 => {
                out.push_str("<![CDATA[");
                out.push_str(*s.pick(&["", "x", "]]", "<b>", "\0", "&amp;"]));
                if s.chance(220) {
                    out.push_str("]]>");
                }
            },
            6 => {
                // structure shortcuts that reach deep rules quickly
                out.push_str(*s.pick(&[
                    "<table><tr><td>", "<table><caption>", "<table><colgroup><col>", "<select><option>", "<svg><foreignObject>",
                    "<math><mi>", "<math><annotation-xml encoding=text/html>", "<template><tr>", "<frameset><frame>", "<ul><li>",
                    "<b><i><p>", "<a><table><a>", "<p><b><div></b>", "<button><p><button>", "<ruby><rb><rt>", "<dl><dt><dd>",
                    "<form><input type=hidden><form>", "</body>", "</html>", "</head>", "<head>", "<body>", "<html lang=x>",
                    "<body class=y>", "</p>", "</br>", "<nobr><nobr>", "<table><td><table><td>", "<svg><b>", "<math><font color>",
                    "<svg><desc><b>", "<svg><title><p>", "<table><form><input>", "<table>x<b>y", "<select><select>",
                    "<select><input>", "<select><hr>", "<option><optgroup>", "<b><b><b><b>", "<a href=1><a href=2>",
                    "<template><template>", "</template>", "<table><template>", "<noscript><p>", "<head><noscript><style>",
                    "<frameset></frameset>", "</frameset>", "<noframes>x</noframes>", "<textarea>\n", "<pre>\n", "<listing>\n",
                    "<li><li>", "<h1><h2>", "<hgroup><h1>", "<dialog><p>", "<search><p>", "<summary><details>", "<image>",
                    "<isindex>", "<svg><image>", "<math><mglyph>", "<svg><script>", "<svg><style>", "<svg><svg/>", "<p><table>",
                    "<applet><p></applet>", "<marquee><b></marquee>", "<object><i></object>", "<selectedcontent>",
                    "<a><b><i><u><s><em><div>x</a>y", "<b><div><div><div><div><div><div><div><div><div><div>x</b>y",
                    "<b class=x><b class=x><b class=x><b class=x><p>z", "<font><font><font><font><p>", "<b><i><u><s><em><strong><tt><big><small><p>x</b>",
                    "<a><a><a><a><a>", "<nobr><b><nobr><i><nobr>", "<table><a><b><i><u><td>x</a>", "<b><b><b><b><b><b><b><b><b><b><div>q</b></b></b></b>",
                    "<option selected>", "</select>", "</head><script>", "</head><title>", "</head><meta charset=x>", "</head><style>",
                    // foreign elements that carry names the HTML rules give a meaning, with HTML content below them
                    "<svg><tr><desc>", "<svg><td><foreignObject>", "<math><template><mi>", "<svg><template><title>",
                    "<math><tbody><annotation-xml encoding=text/html>", "<svg><select><desc>", "<svg><caption><foreignObject>",
                    "<math><table><mtext>", "<svg><html><desc>", "<svg><body><foreignObject>", "<math><li><mi>", "<svg><p><title>",
                    "<svg><button><desc>", "<math><form><mo>", "<svg><a><foreignObject>", "<svg><frameset><desc>", "<svg><head><title>",
                    // the customizable-select structure of the standard
                    "<select><button><selectedcontent>", "<select><selectedcontent>", "<selectedcontent>x", "</selectedcontent>",
                    "<option selected>y</option>", "<option selected><b>z</b></option>", "<option selected>", "</button>",
                    "<select multiple><selectedcontent>", "<option>n</option>",
                    "<template shadowrootmode=open>", "<head><template shadowrootmode=closed>", "<div><template shadowrootmode=open>s</template>",
                    "<template shadowrootmode=open><template shadowrootmode=open>", "</head>", "<body>",
                    "<table></table>", "<template></template>", "<table><tr></table>", "<td>", "<tr>", "<tbody>", "<caption>", "<col>",
                    "<head></head><link>", "</head><template>", "</head><noframes>", "</head><base>", "</option>", "</table>", "</td>", "</tr>", "</caption>", "</tbody>",
                ]));
            },
            _ => {
                if s.chance(24) {
                    // thresholds: many repetitions of one tag (8-40)
                    let name = pick_name(s);
                    let k = s.range(8, 40);
                    let close = s.bool();
                    for _ in 0..k {
                        out.push_str(&format!("<{name}>"));
                    }
                    if close {
                        let k2 = s.range(1, k);
                        for _ in 0..k2 {
                            out.push_str(&format!("</{name}>"));
                        }
                    }
                } else {
                    // whitespace-only text (matters in table / head / frameset modes)
                    out.push_str(*s.pick(&[" ", "\n", "\t", " \n ", "\x0C", "\r\n", " ", "\n", "\u{b}", "\u{a0}", "\u{85}", "\u{2028}", "\u{1c}", "\u{3000}"]));
                }
            },
        }
    }
    noise(s, out)
}
