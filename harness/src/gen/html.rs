//! HTML text generators.
use crate::engine::Src;

pub const TOK_FRAGMENTS: &[&str] = &[
    "<", ">", "/", "!", "-", "--", "?", "=", "\"", "'", "&", "#", ";", "]", "[", "]]>", "<![CDATA[", "<!--", "-->", "--!>",
    "<!DOCTYPE", "<!doctype html>", " PUBLIC ", " SYSTEM ", "\"-//W3C//DTD HTML 4.01//EN\"", "'about:legacy-compat'",
    "<a", "<a ", "</a>", "<b>", "</b>", "<title>", "</title>", "<textarea>", "</textarea>", "<style>", "</style>",
    "<script>", "</script>", "</script ", "<!--<script>", "<xmp>", "</xmp>", "<plaintext>", "<svg>", "</svg>", "<math>",
    "</math>", "<iframe>", "</iframe>", "<noembed>", "<noframes>", "</noframes>", "<p", "<div", "<br/>", " x", " x=y",
    " x='y'", " x=\"y\"", " X=1", " x", "/>", "&amp;", "&amp", "&lt", "&not", "&notin;", "&noti", "&#", "&#x", "&#65;",
    "&#x41", "&#0;", "&#128;", "&#xD800;", "&#1114112;", "&AElig", "&Aacute=", "&copy1", "\t", "\n", "\r", "\r\n",
    "\x0C", " ", "\0", "a", "A", "z", "é", "\u{FEFF}", "😁", "x", "scr", "ipt", "TITLE", "`", "<?", "<?xml ?>", "</ >", "</",
    "<!x>", "<!-", "<!->", "<!--->", "<!---->", "<!-- <!-- -->", "--!", "<![", "<![cdata[", "]]", "PUBLIC", "system",
];

/// Token soup: fragments that exercise every tokenizer state, glued together,
/// followed by character-level noise.
pub fn tok_soup(s: &mut Src, max_frags: usize) -> String {
    let n = s.len(max_frags);
    let mut out = String::new();
    for _ in 0..n {
        if s.chance(200) {
            out.push_str(*s.pick(TOK_FRAGMENTS));
        } else {
            out.push(s.any_char());
        }
    }
    noise(s, out)
}

/// character-level insert / delete / replace
pub fn noise(s: &mut Src, text: String) -> String {
    if !s.chance(80) {
        return text;
    }
    let mut cs: Vec<char> = text.chars().collect();
    let k = s.range(1, 3);
    const NOISE: &[char] = &['<', '>', '/', '&', '"', '\'', '=', ' ', '\n', '\r', '\0', '-', '!', ';', 'a', ']'];
    for _ in 0..k {
        if cs.is_empty() {
            cs.push(s.char_from(NOISE));
            continue;
        }
        let i = s.below(cs.len());
        match s.below(3) {
            0 => cs.insert(i, s.char_from(NOISE)),
            1 => {
                cs.remove(i);
            },
            _ => cs[i] = s.char_from(NOISE),
        }
    }
    cs.into_iter().collect()
}
