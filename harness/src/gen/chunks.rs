//! Chunk schedules.
use crate::engine::Src;

/// Split `items` after every position i (0-based, i < len-1) whose bit is set in `mask`.
pub fn split_mask<T: Clone>(items: &[T], mask: u64) -> Vec<Vec<T>> {
    let mut out = vec![];
    let mut cur = vec![];
    for (i, it) in items.iter().enumerate() {
        cur.push(it.clone());
        if i + 1 < items.len() && i < 64 && (mask >> i) & 1 == 1 {
            out.push(std::mem::take(&mut cur));
        }
    }
    out.push(cur);
    out
}

/// Sorted multiset of cut positions in 0..=len (a repeated position gives an
/// empty chunk).  Styles: none, few, many, every element.
pub fn gen_cuts(s: &mut Src, len: usize) -> Vec<usize> {
    let mut cuts = vec![];
    match s.below(8) {
        0 => {},
        1 => {
            // one element per chunk
            cuts.extend(1..len);
        },
        2 | 3 => {
            let n = s.range(1, 3);
            for _ in 0..n {
                cuts.push(s.below(len + 1));
            }
        },
        _ => {
            let n = s.len(len.min(24) + 2);
            for _ in 0..n {
                cuts.push(s.below(len + 1));
            }
        },
    }
    cuts.sort();
    cuts
}

/// Apply cuts (element indices) to a slice.
pub fn apply_cuts<T: Clone>(items: &[T], cuts: &[usize]) -> Vec<Vec<T>> {
    let mut out = vec![];
    let mut prev = 0;
    for &c in cuts {
        let c = c.min(items.len()).max(prev);
        out.push(items[prev..c].to_vec());
        prev = c;
    }
    out.push(items[prev..].to_vec());
    out
}

/// Apply cuts given in characters to a string.
pub fn chunk_str(s: &str, cuts: &[usize]) -> Vec<String> {
    let cs: Vec<char> = s.chars().collect();
    apply_cuts(&cs, cuts)
        .into_iter()
        .map(|v| v.into_iter().collect())
        .collect()
}
