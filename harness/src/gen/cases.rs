//! Tree-level cases: configuration x input x chunk schedule.
use crate::engine::Src;
use crate::gen::{chunks, html};
use crate::sinks::drive::{CtxElem, TreeCfg};
use serde::{Deserialize, Serialize};

#[derive(Serialize, Deserialize, Clone, Debug, Hash, PartialEq, Eq)]
pub struct TreeCase {
    pub cfg: TreeCfg,
    pub input: String,
    pub chunks: Vec<String>,
}

pub const HTML_CONTEXTS: &[&str] = &[
    "div", "p", "title", "textarea", "style", "xmp", "iframe", "noembed", "noframes", "script", "noscript", "plaintext", "html",
    "head", "body", "frameset", "table", "caption", "colgroup", "tbody", "thead", "tfoot", "tr", "td", "th", "select",
    "template", "form", "button", "li", "a", "option", "optgroup", "object", "ul",
];

pub fn all_contexts() -> Vec<CtxElem> {
    let mut v: Vec<CtxElem> = HTML_CONTEXTS
        .iter()
        .map(|n| CtxElem { ns: "html".into(), local: n.to_string(), attrs: vec![] })
        .collect();
    for n in ["svg", "foreignObject", "title", "desc", "path", "script", "style"] {
        v.push(CtxElem { ns: "svg".into(), local: n.into(), attrs: vec![] });
    }
    for n in ["math", "mi", "mo", "mtext", "annotation-xml", "mrow"] {
        v.push(CtxElem { ns: "math".into(), local: n.into(), attrs: vec![] });
    }
    // names that mean something to the fragment algorithm in one namespace, used in another
    for n in [
        "form", "template", "select", "table", "tr", "td", "title", "textarea", "script", "style", "html", "body", "head", "frameset",
        "plaintext", "noscript", "caption", "colgroup", "tbody", "option", "p", "foreignObject", "annotation-xml", "mi",
    ] {
        v.push(CtxElem { ns: "svg".into(), local: n.into(), attrs: vec![] });
        v.push(CtxElem { ns: "math".into(), local: n.into(), attrs: vec![] });
    }
    for n in ["svg", "math", "foreignObject", "foreignobject", "desc", "mi", "annotation-xml", "mglyph", "x-custom", "search", "selectedcontent"] {
        v.push(CtxElem { ns: "html".into(), local: n.into(), attrs: vec![] });
    }
    for e in ["text/html;charset=utf-8", "Text/HTML;", "text/htmlx", " text/html", "application/xhtml+xml;q=1", "TEXT/HTML", ""] {
        v.push(CtxElem { ns: "math".into(), local: "annotation-xml".into(), attrs: vec![("encoding".into(), e.into())] });
        v.push(CtxElem { ns: "svg".into(), local: "annotation-xml".into(), attrs: vec![("encoding".into(), e.into())] });
    }
    v.push(CtxElem {
        ns: "math".into(),
        local: "annotation-xml".into(),
        attrs: vec![("encoding".into(), "text/html".into())],
    });
    v.push(CtxElem {
        ns: "math".into(),
        local: "annotation-xml".into(),
        attrs: vec![("encoding".into(), "Application/XHTML+XML".into())],
    });
    v
}

pub fn gen_cfg(s: &mut Src, allow_fragment: bool) -> TreeCfg {
    let mut cfg = TreeCfg::default();
    if allow_fragment && s.chance(100) {
        let ctxs = all_contexts();
        cfg.ctx = Some(ctxs[s.below(ctxs.len())].clone());
        cfg.form_ptr = s.chance(50);
    }
    cfg.scripting = !s.chance(90);
    cfg.srcdoc = s.chance(30);
    cfg.quirks0 = if s.chance(40) { s.below(3) as u8 } else { 0 };
    cfg.dsd_allow = s.chance(60);
    cfg.dsd_succeed = cfg.dsd_allow && s.chance(110);
    cfg
}

pub fn gen_tree_case(s: &mut Src, allow_fragment: bool, max_tokens: usize) -> TreeCase {
    let cfg = gen_cfg(s, allow_fragment);
    let mut input = html::gen_html(s, max_tokens);
    if s.chance(30) {
        // end of input at an arbitrary point
        let keep = s.below(input.chars().count() + 1);
        input = input.chars().take(keep).collect();
    }
    let n = input.chars().count();
    let cuts = chunks::gen_cuts(s, n);
    let chunks = chunks::chunk_str(&input, &cuts);
    TreeCase { cfg, input, chunks }
}
