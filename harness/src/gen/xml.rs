//! XML generator: an AST of namespaced elements rendered to text, with a side
//! table describing every source tag (for the C16 oracle).
use crate::engine::Src;
use serde::{Deserialize, Serialize};

pub const XML_NS: &str = "http://www.w3.org/XML/1998/namespace";
pub const XMLNS_NS: &str = "http://www.w3.org/2000/xmlns/";

#[derive(Serialize, Deserialize, Clone, Debug, Hash, PartialEq, Eq)]
pub struct SrcAttr {
    pub prefix: Option<String>,
    pub local: String,
    pub value: String,
}

#[derive(Serialize, Deserialize, Clone, Debug, Hash, PartialEq, Eq)]
pub struct TagInfo {
    pub id: usize,
    pub prefix: Option<String>,
    pub local: String,
    /// all attributes in source order, including xmlns declarations and _id
    pub attrs: Vec<SrcAttr>,
    /// "start" | "empty"
    pub kind: String,
}

#[derive(Serialize, Deserialize, Clone, Debug, Hash, PartialEq, Eq)]
pub struct XmlDoc {
    pub text: String,
    pub tags: Vec<TagInfo>,
}

const PREFIXES: &[&str] = &[
    "a", "b", "a", "b", "p", "a", "xml", "xmlns", "a", "b", "p", "a", "b", "xml", "xmlns", "XML", "Xml", "XMLNS", "xmlnS", "c",
    "long-prefix.name_1", "é",
];
const LOCALS: &[&str] = &[
    "x", "y", "z", "script", "xmlns", "e", "template", "x", "y", "z", "e", "lang", "space", "XMLNS", "Xmlns", "é",
    "a-rather-long-local-name.with_punctuation-0123456789",
];
/// literal URI values (no references to decode): the reserved ones, near misses of them
/// (suffix, missing slash, other case), and ordinary ones
const URIS: &[&str] = &[
    "u1", "u2", "", XML_NS, XMLNS_NS, "u1", "http://www.w3.org/1999/xhtml", "u1", "u2", "", XML_NS, XMLNS_NS, "u", "v",
    "http://www.w3.org/2000/xmlns/ext", "http://www.w3.org/2000/xmlns", "HTTP://WWW.W3.ORG/2000/XMLNS/",
    "http://www.w3.org/XML/1998/namespace/2", "http://www.w3.org/XML/1998/namespac", "http://www.w3.org/2000/svg", "u 1", "ü",
    "urn:a-long-namespace-name:0123456789:abcdefghijklmnopqrstuvwxyz:0123456789:abcdefghijklmnopqrstuvwxyz",
    // namespace names with characters that need escaping in an attribute value (written with
    // the five predefined references; `uri_value` decodes them)
    "a&amp;b", "q&quot;q", "l&lt;t", "g&gt;t", "&apos;s", "&amp;amp;",
];

/// The namespace name a URI pool entry denotes (the pool uses only the five predefined references).
pub fn uri_value(v: &str) -> String {
    v.replace("&quot;", "\"").replace("&lt;", "<").replace("&gt;", ">").replace("&apos;", "'").replace("&amp;", "&")
}
const VALUES: &[&str] = &[
    "", "v", "1", "a b", "&amp;", "&lt;", "&#13;", "&#9;", "'", "&quot;", "é", ">", "\t", "\n", "\u{85}", "\u{2028}", "\u{80}",
    "\u{9f}", "\u{7f}", "\u{1}", "\u{a0}", "&#133;", "&#x80;", "\u{fffe}", "😁", "]]>", "--",
];
const TEXTS: &[&str] = &[
    "t", " ", "\n", "x y", "&amp;", "&lt;", "&gt;", "&#65;", "&#x41;", "é", "&apos;", "&quot;", "]]>", "\r\n", "\r", "\0",
    "\u{FEFF}", "&", "&am", "&unknown;", "&#", "'", "\"", ">", "&amp\r", "&am\r\n", "&#13;", "\u{85}", "\u{2028}", "\u{2029}",
    "\u{80}", "\u{9f}", "\u{7f}", "\u{1}", "\u{b}", "\u{c}", "\u{a0}", "&#133;", "&#x9F;", "\u{fffe}", "\u{ffff}", "😁", "--", "?>",
];

fn qname(prefix: &Option<String>, local: &str) -> String {
    match prefix {
        Some(p) => format!("{p}:{local}"),
        None => local.to_string(),
    }
}

fn esc_attr(v: &str) -> String {
    // values are taken from pools that are already valid attribute-value text
    v.replace('"', "&quot;")
}

pub struct Gen<'a, 'b> {
    pub s: &'a mut Src<'b>,
    pub out: String,
    pub tags: Vec<TagInfo>,
    pub budget: usize,
    pub mismatch_rate: u8,
}

impl<'a, 'b> Gen<'a, 'b> {
    /// 1-8 letters over {a, b, c} or {c, o, u, n, t, s, d}
    fn word(&mut self) -> String {
        let alpha: &[char] = if self.s.bool() { &['a', 'b', 'c'] } else { &['c', 'o', 'u', 'n', 't', 's', 'd'] };
        let n = 1 + self.s.below(8);
        (0..n).map(|_| self.s.char_from(alpha)).collect()
    }

    fn gen_prefix(&mut self) -> Option<String> {
        if self.s.chance(110) {
            Some(self.s.pick(PREFIXES).to_string())
        } else {
            None
        }
    }

    fn gen_tag_attrs(&mut self, id: usize) -> Vec<SrcAttr> {
        let mut attrs = vec![];
        // rarely a tag with many attributes (thresholds of sorting / hashing / small-vector code)
        let many = self.s.chance(5);
        let n = if many { 17 + self.s.below(24) } else { self.s.len(5) };
        for _ in 0..n {
            if many && self.s.chance(190) {
                // mostly distinct qualified names; aliased prefixes make expanded-name duplicates
                let prefix = if self.s.chance(200) { Some(self.s.pick(&["a", "b", "p", "c"]).to_string()) } else { None };
                let local = if self.s.chance(128) { format!("f{}", self.s.below(14)) } else { self.word() };
                attrs.push(SrcAttr { prefix, local, value: self.s.pick(VALUES).to_string() });
                continue;
            }
            if self.s.chance(24) {
                // a word over a tiny alphabet: many different names that are permutations / near
                // copies of each other (anything that hashes, folds or abbreviates names)
                let prefix = self.gen_prefix();
                let local = self.word();
                // (a declaration-shaped name gets a literal URI value, see below)
                let decl_shaped = prefix.as_deref() == Some("xmlns");
                let value = if decl_shaped { self.s.pick(URIS).to_string() } else { self.s.pick(VALUES).to_string() };
                attrs.push(SrcAttr { prefix, local, value });
                continue;
            }
            if self.s.chance(16) && !attrs.is_empty() {
                // the spelling of an earlier qualified name with the colon replaced: an
                // unprefixed name that merely looks like prefix:local
                let k = self.s.below(attrs.len());
                if let Some(p) = attrs[k].prefix.clone() {
                    let sep = *self.s.pick(&["-", "_", ".", "", "::"]);
                    let local = format!("{p}{sep}{}", attrs[k].local);
                    if !local.contains(':') {
                        attrs.push(SrcAttr { prefix: None, local, value: self.s.pick(VALUES).to_string() });
                        continue;
                    }
                }
            }
            match self.s.below(10) {
                0 | 1 => {
                    // default namespace declaration
                    attrs.push(SrcAttr { prefix: None, local: "xmlns".into(), value: self.s.pick(URIS).to_string() });
                },
                2..=4 => {
                    // prefix declaration
                    attrs.push(SrcAttr {
                        prefix: Some("xmlns".into()),
                        local: self.s.pick(PREFIXES).to_string(),
                        value: self.s.pick(URIS).to_string(),
                    });
                },
                _ => {
                    let prefix = self.gen_prefix();
                    let local = self.s.pick(LOCALS).to_string();
                    // a declaration-shaped name gets a URI value (no references to decode)
                    let decl_shaped = prefix.as_deref() == Some("xmlns") || (prefix.is_none() && local == "xmlns");
                    let value = if decl_shaped { self.s.pick(URIS).to_string() } else { self.s.pick(VALUES).to_string() };
                    attrs.push(SrcAttr { prefix, local, value });
                },
            }
        }
        if id == 0 && self.s.chance(200) {
            // the root usually binds the common prefixes so that most uses are bound
            for p in ["a", "b", "p"] {
                if self.s.chance(200) {
                    let at = self.s.below(attrs.len() + 1);
                    attrs.insert(at, SrcAttr { prefix: Some("xmlns".into()), local: p.into(), value: self.s.pick(&["u1", "u2"]).to_string() });
                }
            }
        }
        let at = self.s.below(attrs.len() + 1);
        attrs.insert(at, SrcAttr { prefix: None, local: "_id".into(), value: id.to_string() });
        attrs
    }

    fn element(&mut self, depth: usize) {
        if self.budget == 0 {
            return;
        }
        self.budget -= 1;
        let id = self.tags.len();
        let prefix = self.gen_prefix();
        let local = self.s.pick(LOCALS).to_string();
        let attrs = self.gen_tag_attrs(id);
        let empty = self.s.chance(50);
        self.out.push('<');
        self.out.push_str(&qname(&prefix, &local));
        for a in &attrs {
            self.out.push(*self.s.pick(&[' ', ' ', '\n']));
            self.out.push_str(&qname(&a.prefix, &a.local));
            let q = if a.value.contains('"') || self.s.chance(40) { '\'' } else { '"' };
            self.out.push('=');
            self.out.push(q);
            if q == '\'' {
                self.out.push_str(&a.value.replace('\'', "&apos;"));
            } else {
                self.out.push_str(&esc_attr(&a.value));
            }
            self.out.push(q);
        }
        self.tags.push(TagInfo {
            id,
            prefix: prefix.clone(),
            local: local.clone(),
            attrs,
            kind: if empty { "empty".into() } else { "start".into() },
        });
        if empty {
            self.out.push_str("/>");
            return;
        }
        self.out.push('>');
        let kids = if depth > 6 { 0 } else { 1 + self.s.len(4) };
        for _ in 0..kids {
            self.node(depth + 1);
        }
        // end tag
        if self.s.chance(self.mismatch_rate) {
            match self.s.below(4) {
                0 => {}, // missing
                1 => self.out.push_str("</>"), // short
                2 => {
                    let p = self.gen_prefix();
                    let l = self.s.pick(LOCALS).to_string();
                    self.out.push_str(&format!("</{}>", qname(&p, &l)));
                },
                _ => {
                    // right local, other prefix
                    let p = self.gen_prefix();
                    self.out.push_str(&format!("</{}>", qname(&p, &local)));
                },
            }
        } else {
            self.out.push_str(&format!("</{}>", qname(&prefix, &local)));
        }
    }

    fn node(&mut self, depth: usize) {
        match self.s.weighted(&[50, 25, 6, 5, 5, 3]) {
            0 => self.element(depth),
            1 => {
                let t = *self.s.pick(TEXTS);
                self.out.push_str(t);
            },
            2 => {
                let c = *self.s.pick(&["<!--c-->", "<!---->", "<!-- - -->", "<!--a--b-->", "<!-->", "<!--x--->"]);
                self.out.push_str(c);
            },
            3 => {
                let c = *self.s.pick(&["<?pi d?>", "<?pi?>", "<?p a?b?>", "<?xml version='1.0'?>", "<?p  x ?>"]);
                self.out.push_str(c);
            },
            4 => {
                let c = *self.s.pick(&["<![CDATA[x]]>", "<![CDATA[]]>", "<![CDATA[<a>&amp;]]>", "<![CDATA[]]]]>"]);
                self.out.push_str(c);
            },
            _ => {
                let c = *self.s.pick(&["<!DOCTYPE x>", "<!DOCTYPE x PUBLIC 'p' 's'>", "<!DOCTYPE>", "<!DOCTYPE x SYSTEM \"s\">"]);
                self.out.push_str(c);
            },
        }
    }
}

pub fn gen_xml(s: &mut Src, max_elems: usize) -> XmlDoc {
    let mismatch_rate = *s.pick(&[0u8, 0, 20, 80]);
    let budget = 1 + s.len(max_elems);
    let mut g = Gen { s, out: String::new(), tags: vec![], budget, mismatch_rate };
    // prologue
    if g.s.chance(40) {
        g.out.push_str(*g.s.pick(&["<?xml version=\"1.0\"?>", "<!DOCTYPE x>", "<!--c-->", " ", "\u{FEFF}", "\n"]));
    }
    let tops = 1 + g.s.below(2);
    for _ in 0..tops {
        g.element(0);
        if g.s.chance(40) {
            g.node(0);
        }
    }
    let text = std::mem::take(&mut g.out);
    let tags = std::mem::take(&mut g.tags);
    XmlDoc { text, tags }
}

/// XML text with character noise (for robustness / metamorphic checks that do
/// not need the side table).
pub fn gen_xml_noisy(s: &mut Src, max_elems: usize) -> String {
    if s.chance(80) {
        return xml_soup(s, 4 * max_elems);
    }
    let d = gen_xml(s, max_elems);
    crate::gen::html::noise(s, d.text)
}

/// Pieces of XML syntax, one per tokenizer state / transition of the XML5 draft: every kind of
/// tag, attribute (double, single, un-quoted, valueless), white space, reference, comment, PI,
/// CDATA and DOCTYPE piece, complete and cut short.
pub const XML_FRAGMENTS: &[&str] = &[
    "<", ">", "</", "/>", "<a", "<b:c", "</a>", "</b:c>", "</>", "<a>", "<a/>", "<script>", "</script>", "<script/>", "<a ", "<a\t", "<a\n",
    "<a\x0C", "<a\r", " b", " b=", " b=c", " b=c\x0Cd=e", " b=c\td=e", " b=c/", " b=c>", " b=\"", " b='", " b=\"c\"", " b='c'", " b=\"c\"d=e",
    " b = c", " b=&amp;", " b=\"&lt;\"", " b=c&#65;", " =", " \"", " '", " b:c=d", " xmlns=u", " xmlns:b=u", " xml:lang=en", "\"", "'", "=",
    "/", " ", "\t", "\n", "\x0C", "\r", "\r\n", "\0", "\u{FEFF}", "x", "text", "é", "😁", "&", "&amp;", "&amp", "&am", "&lt;", "&gt;", "&quot;",
    "&apos;", "&unknown;", "&#", "&#;", "&#65;", "&#65", "&#x", "&#x41;", "&#X41;", "&#x41", "&#0;", "&#13;", "&#133;", "&#xD800;", "&#x110000;",
    "&#1114112;", "&#x100000041;", "&#4294967361;", "&#4294967297;", "&#99999999999;", "&#x0000000041;", "&a;b", "&;", "&amp\r", "&#x\r",
    "&#1\n3;", "<!--", "-->", "<!---->", "<!--x-->", "<!-- - -- -->", "<!-->", "<!--->", "--", "-", "--!>", "<!", "<!x", "<?", "?>", "<?pi?>",
    "<?pi x?>", "<?pi ?x?>", "<?xml version=\"1.0\"?>", "<??>", "<? ?>", "?", "<![CDATA[", "]]>", "]]", "]", "<![CDATA[x]]>", "<![CDATA[]]]]>",
    "<![cdata[", "<![", "<!DOCTYPE", "<!DOCTYPE a>", "<!doctype a>", "<!DOCTYPE a PUBLIC \"p\" \"s\">", "<!DOCTYPE a SYSTEM 's'>",
    "<!DOCTYPE a PUBLIC 'p'>", "<!DOCTYPE a [", "<!ENTITY e \"v\">", "]>", " PUBLIC", " SYSTEM", "<!DOCTYPE>", "<!DOCTYPE a b>", "<!DOCTYPE a PUBLIC>",
    "<!DOCTYPE a PUBLIC \"p", "<!DOCTYPE a SYSTEM \"s\" x>", "<a b=\"c\"/>", "<a b='c' d=e f>", "<a:b xmlns:a=\"u\">", "<template>", "</template>",
];

/// Token soup for the XML tokenizer: random fragments, long runs around stride / buffer sizes,
/// many repetitions of one fragment.
pub fn xml_soup(s: &mut Src, max_frags: usize) -> String {
    let n = s.len(max_frags);
    let mut out = String::new();
    for _ in 0..n {
        if s.chance(8) {
            let len = *s.pick(&[14usize, 15, 16, 17, 31, 32, 33, 63, 64, 65, 127, 128, 129, 1023, 1024, 1025]);
            let fill = *s.pick(&["a", "b ", "é", "\n", "x\r\n", "&amp;"]);
            while out.len() < len {
                out.push_str(fill);
            }
        } else if s.chance(6) {
            let f = *s.pick(XML_FRAGMENTS);
            for _ in 0..s.range(20, 90) {
                out.push_str(f);
            }
        } else {
            out.push_str(*s.pick(XML_FRAGMENTS));
        }
    }
    out
}
