fn main() {
    hv::cli_main()
}
