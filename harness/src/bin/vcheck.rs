fn main(){}
