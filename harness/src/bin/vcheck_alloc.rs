//! Same CLI as `vcheck`, but with the instrumented allocator installed
//! (needed by property C12; every other check is merely slower here).
#[global_allocator]
static MONITOR: hv::engine::alloc::Monitor = hv::engine::alloc::Monitor;

fn main() {
    hv::cli_main()
}
