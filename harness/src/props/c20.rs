//! C20 — RcDom materialises sink operations faithfully.
//! Tee sink (RcDom || ModelDom) driven (i) by parsing generated HTML/XML and
//! (ii) by direct random *valid* operation sequences.

use crate::engine::*;
use crate::gen::cases::{gen_tree_case, TreeCase};
use crate::gen::{chunks, xml as gxml};
use crate::sinks::canon::{first_diff, rcdom_canon, CanonOpts};
use crate::sinks::drive::{drive, drive_xml, XmlCfg};
use crate::sinks::model::{model_canon, Id, MKind, DOC};
use crate::sinks::tee::{Tee, TeeHandle};
use html5ever::serialize::{AttrRef, Serialize as HSerialize, Serializer, TraversalScope};
use html5ever::tree_builder::{ElementFlags, NodeOrText, TreeSink};
use html5ever::{Attribute, LocalName, Namespace, QualName};
use markup5ever_rcdom::{Handle as RcHandle, NodeData, SerializableHandle};
use serde::{Deserialize, Serialize};
use serde_json::Value;
use std::rc::Rc;
use tendril::StrTendril;

#[derive(Serialize, Deserialize, Clone, Debug, Hash, PartialEq, Eq)]
pub enum Child {
    Node(u16),
    Text(String),
}

#[derive(Serialize, Deserialize, Clone, Debug, Hash, PartialEq, Eq)]
pub enum DOp {
    CreateElement { name: u16, attrs: Vec<(u16, String)> },
    CreateComment(String),
    CreatePi(String, String),
    Append { parent: u16, child: Child },
    AppendBefore { sibling: u16, child: Child },
    AppendBasedOnParent { element: u16, prev: u16, child: Child },
    Doctype(String, String, String),
    AddAttrs { target: u16, attrs: Vec<(u16, String)> },
    Remove { target: u16 },
    Reparent { node: u16, new_parent: u16 },
    TemplateContents { target: u16 },
    CloneOption { option: u16 },
    SameNode { a: u16, b: u16 },
    /// builds select > [div >] selectedcontent("old") , [optgroup >] option[selected?] > (b > "x"), "y" under a parent
    SelectScenario { parent: u16, multiple: bool, nested: bool, selected: bool, optgroup: bool },
}

#[derive(Serialize, Deserialize, Clone, Debug, Hash, PartialEq, Eq)]
pub enum Case {
    Html(TreeCase),
    Xml { chunks: Vec<String> },
    Direct { ops: Vec<DOp> },
}

const ELEMS: &[(&str, &str)] = &[
    ("html", "div"), ("html", "p"), ("html", "b"), ("html", "template"), ("html", "select"), ("html", "option"),
    ("html", "optgroup"), ("html", "selectedcontent"), ("html", "span"), ("html", "table"), ("svg", "svg"),
    ("html", "hr"), ("html", "datalist"), ("math", "annotation-xml"), ("html", "option"), ("html", "selectedcontent"),
];
const ATTR_NAMES: &[(&str, Option<&str>, &str)] = &[
    ("", None, "id"), ("", None, "class"), ("", None, "selected"), ("", None, "multiple"), ("http://www.w3.org/1999/xlink", Some("xlink"), "href"),
    ("", None, "x"), ("", None, "selected"), ("http://www.w3.org/XML/1998/namespace", Some("xml"), "lang"),
    // the same expanded names under other prefixes / no prefix, and a local name in two namespaces
    ("http://www.w3.org/1999/xlink", Some("xl"), "href"), ("", None, "href"),
    ("http://www.w3.org/XML/1998/namespace", Some("x"), "lang"), ("", None, "lang"), ("", Some("p"), "id"),
];

fn mk_attrs(spec: &[(u16, String)]) -> Vec<Attribute> {
    let mut out: Vec<Attribute> = vec![];
    for (i, v) in spec {
        let (ns, prefix, local) = ATTR_NAMES[*i as usize % ATTR_NAMES.len()];
        let name = QualName::new(prefix.map(|p| p.into()), Namespace::from(ns), LocalName::from(local));
        if out.iter().any(|a| crate::sinks::model::same_qname(&a.name, &name)) {
            continue; // the contract forbids duplicate names in one list
        }
        out.push(Attribute { name, value: StrTendril::from(v.as_str()) });
    }
    out
}

fn pick<T: Clone>(v: &[T], sel: u16) -> Option<T> {
    if v.is_empty() {
        None
    } else {
        Some(v[(sel as usize * v.len()) >> 16].clone())
    }
}

struct Interp {
    tee: Tee,
    pool: Vec<TeeHandle>,
    skipped: u32,
    labels: Vec<&'static str>,
}

impl Interp {
    fn new() -> Interp {
        let tee = Tee::new();
        let doc = tee.get_document();
        Interp { tee, pool: vec![doc], skipped: 0, labels: vec![] }
    }
    fn kind(&self, id: Id) -> MKind {
        self.tee.model.nodes.borrow()[id].kind.clone()
    }
    fn parent(&self, id: Id) -> Option<Id> {
        self.tee.model.nodes.borrow()[id].parent
    }
    fn can_have_children(&self, id: Id) -> bool {
        matches!(self.kind(id), MKind::Element { .. } | MKind::Document | MKind::Fragment)
    }
    fn is_container_root(&self, id: Id) -> bool {
        matches!(self.kind(id), MKind::Document | MKind::Fragment)
    }
    fn inclusive_ancestor(&self, anc: Id, node: Id) -> bool {
        let nodes = self.tee.model.nodes.borrow();
        let mut cur = Some(node);
        while let Some(c) = cur {
            if c == anc {
                return true;
            }
            cur = nodes[c].parent.or(nodes[c].host);
        }
        false
    }
    fn last_child_is_text(&self, id: Id) -> bool {
        let nodes = self.tee.model.nodes.borrow();
        nodes[id].children.last().map(|c| matches!(nodes[*c].kind, MKind::Text(_))).unwrap_or(false)
    }
    fn first_child_is_text(&self, id: Id) -> bool {
        let nodes = self.tee.model.nodes.borrow();
        nodes[id].children.first().map(|c| matches!(nodes[*c].kind, MKind::Text(_))).unwrap_or(false)
    }

    /// resolve a child selector for insertion under `parent`
    fn child_for(&self, parent: Id, child: &Child, must_be_parentless: bool, not: Option<Id>) -> Option<NodeOrText<TeeHandle>> {
        match child {
            Child::Text(t) => {
                if t.is_empty() {
                    return None;
                }
                Some(NodeOrText::AppendText(StrTendril::from(t.as_str())))
            },
            Child::Node(sel) => {
                let cands: Vec<TeeHandle> = self
                    .pool
                    .iter()
                    .filter(|h| {
                        !self.is_container_root(h.id)
                            && (!must_be_parentless || self.parent(h.id).is_none())
                            && !self.inclusive_ancestor(h.id, parent)
                            && Some(h.id) != not
                    })
                    .cloned()
                    .collect();
                pick(&cands, *sel).map(NodeOrText::AppendNode)
            },
        }
    }

    fn step(&mut self, op: &DOp) {
        match op {
            DOp::CreateElement { name, attrs } => {
                let (ns, local) = ELEMS[*name as usize % ELEMS.len()];
                let q = QualName::new(None, Namespace::from(crate::sinks::drive::ns_url(ns)), LocalName::from(local));
                let mut flags = ElementFlags::default();
                flags.template = ns == "html" && local == "template";
                let h = self.tee.create_element(q, mk_attrs(attrs), flags);
                self.pool.push(h);
            },
            DOp::CreateComment(t) => {
                let h = self.tee.create_comment(StrTendril::from(t.as_str()));
                self.pool.push(h);
            },
            DOp::CreatePi(a, b) => {
                let h = self.tee.create_pi(StrTendril::from(a.as_str()), StrTendril::from(b.as_str()));
                self.pool.push(h);
            },
            DOp::Append { parent, child } => {
                let parents: Vec<TeeHandle> = self.pool.iter().filter(|h| self.can_have_children(h.id)).cloned().collect();
                let Some(p) = pick(&parents, *parent) else { return self.skip() };
                let Some(c) = self.child_for(p.id, child, true, None) else { return self.skip() };
                if matches!(c, NodeOrText::AppendText(_)) && self.last_child_is_text(p.id) {
                    self.labels.push("append merged text");
                }
                self.tee.append(&p, c);
            },
            DOp::AppendBefore { sibling, child } => {
                let sibs: Vec<TeeHandle> = self.pool.iter().filter(|h| self.parent(h.id).is_some()).cloned().collect();
                let Some(s) = pick(&sibs, *sibling) else { return self.skip() };
                let par = self.parent(s.id).unwrap();
                let Some(c) = self.child_for(par, child, false, Some(s.id)) else { return self.skip() };
                match &c {
                    NodeOrText::AppendText(_) => {
                        let nodes = self.tee.model.nodes.borrow();
                        let idx = nodes[par].children.iter().position(|x| *x == s.id).unwrap();
                        if idx > 0 && matches!(nodes[nodes[par].children[idx - 1]].kind, MKind::Text(_)) {
                            self.labels.push("append_before_sibling merged text");
                        }
                    },
                    NodeOrText::AppendNode(n) => {
                        if self.parent(n.id) == Some(par) {
                            self.labels.push("append_before_sibling moved a node within its parent");
                        } else if self.parent(n.id).is_some() {
                            self.labels.push("append_before_sibling moved a node from another parent");
                        }
                    },
                }
                self.tee.append_before_sibling(&s, c);
            },
            DOp::AppendBasedOnParent { element, prev, child } => {
                let elems: Vec<TeeHandle> =
                    self.pool.iter().filter(|h| matches!(self.kind(h.id), MKind::Element { .. })).cloned().collect();
                let Some(e) = pick(&elems, *element) else { return self.skip() };
                let prevs: Vec<TeeHandle> = self.pool.iter().filter(|h| self.can_have_children(h.id)).cloned().collect();
                let Some(p) = pick(&prevs, *prev) else { return self.skip() };
                let target_parent = self.parent(e.id).unwrap_or(p.id);
                let Some(c) = self.child_for(target_parent, child, true, Some(e.id)) else { return self.skip() };
                self.labels.push("append_based_on_parent_node");
                self.tee.append_based_on_parent_node(&e, &p, c);
            },
            DOp::Doctype(a, b, c) => {
                let ok = self.tee.model.doctype_appends.get() == 0 && {
                    let nodes = self.tee.model.nodes.borrow();
                    !nodes[DOC].children.iter().any(|k| matches!(nodes[*k].kind, MKind::Element { .. }))
                };
                if !ok {
                    return self.skip();
                }
                self.tee.append_doctype_to_document(a.as_str().into(), b.as_str().into(), c.as_str().into());
            },
            DOp::AddAttrs { target, attrs } => {
                let elems: Vec<TeeHandle> =
                    self.pool.iter().filter(|h| matches!(self.kind(h.id), MKind::Element { .. })).cloned().collect();
                let Some(e) = pick(&elems, *target) else { return self.skip() };
                let new = mk_attrs(attrs);
                if let MKind::Element { attrs: ex, .. } = self.kind(e.id) {
                    if new.iter().any(|a| ex.iter().any(|b| crate::sinks::model::same_qname(&b.name, &a.name))) {
                        self.labels.push("add_attrs_if_missing with an existing name");
                    }
                }
                self.tee.add_attrs_if_missing(&e, new);
            },
            DOp::Remove { target } => {
                let c: Vec<TeeHandle> = self.pool.iter().filter(|h| !self.is_container_root(h.id)).cloned().collect();
                let Some(t) = pick(&c, *target) else { return self.skip() };
                self.tee.remove_from_parent(&t);
            },
            DOp::Reparent { node, new_parent } => {
                let c: Vec<TeeHandle> = self.pool.iter().filter(|h| self.can_have_children(h.id)).cloned().collect();
                let Some(n) = pick(&c, *node) else { return self.skip() };
                let c2: Vec<TeeHandle> = c
                    .iter()
                    .filter(|h| !self.inclusive_ancestor(n.id, h.id))
                    // the tree builder only re-parents into fresh elements; do not create adjacent text nodes
                    .filter(|h| !(self.last_child_is_text(h.id) && self.first_child_is_text(n.id)))
                    .cloned()
                    .collect();
                let Some(p) = pick(&c2, *new_parent) else { return self.skip() };
                if !self.tee.model.nodes.borrow()[n.id].children.is_empty() {
                    self.labels.push("reparent_children moved nodes");
                }
                self.tee.reparent_children(&n, &p);
            },
            DOp::TemplateContents { target } => {
                let c: Vec<TeeHandle> = self
                    .pool
                    .iter()
                    .filter(|h| matches!(self.kind(h.id), MKind::Element { template: true, .. }))
                    .cloned()
                    .collect();
                let Some(t) = pick(&c, *target) else { return self.skip() };
                let h = self.tee.get_template_contents(&t);
                if !self.pool.iter().any(|x| x.id == h.id) {
                    self.pool.push(h);
                }
                self.labels.push("template contents used");
            },
            DOp::CloneOption { option } => {
                let c: Vec<TeeHandle> = self
                    .pool
                    .iter()
                    .filter(|h| match self.kind(h.id) {
                        MKind::Element { name, .. } => &*name.local == "option" && &*name.ns == "http://www.w3.org/1999/xhtml",
                        _ => false,
                    })
                    .cloned()
                    .collect();
                let Some(o) = pick(&c, *option) else { return self.skip() };
                let before = self.tee.model.nodes.borrow().len();
                if before > 3000 {
                    // a selectedcontent inside its own option doubles on every clone: bound the size
                    return self.skip();
                }
                self.tee.maybe_clone_an_option_into_selectedcontent(&o);
                if self.tee.model.nodes.borrow().len() > before {
                    self.labels.push("selectedcontent clone with content");
                }
            },
            DOp::SelectScenario { parent, multiple, nested, selected, optgroup } => {
                let parents: Vec<TeeHandle> = self.pool.iter().filter(|h| self.can_have_children(h.id)).cloned().collect();
                let Some(p) = pick(&parents, *parent) else { return self.skip() };
                let html = |l: &str| QualName::new(None, Namespace::from("http://www.w3.org/1999/xhtml"), LocalName::from(l));
                let at = |l: &str| Attribute { name: QualName::new(None, Namespace::from(""), LocalName::from(l)), value: StrTendril::from("") };
                let mk = |me: &mut Interp, l: &str, attrs: Vec<Attribute>| {
                    let h = me.tee.create_element(html(l), attrs, ElementFlags::default());
                    me.pool.push(h.clone());
                    h
                };
                let select = mk(self, "select", if *multiple { vec![at("multiple")] } else { vec![] });
                self.tee.append(&p, NodeOrText::AppendNode(select.clone()));
                let sc = mk(self, "selectedcontent", vec![]);
                if *nested {
                    let d = mk(self, "div", vec![]);
                    self.tee.append(&select, NodeOrText::AppendNode(d.clone()));
                    self.tee.append(&d, NodeOrText::AppendNode(sc.clone()));
                } else {
                    self.tee.append(&select, NodeOrText::AppendNode(sc.clone()));
                }
                self.tee.append(&sc, NodeOrText::AppendText("old".into()));
                let opt = mk(self, "option", if *selected { vec![at("selected")] } else { vec![] });
                if *optgroup {
                    let g = mk(self, "optgroup", vec![]);
                    self.tee.append(&select, NodeOrText::AppendNode(g.clone()));
                    self.tee.append(&g, NodeOrText::AppendNode(opt.clone()));
                } else {
                    self.tee.append(&select, NodeOrText::AppendNode(opt.clone()));
                }
                let b = mk(self, "b", vec![]);
                self.tee.append(&opt, NodeOrText::AppendNode(b.clone()));
                self.tee.append(&b, NodeOrText::AppendText("x".into()));
                self.tee.append(&opt, NodeOrText::AppendText("y".into()));
            },
            DOp::SameNode { a, b } => {
                let (Some(x), Some(y)) = (pick(&self.pool, *a), pick(&self.pool, *b)) else { return self.skip() };
                let _ = self.tee.same_node(&x, &y);
            },
        }
    }
    fn skip(&mut self) {
        self.skipped += 1;
    }
}

// ---------------------------------------------------------------------------
// comparison

#[derive(Debug, PartialEq, Eq, Clone)]
enum Ev {
    Start(String, Vec<(String, String)>),
    End(String),
    Text(String),
    Comment(String),
    Doctype(String),
    Pi(String, String),
}

struct RecSer(Vec<Ev>);
impl Serializer for RecSer {
    fn start_elem<'a, AttrIter>(&mut self, name: QualName, attrs: AttrIter) -> std::io::Result<()>
    where
        AttrIter: Iterator<Item = AttrRef<'a>>,
    {
        self.0.push(Ev::Start(
            format!("{}|{}", &*name.ns, &*name.local),
            attrs.map(|(n, v)| (format!("{}|{}", &*n.ns, &*n.local), v.to_string())).collect(),
        ));
        Ok(())
    }
    fn end_elem(&mut self, name: QualName) -> std::io::Result<()> {
        self.0.push(Ev::End(format!("{}|{}", &*name.ns, &*name.local)));
        Ok(())
    }
    fn write_text(&mut self, text: &str) -> std::io::Result<()> {
        self.0.push(Ev::Text(text.to_string()));
        Ok(())
    }
    fn write_comment(&mut self, text: &str) -> std::io::Result<()> {
        self.0.push(Ev::Comment(text.to_string()));
        Ok(())
    }
    fn write_doctype(&mut self, name: &str) -> std::io::Result<()> {
        self.0.push(Ev::Doctype(name.to_string()));
        Ok(())
    }
    fn write_processing_instruction(&mut self, target: &str, data: &str) -> std::io::Result<()> {
        self.0.push(Ev::Pi(target.to_string(), data.to_string()));
        Ok(())
    }
}

fn model_events(tee: &Tee, root: Id) -> Vec<Ev> {
    // DFS over children; a template element's contents come before its own children
    enum W {
        Open(Id),
        Close(String),
    }
    let nodes = tee.model.nodes.borrow();
    let mut out = vec![];
    let mut stack: Vec<W> = nodes[root].children.iter().rev().map(|c| W::Open(*c)).collect();
    while let Some(w) = stack.pop() {
        match w {
            W::Close(n) => out.push(Ev::End(n)),
            W::Open(id) => match &nodes[id].kind {
                MKind::Element { name, attrs, .. } => {
                    let n = format!("{}|{}", &*name.ns, &*name.local);
                    out.push(Ev::Start(
                        n.clone(),
                        attrs.iter().map(|a| (format!("{}|{}", &*a.name.ns, &*a.name.local), a.value.to_string())).collect(),
                    ));
                    stack.push(W::Close(n));
                    for c in nodes[id].children.iter().rev() {
                        stack.push(W::Open(*c));
                    }
                    // between the tags of a template element: the children of its template
                    // contents (HTML fragment serialization algorithm), then its own children
                    if let Some(tc) = nodes[id].tmpl {
                        for c in nodes[tc].children.iter().rev() {
                            stack.push(W::Open(*c));
                        }
                    }
                },
                MKind::Text(t) => out.push(Ev::Text(t.clone())),
                MKind::Comment(t) => out.push(Ev::Comment(t.clone())),
                MKind::Doctype { name, .. } => out.push(Ev::Doctype(name.clone())),
                MKind::Pi { target, data } => out.push(Ev::Pi(target.clone(), data.clone())),
                MKind::Document | MKind::Fragment => {},
            },
        }
    }
    out
}

fn rc_parent(h: &RcHandle) -> Option<RcHandle> {
    let p = h.parent.take();
    let r = p.as_ref().and_then(|w| w.upgrade());
    h.parent.set(p);
    r
}

/// Every handle the sink handed out: its RcDom parent link agrees with the model's parent
/// (including "none" for orphans).  Cheap; run after every direct operation, so that a stale
/// link is reported by the operation that leaves it behind (a later operation may walk it).
pub fn handle_links(tee: &Tee) -> Result<(), String> {
    let handles = tee.handles.borrow();
    let nodes = tee.model.nodes.borrow();
    for (id, rc) in handles.iter() {
        let mp = nodes[*id].parent;
        let rp = rc_parent(rc);
        match (mp, rp) {
            (None, None) => {},
            (Some(p), Some(r)) => {
                if let Some(prc) = handles.get(&p) {
                    if !Rc::ptr_eq(prc, &r) {
                        return Err(format!("node #{id}: RcDom parent link names a different node than the model's parent #{p}"));
                    }
                }
            },
            (None, Some(_)) => return Err(format!("node #{id} is an orphan in the model but has a parent link in RcDom")),
            (Some(p), None) => return Err(format!("node #{id} has parent #{p} in the model but no parent link in RcDom")),
        }
    }
    drop(nodes);
    drop(handles);
    Ok(())
}

pub fn compare(tee: &Tee) -> Result<(), String> {
    if let Some(v) = tee.model.violations.borrow().first() {
        return Err(format!("harness/contract problem while applying the operations: {v}"));
    }
    let o = CanonOpts { dup: false, ..CanonOpts::default() };
    let a = rcdom_canon(&tee.rc.document, o);
    let b = model_canon(&tee.model, DOC, o);
    if a != b {
        return Err(format!("RcDom tree differs from the model tree: {} (RcDom vs model)", first_diff(&a, &b)));
    }
    // document-level state the sink keeps: quirks mode and the list of parse errors
    if tee.rc.quirks_mode.get() != tee.model.quirks.get() {
        return Err(format!(
            "RcDom's quirks_mode is {:?}, the last set_quirks_mode call said {:?}",
            tee.rc.quirks_mode.get(),
            tee.model.quirks.get()
        ));
    }
    {
        let re = tee.rc.errors.borrow();
        let me = tee.model.errors.borrow();
        if re.len() != me.len() || re.iter().zip(me.iter()).any(|(a, b)| a.as_ref() != b.as_str()) {
            return Err(format!("RcDom recorded {} parse error(s), {} were reported to the sink (or their texts differ)", re.len(), me.len()));
        }
    }
    // element flags (not part of the dump): the MathML annotation-xml integration-point flag of
    // every element, copies included (the trees have just been found equal in shape)
    {
        let nodes = tee.model.nodes.borrow();
        let mut stack: Vec<(RcHandle, usize)> = vec![(tee.rc.document.clone(), DOC)];
        while let Some((r, m)) = stack.pop() {
            if let (NodeData::Element { mathml_annotation_xml_integration_point: rf, name, template_contents, .. }, crate::sinks::model::MKind::Element { mathml_ip, .. }) =
                (&r.data, &nodes[m].kind)
            {
                if rf != mathml_ip {
                    return Err(format!(
                        "element <{}>: RcDom's mathml_annotation_xml_integration_point flag is {rf}, the model's {mathml_ip}",
                        &*name.local
                    ));
                }
                if let (Some(rt), Some(mt)) = (template_contents.borrow().as_ref(), nodes[m].tmpl) {
                    stack.push((rt.clone(), mt));
                }
            }
            let rk = r.children.borrow();
            let mk = &nodes[m].children;
            if rk.len() == mk.len() {
                for (a, b) in rk.iter().zip(mk.iter()) {
                    stack.push((a.clone(), *b));
                }
            }
        }
    }
    // parent links: every node's parent names exactly the node whose child list holds it, once
    let mut stack = vec![tee.rc.document.clone()];
    if rc_parent(&tee.rc.document).is_some() {
        return Err("document node has a parent".into());
    }
    while let Some(n) = stack.pop() {
        let kids = n.children.borrow().clone();
        for (i, k) in kids.iter().enumerate() {
            match rc_parent(k) {
                Some(p) if Rc::ptr_eq(&p, &n) => {},
                Some(_) => return Err(format!("child #{i} of a node has a parent link naming a different node")),
                None => return Err(format!("child #{i} of a node has no parent link")),
            }
            if kids.iter().filter(|x| Rc::ptr_eq(x, k)).count() != 1 {
                return Err("a node occurs twice in a child list".into());
            }
            stack.push(k.clone());
        }
        if let NodeData::Element { template_contents, .. } = &n.data {
            if let Some(tc) = template_contents.borrow().as_ref() {
                stack.push(tc.clone());
            }
        }
    }
    handle_links(tee)?;
    // serializer visits each node once, in document order
    let mut rs = RecSer(vec![]);
    let sh: SerializableHandle = tee.rc.document.clone().into();
    sh.serialize(&mut rs, TraversalScope::ChildrenOnly(None)).map_err(|e| e.to_string())?;
    let me = model_events(tee, DOC);
    if rs.0 != me {
        let n = rs.0.iter().zip(me.iter()).take_while(|(a, b)| a == b).count();
        return Err(format!(
            "serializing the RcDom visits nodes differently from the model's document order at event #{n}: {:?} vs {:?}",
            rs.0.get(n),
            me.get(n)
        ));
    }
    Ok(())
}

pub fn check(case: &Case, st: &mut Stats) -> Result<(), String> {
    st.eval();
    match case {
        Case::Html(tc) => {
            let (tee, _, _) = drive(Tee::new(), &tc.cfg, &tc.chunks, |_, _, _, _| {});
            compare(&tee)?;
            let names = tee.model.call_names.borrow();
            let mut nt = false;
            for n in ["reparent_children", "add_attrs_if_missing", "append_based_on_parent_node", "maybe_clone_an_option_into_selectedcontent", "get_template_contents", "remove_from_parent"] {
                if names.contains(&n) {
                    st.label(&format!("parse:{n}"));
                    nt = true;
                }
            }
            if nt {
                st.nontrivial(hash64(&*names), || serde_json::to_value(case).unwrap());
            }
        },
        Case::Xml { chunks: ch } => {
            let (tee, _) = drive_xml(Tee::new(), &XmlCfg::default(), ch, |_, _| {});
            compare(&tee)?;
            st.label("parse:xml");
        },
        Case::Direct { ops } => {
            let mut it = Interp::new();
            for (i, op) in ops.iter().enumerate() {
                it.step(op);
                if std::env::var("HV_DEBUG").is_ok() {
                    let o = CanonOpts { dup: false, ..CanonOpts::default() };
                    eprintln!("--- after op #{i} {op:?}\nRC:\n{}MODEL:\n{}", rcdom_canon(&it.tee.rc.document, o), model_canon(&it.tee.model, DOC, o));
                }
                handle_links(&it.tee).map_err(|e| format!("after op #{i} {op:?}: {e}"))?;
                if i % 16 == 15 {
                    compare(&it.tee).map_err(|e| format!("after op #{i} {op:?}: {e}"))?;
                }
            }
            compare(&it.tee)?;
            let mut labels = it.labels.clone();
            labels.sort();
            labels.dedup();
            for l in &labels {
                st.label(&format!("direct:{l}"));
            }
            st.label_n("direct: ops skipped (no valid candidate)", it.skipped as u64);
            if !labels.is_empty() {
                st.nontrivial(hash64(case), || serde_json::to_value(case).unwrap());
            }
        },
    }
    Ok(())
}

fn gen_child(s: &mut Src) -> Child {
    if s.chance(100) {
        Child::Text(s.pick(&["t", " ", "ab", "é", "\n"]).to_string())
    } else {
        Child::Node(s.u16())
    }
}

fn gen_attr_spec(s: &mut Src) -> Vec<(u16, String)> {
    let n = s.below(4);
    (0..n).map(|_| (s.below(ATTR_NAMES.len()) as u16, s.pick(&["", "v", "w"]).to_string())).collect()
}

pub fn decode(s: &mut Src) -> Case {
    match s.below(10) {
        0 => {
            let text = gxml::gen_xml_noisy(s, 10);
            let cuts = chunks::gen_cuts(s, text.chars().count());
            Case::Xml { chunks: chunks::chunk_str(&text, &cuts) }
        },
        1..=4 => {
            let mut tc = gen_tree_case(s, true, 40);
            if s.chance(100) {
                let pre = *s.pick(&[
                    "<select><button><selectedcontent></selectedcontent></button><option selected>a<b>c</b></option>",
                    "<select><selectedcontent>old</selectedcontent><option selected><i>x</i>y</option><option>z</option>",
                    "<select multiple><selectedcontent></selectedcontent><option selected>q</option>",
                    "<select><div><selectedcontent></selectedcontent></div><optgroup><option selected>r</option></optgroup>",
                    "<select><option selected>early</option><selectedcontent></selectedcontent><option selected>late</option>",
                    "<html a=1><html a=2 b=3><body c=4><body c=5 d=6>",
                    "<table>a<b>b</b>c<tr>d</table>",
                    "<table><template>x</template>y",
                ]);
                tc.input = format!("{pre}{}", tc.input);
                let n = tc.input.chars().count();
                let cuts = chunks::gen_cuts(s, n);
                tc.chunks = chunks::chunk_str(&tc.input, &cuts);
            }
            Case::Html(tc)
        },
        _ => {
            let n = s.range(1, 60);
            let mut ops = vec![];
            for _ in 0..n {
                let op = match s.weighted(&[20, 3, 2, 22, 14, 6, 2, 6, 6, 6, 4, 8, 2, 4]) {
                    0 => DOp::CreateElement { name: s.below(ELEMS.len()) as u16, attrs: gen_attr_spec(s) },
                    1 => DOp::CreateComment(s.pick(&["c", "", "--"]).to_string()),
                    2 => DOp::CreatePi("p".into(), s.pick(&["d", ""]).to_string()),
                    3 => DOp::Append { parent: s.u16(), child: gen_child(s) },
                    4 => DOp::AppendBefore { sibling: s.u16(), child: gen_child(s) },
                    5 => DOp::AppendBasedOnParent { element: s.u16(), prev: s.u16(), child: gen_child(s) },
                    6 => DOp::Doctype("html".into(), s.pick(&["", "p"]).to_string(), "".into()),
                    7 => DOp::AddAttrs { target: s.u16(), attrs: gen_attr_spec(s) },
                    8 => DOp::Remove { target: s.u16() },
                    9 => DOp::Reparent { node: s.u16(), new_parent: s.u16() },
                    10 => DOp::TemplateContents { target: s.u16() },
                    11 => DOp::CloneOption { option: s.u16() },
                    12 => DOp::SameNode { a: s.u16(), b: s.u16() },
                    _ => DOp::SelectScenario { parent: s.u16(), multiple: s.chance(40), nested: s.bool(), selected: !s.chance(50), optgroup: s.bool() },
                };
                ops.push(op);
            }
            Case::Direct { ops }
        },
    }
}

pub fn run(ctx: &Ctx) -> Report {
    let mut rep = Report::new(
        "Tee sink: every TreeSink call is applied to RcDom and to the abstract ModelDom. Driven by (i) parsing grammar-generated HTML (documents and fragments; biased to adoption agency, foster parenting with text merging, duplicate <html>/<body> attribute merging, templates, customizable-select content with selected options and selectedcontent) and generated XML under random chunkings, and (ii) direct random valid operation sequences of 1..60 calls (create_element/comment/pi, append, append_before_sibling incl. moving a node that already has a parent, append_based_on_parent_node, append_doctype_to_document, add_attrs_if_missing, remove_from_parent, reparent_children, get_template_contents, maybe_clone_an_option_into_selectedcontent, same_node) whose arguments are chosen among the candidates that satisfy the TreeSink contract in the current model state. Oracle, after the run and every 16 direct calls: RcDom's tree walked through `children` equals the model tree (kinds, names, attribute order/values, text, template contents); every RcDom node's parent link upgrades to exactly the node whose child list holds it, once; orphans have none; handles handed out agree with the model's parent; a recording Serializer driven by SerializableHandle sees each node once in model DFS order. The model implements 'maybe clone an option into selectedcontent' from the standard (nearest ancestor select, `selected`, not `multiple`, first selectedcontent descendant in tree order, deep copies with fresh parent links). Non-trivial: parse traces containing reparent_children / add_attrs_if_missing / append_based_on_parent_node / selectedcontent mirroring / template contents / remove_from_parent, or direct sequences that hit text merging, moves, attribute merging, re-parenting, template contents or a selectedcontent clone.",
    );
    rep.assume("template contents are not part of the serializer's document-order walk (RcDom serializes `children` only)");
    rep.assume("reparent_children is only generated where it cannot create adjacent text nodes (the tree builder re-parents into fresh elements only; the trait does not say whether texts merge)");
    report_known(ctx, &mut rep, &|v| replay(&ctx.strict_clone(), v));
    run_regressions(ctx, &mut rep, &|v| replay(&ctx.strict_clone(), v));
    let out = run_random(ctx.seed, ctx.tier.pick(1_500_000, 20_000_000), 1500, decode, check);
    rep.absorb(out);
    for l in [
        "parse:reparent_children",
        "parse:add_attrs_if_missing",
        "parse:append_based_on_parent_node",
        "parse:maybe_clone_an_option_into_selectedcontent",
        "direct:append merged text",
        "direct:append_before_sibling merged text",
        "direct:append_before_sibling moved a node within its parent",
        "direct:reparent_children moved nodes",
        "direct:add_attrs_if_missing with an existing name",
        "direct:selectedcontent clone with content",
    ] {
        rep.need(l, 100);
    }
    rep
}

pub fn replay(_ctx: &Ctx, v: &Value) -> Result<(), String> {
    let case: Case = serde_json::from_value(v.clone()).map_err(|e| format!("bad case: {e}"))?;
    let mut st = Stats::default();
    check(&case, &mut st)
}
