//! C18 — trace_handles reports every node the tree builder still needs.
//! ModelDom in GC mode: at every suspension point untraced, disconnected nodes
//! are collected; any later use of a collected handle is a violation, and the
//! final tree must equal the tree of a GC-free run.

use crate::engine::*;
use crate::gen::cases::{gen_tree_case, TreeCase};
use crate::gen::{chunks, xml as gxml};
use crate::sinks::canon::{first_diff, CanonOpts};
use crate::sinks::drive::{drive, drive_xml, Pause, XmlCfg};
use crate::sinks::model::{model_canon, Id, ModelDom, DOC};
use html5ever::tree_builder::Tracer;
use serde::{Deserialize, Serialize};
use serde_json::Value;
use std::cell::RefCell;

#[derive(Serialize, Deserialize, Clone, Debug, Hash, PartialEq, Eq)]
pub enum Case {
    Html(TreeCase),
    Xml { chunks: Vec<String> },
    /// like Html/Xml, but a "script" runs at every script pause: action k detaches the
    /// k-th ancestor of the script element from its parent (0 = nothing); k >= 16 encodes a set of
    /// ancestors (bit i of k-16 = ancestor i+1), each detached from its parent
    HtmlScripted { tree: TreeCase, actions: Vec<u8> },
    XmlScripted { chunks: Vec<String>, actions: Vec<u8> },
    /// tokens handed directly to xml5ever's tree builder through its public TokenSink
    /// interface (a collection after every token, scripts as above), then end()
    XmlTokens { toks: Vec<XTok>, actions: Vec<u8> },
}

#[derive(Serialize, Deserialize, Clone, Debug, Hash, PartialEq, Eq)]
pub enum XTok {
    Start(String),
    Empty(String),
    End(String),
    Short,
    Chars(String),
    Comment,
    Pi,
    Doctype,
    Nul,
    Eof,
}

struct Collect(RefCell<Vec<Id>>);
impl Tracer for Collect {
    type Handle = Id;
    fn trace_handle(&self, node: &Id) {
        self.0.borrow_mut().push(*node);
    }
}

/// The simulated script: detach the k-th ancestor of the script element (never the
/// root element or the document).  Identical in the collecting and the plain run.
fn run_script(dom: &ModelDom, script: Id, action: u8) -> bool {
    if action == 0 {
        return false;
    }
    // ancestors of the script element, nearest first
    let chain: Vec<Id> = {
        let nodes = dom.nodes.borrow();
        let mut v = vec![];
        let mut cur = script;
        // (a template's contents continue with the template element itself)
        while let Some(p) = nodes[cur].parent.or(nodes[cur].host) {
            v.push(p);
            cur = p;
            if v.len() > 64 {
                break;
            }
        }
        v
    };
    // action < 16: the action-th ancestor; otherwise a set: bit i of (action - 16) = ancestor i+1
    let wanted: Vec<usize> = if action < 16 {
        vec![action as usize]
    } else {
        (0..8).filter(|i| ((action - 16) >> i) & 1 == 1).map(|i| i + 1).collect()
    };
    let mut any = false;
    for k in wanted {
        let Some(&t) = chain.get(k - 1) else { continue };
        // not the document, not a direct child of the document (root element)
        let ok = {
            let nodes = dom.nodes.borrow();
            t != DOC && nodes[t].parent.map(|p| p != DOC).unwrap_or(false)
        };
        if ok {
            use html5ever::tree_builder::TreeSink;
            dom.remove_from_parent(&t);
            any = true;
        }
    }
    any
}

struct RunOut {
    dom: ModelDom,
    collections: usize,
    collected: usize,
    mattered: usize,
    detached: usize,
}

fn run_case(case: &Case, gc: bool) -> RunOut {
    let collections = std::cell::Cell::new(0usize);
    let collected = std::cell::Cell::new(0usize);
    let mattered = std::cell::Cell::new(0usize);
    let detached = std::cell::Cell::new(0usize);
    let pause_no = std::cell::Cell::new(0usize);
    let (actions, html): (Vec<u8>, bool) = match case {
        Case::HtmlScripted { actions, .. } => (actions.clone(), true),
        Case::XmlScripted { actions, .. } => (actions.clone(), false),
        Case::XmlTokens { actions, .. } => (actions.clone(), false),
        Case::Html(_) => (vec![], true),
        Case::Xml { .. } => (vec![], false),
    };
    let action_at = |n: usize| -> u8 {
        if actions.is_empty() {
            0
        } else {
            actions[n % actions.len()]
        }
    };
    if let Case::XmlTokens { toks, .. } = case {
        use markup5ever::{LocalName, Namespace, QualName};
        use xml5ever::tokenizer::{Doctype, Pi, ProcessResult, Tag, TagKind, Token, TokenSink};
        use xml5ever::tree_builder::XmlTreeBuilder;
        let tb = XmlTreeBuilder::new(ModelDom::new(), Default::default());
        let qn = |n: &str| QualName::new(None, Namespace::from(""), LocalName::from(n));
        let tag = |kind: TagKind, n: &str| Token::Tag(Tag { kind, name: qn(n), attrs: vec![] });
        for t in toks {
            let token = match t {
                XTok::Start(n) => tag(TagKind::StartTag, n),
                XTok::Empty(n) => tag(TagKind::EmptyTag, n),
                XTok::End(n) => tag(TagKind::EndTag, n),
                XTok::Short => tag(TagKind::ShortTag, ""),
                XTok::Chars(c) => Token::Characters(tendril::StrTendril::from(c.as_str())),
                XTok::Comment => Token::Comment(tendril::StrTendril::from("c")),
                XTok::Pi => Token::ProcessingInstruction(Pi { target: "t".into(), data: "d".into() }),
                XTok::Doctype => Token::Doctype(Doctype { name: Some("r".into()), public_id: None, system_id: None }),
                XTok::Nul => Token::NullCharacter,
                XTok::Eof => Token::EndOfFile,
            };
            let handle = match tb.process_token(token) {
                ProcessResult::Script(h) => Some(h),
                _ => None,
            };
            if let Some(h) = handle {
                let a = action_at(pause_no.get());
                pause_no.set(pause_no.get() + 1);
                if run_script(&tb.sink, h, a) {
                    detached.set(detached.get() + 1);
                }
            }
            if gc {
                let tracer = Collect(RefCell::new(vec![]));
                tb.trace_handles(&tracer);
                let mut roots = tracer.0.into_inner();
                roots.push(DOC);
                if let Some(h) = handle {
                    roots.push(h);
                }
                let (c, m) = tb.sink.collect(&roots);
                collected.set(collected.get() + c);
                mattered.set(mattered.get() + m);
                collections.set(collections.get() + 1);
            }
        }
        tb.end();
        let dom = tb.sink;
        return RunOut { dom, collections: collections.get(), collected: collected.get(), mattered: mattered.get(), detached: detached.get() };
    }
    let dom = if html {
        let tc = match case {
            Case::Html(tc) => tc,
            Case::HtmlScripted { tree, .. } => tree,
            _ => unreachable!(),
        };
        let (dom, _, _) = drive(ModelDom::for_cfg(&tc.cfg), &tc.cfg, &tc.chunks, |parser, pause, handle, _| {
            let sink = &parser.tokenizer.sink.sink;
            if let (Pause::Script, Some(h)) = (pause, handle) {
                let a = action_at(pause_no.get());
                pause_no.set(pause_no.get() + 1);
                if run_script(sink, *h, a) {
                    detached.set(detached.get() + 1);
                }
            }
            if gc {
                let tracer = Collect(RefCell::new(vec![]));
                parser.tokenizer.sink.trace_handles(&tracer);
                let mut roots = tracer.0.into_inner();
                roots.push(DOC);
                if let (Pause::Script, Some(h)) = (pause, handle) {
                    roots.push(*h); // the caller holds the script element it was handed
                }
                let (c, m) = sink.collect(&roots);
                collected.set(collected.get() + c);
                mattered.set(mattered.get() + m);
                collections.set(collections.get() + 1);
            }
        });
        dom
    } else {
        let ch = match case {
            Case::Xml { chunks } => chunks,
            Case::XmlScripted { chunks, .. } => chunks,
            _ => unreachable!(),
        };
        let cfg = XmlCfg::default();
        let (dom, _) = drive_xml(ModelDom::new(), &cfg, ch, |parser, handle| {
            let sink = &parser.tokenizer.sink.sink;
            if let Some(h) = handle {
                let a = action_at(pause_no.get());
                pause_no.set(pause_no.get() + 1);
                if run_script(sink, *h, a) {
                    detached.set(detached.get() + 1);
                }
            }
            if gc {
                let tracer = Collect(RefCell::new(vec![]));
                parser.tokenizer.sink.trace_handles(&tracer);
                let mut roots = tracer.0.into_inner();
                roots.push(DOC);
                if let Some(h) = handle {
                    roots.push(*h);
                }
                let (c, m) = sink.collect(&roots);
                collected.set(collected.get() + c);
                mattered.set(mattered.get() + m);
                collections.set(collections.get() + 1);
            }
        });
        dom
    };
    RunOut { dom, collections: collections.get(), collected: collected.get(), mattered: mattered.get(), detached: detached.get() }
}

pub fn check(case: &Case, st: &mut Stats) -> Result<(), String> {
    st.eval();
    let g = run_case(case, true);
    let p = run_case(case, false);
    if let Some(v) = g.dom.violations.borrow().iter().find(|v| v.contains("already collected")) {
        return Err(format!(
            "the tree builder used a node that trace_handles did not report and that was not connected to a reported node: {v}"
        ));
    }
    let a = model_canon(&p.dom, DOC, CanonOpts::default());
    let b = model_canon(&g.dom, DOC, CanonOpts::default());
    if a != b {
        return Err(format!("tree of the collecting run differs from the GC-free run: {}", first_diff(&a, &b)));
    }
    // the detached subtrees must be identical too (same arena ids in both runs)
    if g.detached > 0 {
        let np = p.dom.nodes.borrow().len();
        let ng = g.dom.nodes.borrow().len();
        if np != ng {
            return Err(format!("collecting run created {ng} nodes, GC-free run {np}"));
        }
        for id in 0..np {
            let (pp, pk) = {
                let n = p.dom.nodes.borrow();
                (n[id].parent, n[id].children.clone())
            };
            let (gp, gk, coll) = {
                let n = g.dom.nodes.borrow();
                (n[id].parent, n[id].children.clone(), n[id].collected)
            };
            if !coll && (pp != gp || pk != gk) {
                return Err(format!("node #{id} has different links in the collecting run (parent {gp:?} children {gk:?}) and the GC-free run (parent {pp:?} children {pk:?})"));
            }
        }
    }
    if g.collections > 0 {
        st.label_n("collections run", g.collections as u64);
    }
    if g.collected > 0 {
        st.label("some node was collected");
    }
    if g.detached > 0 {
        st.label("a script detached an ancestor of the script element");
    }
    if g.mattered > 0 {
        st.label(match case {
            Case::Html(tc) if tc.cfg.ctx.is_some() => "fragment: a traced handle was disconnected from the document",
            Case::Html(_) => "document: a traced handle was disconnected from the document",
            Case::Xml { .. } => "xml: a traced handle was disconnected from the document",
            Case::HtmlScripted { .. } => "html+script: a traced handle was disconnected from the document",
            Case::XmlScripted { .. } => "xml+script: a traced handle was disconnected from the document",
            Case::XmlTokens { .. } => "xml tokens: a traced handle was disconnected from the document",
        });
        st.nontrivial(hash64(case), || serde_json::to_value(case).unwrap());
    }
    Ok(())
}

pub fn decode(s: &mut Src) -> Case {
    if s.chance(24) {
        // hand-fed tokens: also sequences the XML tokenizer never produces (NullCharacter,
        // tokens after EndOfFile, end tags without start tags)
        let n = s.range(1, 14);
        let mut toks = vec![];
        for _ in 0..n {
            let name = s.pick(&["a", "b", "script", "c"]).to_string();
            toks.push(match s.weighted(&[10, 4, 6, 2, 5, 2, 1, 1, 2, 2, 6]) {
                0 => XTok::Start(name),
                1 => XTok::Empty(name),
                2 => XTok::End(name),
                3 => XTok::Short,
                4 => XTok::Chars(s.pick(&["t", " ", "xy"]).to_string()),
                5 => XTok::Comment,
                6 => XTok::Pi,
                7 => XTok::Doctype,
                8 => XTok::Nul,
                9 => XTok::Eof,
                _ => XTok::Start("script".into()),
            });
            if matches!(toks.last(), Some(XTok::Start(n)) if n == "script") && s.chance(200) {
                toks.push(XTok::End("script".into()));
            }
        }
        let actions = (0..3).map(|_| if s.chance(80) { 16 + s.below(32) as u8 } else { s.below(4) as u8 }).collect();
        return Case::XmlTokens { toks, actions };
    }
    if s.chance(40) {
        // XML with script elements and a detaching script
        let d = gxml::gen_xml(s, 10);
        let mut text = d.text;
        let k = s.range(1, 3);
        for _ in 0..k {
            let cs: Vec<char> = text.chars().collect();
            // insert after some '>' so that it lands in element content
            let gts: Vec<usize> = cs.iter().enumerate().filter(|(_, c)| **c == '>').map(|(i, _)| i + 1).collect();
            let at = if gts.is_empty() { cs.len() } else { gts[s.below(gts.len())] };
            let ins = *s.pick(&["<script/>", "<script></script>", "<script>x</script>t", "<a><script/>u<b/></a>"]);
            text = cs[..at].iter().collect::<String>() + ins + &cs[at..].iter().collect::<String>();
        }
        let n = text.chars().count();
        let cuts = chunks::gen_cuts(s, n);
        let actions = (0..3).map(|_| if s.chance(80) { 16 + s.below(32) as u8 } else { s.below(4) as u8 }).collect();
        return Case::XmlScripted { chunks: chunks::chunk_str(&text, &cuts), actions };
    }
    if s.chance(60) {
        let mut tc = gen_tree_case(s, true, 30);
        let k = s.range(1, 3);
        for _ in 0..k {
            let cs: Vec<char> = tc.input.chars().collect();
            let at = s.below(cs.len() + 1);
            let ins = *s.pick(&[
                "<script></script>", "<b><script>x</script>", "<p><i><script></script>y", "<table><tr><td><script></script>", "<svg><script></script>",
                "<a><div><script></script></div>z",
                // pointers that are neither on the stack nor in the formatting list while a
                // template is open (head pointer, form pointer), consulted again after it closes
                "<template><script></script></template>", "</head><template><script></script></template><link>",
                "<head></head><template><script></script></template><meta>", "<form><template><script></script></template><input>",
                "<table><form><template><script></script></template></table><input>", "</head><template><b><script></script></b></template><title>t</title>",
                "<p><b></p><template><script></script></template>x",
            ]);
            tc.input = cs[..at].iter().collect::<String>() + ins + &cs[at..].iter().collect::<String>();
        }
        let n = tc.input.chars().count();
        let cuts = chunks::gen_cuts(s, n);
        tc.chunks = chunks::chunk_str(&tc.input, &cuts);
        let actions = (0..3).map(|_| if s.chance(100) { 16 + s.below(64) as u8 } else { s.below(5) as u8 }).collect();
        return Case::HtmlScripted { tree: tc, actions };
    }
    if s.chance(30) {
        let text = gxml::gen_xml_noisy(s, 10);
        let n = text.chars().count();
        let cuts: Vec<usize> = if s.chance(200) { (1..n).collect() } else { chunks::gen_cuts(s, n) };
        return Case::Xml { chunks: chunks::chunk_str(&text, &cuts) };
    }
    let mut tc = gen_tree_case(s, true, 40);
    // bias to detaching scenarios
    if s.chance(120) {
        let pre = *s.pick(&[
            "<b><i><p>x</b>y", "<a><div><a>", "<p><b><frameset>", "<form><div></form><frameset>", "<table><b><tr><td>x</b>",
            "<table><a><td>x</a>", "<b><b><b><b><p></b></b></b></b>", "<template><b><p></b></template>", "<a><table><a>",
            "<i><table><tbody><b>x</i>", "<form><table><form><input type=hidden>", "<nobr><nobr><nobr>", "<head><template>",
            "<select><option><b>", "<svg><b><p>", "<button><b><p><button>", "<b><table><td></b><i>", "<font><p><font>",
        ]);
        tc.input = format!("{pre}{}", tc.input);
    }
    let n = tc.input.chars().count();
    // one character per chunk most of the time: collections at every possible point
    let cuts: Vec<usize> = if s.chance(190) { (1..n).collect() } else { chunks::gen_cuts(s, n) };
    tc.chunks = chunks::chunk_str(&tc.input, &cuts);
    Case::Html(tc)
}

pub fn run(ctx: &Ctx) -> Report {
    let mut rep = Report::new(
        "Grammar-generated HTML (documents and fragments under ~50 contexts; biased to adoption agency, frameset replacing a body that holds formatting/form elements, foster parenting, templates, never-inserted context elements) and XML (also as hand-fed token sequences straight into xml5ever's tree builder, incl. NullCharacter and tokens after EndOfFile), fed one character per chunk (so a collection runs at every possible suspension point, incl. Script and EncodingIndicator returns) into ModelDom in GC mode: after every feed() return the harness calls trace_handles, takes roots = traced handles + the document + the script element just handed to the caller, closes them under DOM connectedness (parent, children, template contents <-> host) and marks every other node collected. A simulated script runs at script pauses in the 'scripted' cases: it detaches the k-th ancestor of the script element, or a set of its ancestors, each from its own parent (both in the collecting and in the GC-free run), so that open elements, formatting elements and pointers the builder still needs are no longer connected to the document. Oracle: no later sink call receives a collected handle (incl. same_node/elem_name), and the final tree equals the tree of a GC-free run. Non-trivial: at some collection a traced handle was not connected to the document (tracing mattered); distinct by case hash.",
    );
    report_known(ctx, &mut rep, &|v| replay(&ctx.strict_clone(), v));
    run_regressions(ctx, &mut rep, &|v| replay(&ctx.strict_clone(), v));
    let out = run_random(ctx.seed, ctx.tier.pick(1_000_000, 15_000_000), 1500, decode, check);
    rep.absorb(out);
    rep.need("document: a traced handle was disconnected from the document", 300);
    rep.need("fragment: a traced handle was disconnected from the document", 300);
    rep.need("some node was collected", 300);
    rep.need("html+script: a traced handle was disconnected from the document", 300);
    rep.need("xml+script: a traced handle was disconnected from the document", 300);
    rep
}

pub fn replay(_ctx: &Ctx, v: &Value) -> Result<(), String> {
    let case: Case = serde_json::from_value(v.clone()).map_err(|e| format!("bad case: {e}"))?;
    let mut st = Stats::default();
    check(&case, &mut st)
}
