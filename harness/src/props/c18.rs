//! C18 — trace_handles reports every node the tree builder still needs.
//! ModelDom in GC mode: at every suspension point untraced, disconnected nodes
//! are collected; any later use of a collected handle is a violation, and the
//! final tree must equal the tree of a GC-free run.

use crate::engine::*;
use crate::gen::cases::{gen_tree_case, TreeCase};
use crate::gen::{chunks, xml as gxml};
use crate::sinks::canon::{first_diff, CanonOpts};
use crate::sinks::drive::{drive, drive_xml, Pause, XmlCfg};
use crate::sinks::model::{model_canon, Id, ModelDom, DOC};
use html5ever::tree_builder::Tracer;
use serde::{Deserialize, Serialize};
use serde_json::Value;
use std::cell::RefCell;

#[derive(Serialize, Deserialize, Clone, Debug, Hash, PartialEq, Eq)]
pub enum Case {
    Html(TreeCase),
    Xml { chunks: Vec<String> },
}

struct Collect(RefCell<Vec<Id>>);
impl Tracer for Collect {
    type Handle = Id;
    fn trace_handle(&self, node: &Id) {
        self.0.borrow_mut().push(*node);
    }
}

pub fn check(case: &Case, st: &mut Stats) -> Result<(), String> {
    st.eval();
    let mut mattered_total = 0usize;
    let mut collected_total = 0usize;
    let mut collections = 0usize;
    let (gc_dom, plain_dom) = match case {
        Case::Html(tc) => {
            let (gc, _, _) = drive(ModelDom::new(), &tc.cfg, &tc.chunks, |parser, pause, handle, _| {
                let tracer = Collect(RefCell::new(vec![]));
                parser.tokenizer.sink.trace_handles(&tracer);
                let mut roots = tracer.0.into_inner();
                roots.push(DOC);
                if let (Pause::Script, Some(h)) = (pause, handle) {
                    roots.push(*h); // the caller holds the script element it was handed
                }
                let (c, m) = parser.tokenizer.sink.sink.collect(&roots);
                collected_total += c;
                mattered_total += m;
                collections += 1;
            });
            let (plain, _, _) = drive(ModelDom::new(), &tc.cfg, &tc.chunks, |_, _, _, _| {});
            (gc, plain)
        },
        Case::Xml { chunks: ch } => {
            let cfg = XmlCfg::default();
            let (gc, _) = drive_xml(ModelDom::new(), &cfg, ch, |parser| {
                let tracer = Collect(RefCell::new(vec![]));
                parser.tokenizer.sink.trace_handles(&tracer);
                let mut roots = tracer.0.into_inner();
                roots.push(DOC);
                let (c, m) = parser.tokenizer.sink.sink.collect(&roots);
                collected_total += c;
                mattered_total += m;
                collections += 1;
            });
            let (plain, _) = drive_xml(ModelDom::new(), &cfg, ch, |_| {});
            (gc, plain)
        },
    };
    if let Some(v) = gc_dom.violations.borrow().iter().find(|v| v.contains("already collected")) {
        return Err(format!(
            "the tree builder used a node that trace_handles did not report and that was not connected to a reported node: {v}"
        ));
    }
    let a = model_canon(&plain_dom, DOC, CanonOpts::default());
    let b = model_canon(&gc_dom, DOC, CanonOpts::default());
    if a != b {
        return Err(format!("tree of the collecting run differs from the GC-free run: {}", first_diff(&a, &b)));
    }
    if collections > 0 {
        st.label_n("collections run", collections as u64);
    }
    if collected_total > 0 {
        st.label("some node was collected");
    }
    if mattered_total > 0 {
        st.label(match case {
            Case::Html(tc) if tc.cfg.ctx.is_some() => "fragment: a traced handle was disconnected from the document",
            Case::Html(_) => "document: a traced handle was disconnected from the document",
            Case::Xml { .. } => "xml: a traced handle was disconnected from the document",
        });
        st.nontrivial(hash64(case), || serde_json::to_value(case).unwrap());
    }
    Ok(())
}

pub fn decode(s: &mut Src) -> Case {
    if s.chance(30) {
        let text = gxml::gen_xml_noisy(s, 10);
        let n = text.chars().count();
        let cuts: Vec<usize> = if s.chance(200) { (1..n).collect() } else { chunks::gen_cuts(s, n) };
        return Case::Xml { chunks: chunks::chunk_str(&text, &cuts) };
    }
    let mut tc = gen_tree_case(s, true, 40);
    // bias to detaching scenarios
    if s.chance(120) {
        let pre = *s.pick(&[
            "<b><i><p>x</b>y", "<a><div><a>", "<p><b><frameset>", "<form><div></form><frameset>", "<table><b><tr><td>x</b>",
            "<table><a><td>x</a>", "<b><b><b><b><p></b></b></b></b>", "<template><b><p></b></template>", "<a><table><a>",
            "<i><table><tbody><b>x</i>", "<form><table><form><input type=hidden>", "<nobr><nobr><nobr>", "<head><template>",
            "<select><option><b>", "<svg><b><p>", "<button><b><p><button>", "<b><table><td></b><i>", "<font><p><font>",
        ]);
        tc.input = format!("{pre}{}", tc.input);
    }
    let n = tc.input.chars().count();
    // one character per chunk most of the time: collections at every possible point
    let cuts: Vec<usize> = if s.chance(190) { (1..n).collect() } else { chunks::gen_cuts(s, n) };
    tc.chunks = chunks::chunk_str(&tc.input, &cuts);
    Case::Html(tc)
}

pub fn run(ctx: &Ctx) -> Report {
    let mut rep = Report::new(
        "Grammar-generated HTML (documents and fragments under ~50 contexts; biased to adoption agency, frameset replacing a body that holds formatting/form elements, foster parenting, templates, never-inserted context elements) and XML, fed one character per chunk (so a collection runs at every possible suspension point, incl. Script and EncodingIndicator returns) into ModelDom in GC mode: after every feed() return the harness calls trace_handles, takes roots = traced handles + the document + the script element just handed to the caller, closes them under DOM connectedness (parent, children, template contents <-> host) and marks every other node collected. Oracle: no later sink call receives a collected handle (incl. same_node/elem_name), and the final tree equals the tree of a GC-free run. Non-trivial: at some collection a traced handle was not connected to the document (tracing mattered); distinct by case hash.",
    );
    report_known(ctx, &mut rep, &|v| replay(&ctx.strict_clone(), v));
    run_regressions(ctx, &mut rep, &|v| replay(&ctx.strict_clone(), v));
    let out = run_random(ctx.seed, ctx.tier.pick(150_000, 6_000_000), 1500, decode, check);
    rep.absorb(out);
    rep.need("document: a traced handle was disconnected from the document", 300);
    rep.need("fragment: a traced handle was disconnected from the document", 300);
    rep.need("some node was collected", 300);
    rep
}

pub fn replay(_ctx: &Ctx, v: &Value) -> Result<(), String> {
    let case: Case = serde_json::from_value(v.clone()).map_err(|e| format!("bad case: {e}"))?;
    let mut st = Stats::default();
    check(&case, &mut st)
}
