//! C16 — XML namespaces resolve by lexical scope and lose no attribute.

use crate::engine::*;
use crate::gen::xml::{self as gxml, SrcAttr, TagInfo, XmlDoc, XMLNS_NS, XML_NS};
use crate::sinks::drive::{drive_xml, XmlCfg};
use crate::sinks::model::{MKind, ModelDom, DOC};
use serde_json::{json, Value};
use std::collections::HashMap;

#[derive(Clone, Debug, PartialEq, Eq)]
enum Res {
    Bound(String),
    Undeclared,
    Unbound,
}

fn is_decl(a: &SrcAttr) -> bool {
    a.prefix.as_deref() == Some("xmlns") || (a.prefix.is_none() && a.local == "xmlns")
}

fn qn(a: &SrcAttr) -> String {
    match &a.prefix {
        Some(p) => format!("{p}:{}", a.local),
        None => a.local.clone(),
    }
}

/// attributes of a tag after the tokenizer's duplicate removal (same qualified name: first wins)
fn dedup_qualified(attrs: &[SrcAttr]) -> Vec<SrcAttr> {
    let mut out: Vec<SrcAttr> = vec![];
    for a in attrs {
        if !out.iter().any(|b| qn(b) == qn(a)) {
            out.push(a.clone());
        }
    }
    out
}

/// declarations of one tag: key (None = default) → Some(uri) | None (un-declared)
fn decls_of(tag: &TagInfo) -> HashMap<Option<String>, Option<String>> {
    let mut m = HashMap::new();
    for a in dedup_qualified(&tag.attrs) {
        if !is_decl(&a) {
            continue;
        }
        let value = crate::gen::xml::uri_value(&a.value);
        if value == XMLNS_NS {
            continue; // may not be declared
        }
        let key = if a.prefix.is_none() { None } else { Some(a.local.clone()) };
        match key.as_deref() {
            Some("xml") | Some("xmlns") => continue, // fixed
            _ => {},
        }
        if m.contains_key(&key) {
            continue;
        }
        // attribute values in the generator's pools for URIs contain no references
        m.insert(key, if value.is_empty() { None } else { Some(value) });
    }
    m
}

fn lookup(prefix: Option<&str>, chain: &[&TagInfo]) -> Res {
    let key = prefix.map(|s| s.to_string());
    for t in chain {
        let d = decls_of(t);
        if let Some(v) = d.get(&key) {
            return match v {
                Some(u) => Res::Bound(u.clone()),
                None => Res::Undeclared,
            };
        }
    }
    match prefix {
        Some("xml") => Res::Bound(XML_NS.to_string()),
        Some("xmlns") => Res::Bound(XMLNS_NS.to_string()),
        None => Res::Undeclared,
        Some(_) => Res::Unbound,
    }
}

pub fn check(doc: &XmlDoc, st: &mut Stats) -> Result<(), String> {
    st.eval();
    let (dom, _) = drive_xml(ModelDom::new(), &XmlCfg::default(), &[doc.text.clone()], |_, _| {});
    if let Some(v) = dom.violations.borrow().first() {
        return Err(format!("sink contract violated while parsing: {v}"));
    }
    let nodes = dom.nodes.borrow();
    // id of each element node
    let id_of = |n: usize| -> Option<usize> {
        if let MKind::Element { attrs, .. } = &nodes[n].kind {
            for a in attrs {
                if &*a.name.local == "_id" && a.name.ns.is_empty() && a.name.prefix.is_none() {
                    return a.value.parse::<usize>().ok();
                }
            }
        }
        None
    };
    let mut seen_ids = vec![false; doc.tags.len()];
    let mut shadow = false;
    let mut sibling_use = false;
    let mut stack = vec![DOC];
    while let Some(n) = stack.pop() {
        for c in nodes[n].children.iter().rev() {
            stack.push(*c);
        }
        let MKind::Element { name, attrs, .. } = &nodes[n].kind else { continue };
        let Some(id) = id_of(n) else {
            st.label("element without _id (dropped by duplicate rule)");
            continue;
        };
        let Some(tag) = doc.tags.get(id) else {
            return Err(format!("element carries _id {id} that no source tag has"));
        };
        if seen_ids[id] {
            return Err(format!("two elements carry _id {id}"));
        }
        seen_ids[id] = true;
        // chain of source tags: own, then actual tree ancestors
        let mut chain: Vec<&TagInfo> = vec![tag];
        let mut p = nodes[n].parent;
        while let Some(pp) = p {
            if let Some(pid) = id_of(pp) {
                if let Some(t) = doc.tags.get(pid) {
                    chain.push(t);
                }
            }
            p = nodes[pp].parent;
        }
        // element name
        if name.prefix.as_ref().map(|p| p.to_string()) != tag.prefix || &*name.local != tag.local {
            return Err(format!(
                "element _id={id}: qualified name {:?}:{} differs from source {:?}:{}",
                name.prefix, &*name.local, tag.prefix, tag.local
            ));
        }
        match lookup(tag.prefix.as_deref(), &chain) {
            Res::Bound(u) => {
                if &*name.ns != u.as_str() {
                    return Err(format!(
                        "element _id={id} <{}>: namespace {:?}, but the nearest enclosing declaration binds its prefix {:?} to {:?}",
                        qn(&SrcAttr { prefix: tag.prefix.clone(), local: tag.local.clone(), value: String::new() }),
                        &*name.ns,
                        tag.prefix,
                        u
                    ));
                }
            },
            Res::Undeclared if tag.prefix.is_some() => st.label("element with unbound prefix (namespace not asserted)"),
            Res::Undeclared => {
                if !name.ns.is_empty() {
                    return Err(format!(
                        "element _id={id}: namespace {:?}, but its prefix {:?} is not bound (or was un-declared) in scope",
                        &*name.ns, tag.prefix
                    ));
                }
            },
            Res::Unbound => st.label("element with unbound prefix (namespace not asserted)"),
        }
        // classes
        if chain.len() > 1 {
            let own = decls_of(tag);
            for (k, _) in own.iter() {
                if chain[1..].iter().any(|t| decls_of(t).contains_key(k)) {
                    shadow = true;
                }
            }
        }
        // attributes: the output list must be a subsequence of the source tag's
        // non-declaration attributes; a source attribute may be missing only if an
        // earlier attribute of the tag has the same expanded name.
        let src: Vec<SrcAttr> = dedup_qualified(&tag.attrs).into_iter().filter(|a| !is_decl(a)).collect();
        let resolve = |a: &SrcAttr| -> Option<String> {
            if a.prefix.is_none() {
                Some(String::new())
            } else {
                match lookup(a.prefix.as_deref(), &chain) {
                    Res::Bound(u) => Some(u),
                    // a prefix that is unbound or explicitly un-bound: not asserted
                    Res::Undeclared | Res::Unbound => None,
                }
            }
        };
        let got: Vec<(Option<String>, String, String)> = attrs
            .iter()
            .map(|a| (a.name.prefix.as_ref().map(|p| p.to_string()), a.name.local.to_string(), a.name.ns.to_string()))
            .collect();
        let mut gi = 0;
        let mut earlier: Vec<(String, Option<String>)> = vec![]; // (local, resolved ns)
        for a in &src {
            let ns = resolve(a);
            if ns.is_none() {
                st.label("attribute with unbound prefix (namespace not asserted)");
            }
            let present = gi < got.len() && got[gi].0 == a.prefix && got[gi].1 == a.local;
            if present {
                if let Some(n) = &ns {
                    if &got[gi].2 != n {
                        return Err(format!(
                            "attribute {} of element _id={id}: namespace {:?}, but the declarations in scope bind its prefix to {n:?}",
                            qn(a),
                            got[gi].2
                        ));
                    }
                }
                gi += 1;
            } else {
                // dropped: allowed only if an earlier attribute has the same expanded name
                let justified = match &ns {
                    Some(n) => earlier.iter().any(|(l, en)| l == &a.local && (en.as_ref() == Some(n) || en.is_none())),
                    None => true,
                };
                if !justified {
                    return Err(format!(
                        "attribute {} of element _id={id} was dropped although no earlier attribute of the tag has the same expanded name; output attributes {got:?}",
                        qn(a)
                    ));
                }
                st.label("attribute dropped: same expanded name as an earlier one");
            }
            earlier.push((a.local.clone(), ns));
        }
        if gi != got.len() {
            return Err(format!(
                "element _id={id}: output attributes {got:?} are not a subsequence of the source attributes {:?}",
                src.iter().map(qn).collect::<Vec<_>>()
            ));
        }
        // sibling use: an earlier sibling declared a binding this element's prefix would use
        if let Some(par) = nodes[n].parent {
            for s in &nodes[par].children {
                if *s == n {
                    break;
                }
                if let Some(sid) = id_of(*s) {
                    if let Some(stag) = doc.tags.get(sid) {
                        let key = tag.prefix.clone();
                        if decls_of(stag).contains_key(&key) {
                            sibling_use = true;
                        }
                    }
                }
            }
        }
    }
    if shadow {
        st.label("binding shadowed or un-declared on a nested element");
    }
    if sibling_use {
        st.label("element follows a sibling that declared the binding it uses");
    }
    if shadow || sibling_use {
        st.nontrivial(hash64(&doc.text), || json!({"text": doc.text}));
    }
    Ok(())
}

// ---------------------------------------------------------------------------
// enumerated two-level family

fn attr(prefix: Option<&str>, local: &str, value: &str) -> SrcAttr {
    SrcAttr { prefix: prefix.map(|s| s.to_string()), local: local.into(), value: value.into() }
}

fn render(tags: &mut Vec<TagInfo>, out: &mut String, prefix: Option<&str>, local: &str, mut attrs: Vec<SrcAttr>, empty: bool) {
    let id = tags.len();
    attrs.push(attr(None, "_id", &id.to_string()));
    out.push('<');
    if let Some(p) = prefix {
        out.push_str(p);
        out.push(':');
    }
    out.push_str(local);
    for a in &attrs {
        out.push(' ');
        out.push_str(&qn(a));
        out.push_str(&format!("=\"{}\"", a.value));
    }
    out.push_str(if empty { "/>" } else { ">" });
    tags.push(TagInfo {
        id,
        prefix: prefix.map(|s| s.to_string()),
        local: local.into(),
        attrs,
        kind: if empty { "empty".into() } else { "start".into() },
    });
}

pub fn family() -> Vec<XmlDoc> {
    let decl_opts: Vec<Vec<SrcAttr>> = vec![
        vec![],
        vec![attr(None, "xmlns", "u1")],
        vec![attr(None, "xmlns", "")],
        vec![attr(Some("xmlns"), "a", "u1")],
        vec![attr(Some("xmlns"), "a", "")],
        vec![attr(Some("xmlns"), "a", "u2"), attr(None, "xmlns", "u2")],
        vec![attr(Some("xmlns"), "xml", "u1")],
        vec![attr(Some("xmlns"), "a", XMLNS_NS)],
    ];
    let prefixes: [Option<&str>; 3] = [None, Some("a"), Some("xml")];
    let child_kinds = ["normal", "empty", "missing-end", "short-end", "mismatched-end", "script-empty"];
    let child_attrs: Vec<Vec<SrcAttr>> = vec![
        vec![],
        vec![attr(Some("a"), "y", "1"), attr(None, "y", "2")],
        vec![attr(None, "y", "2"), attr(Some("a"), "y", "1")],
        vec![attr(Some("xml"), "lang", "en"), attr(Some("a"), "xmlns", "v")],
    ];
    let mut v = vec![];
    for pd in &decl_opts {
        for cd in &decl_opts {
            for cp in prefixes {
                for ck in child_kinds {
                    for ca in &child_attrs {
                        for sp in prefixes {
                            let mut tags = vec![];
                            let mut out = String::new();
                            render(&mut tags, &mut out, None, "r", pd.clone(), false);
                            let mut attrs = cd.clone();
                            attrs.extend(ca.clone());
                            let local = if ck == "script-empty" { "script" } else { "c" };
                            let empty = ck == "empty" || ck == "script-empty";
                            render(&mut tags, &mut out, cp, local, attrs, empty);
                            if !empty {
                                // grandchild inside the child
                                render(&mut tags, &mut out, sp, "g", vec![], true);
                                match ck {
                                    "normal" => {
                                        out.push_str("</");
                                        if let Some(p) = cp {
                                            out.push_str(p);
                                            out.push(':');
                                        }
                                        out.push_str("c>");
                                    },
                                    "short-end" => out.push_str("</>"),
                                    "mismatched-end" => out.push_str("</zz>"),
                                    _ => {},
                                }
                            }
                            // following sibling (or nested, when the end tag is missing)
                            render(&mut tags, &mut out, sp, "s", vec![attr(Some("a"), "z", "3")], true);
                            out.push_str("</r>");
                            v.push(XmlDoc { text: out, tags });
                        }
                    }
                }
            }
        }
    }
    v
}

pub fn decode(s: &mut Src) -> XmlDoc {
    gxml::gen_xml(s, 14)
}

pub fn run(ctx: &Ctx) -> Report {
    let mut rep = Report::new(
        "Generated XML documents (AST of elements with prefix/local from small pools, xmlns / xmlns:p declarations with URIs from {u1,u2,\"\",XML,XMLNS}, shadowing and un-declaration, attributes in random order incl. same expanded name under different prefixes, a unique _id attribute per element; start/end/empty/short end tags, missing and mismatched end tags; text, comments, PIs, CDATA, references) are parsed into ModelDom. Oracle: each output element is mapped to its source tag through _id; the expected namespace of the element and of each attribute is the resolution of its prefix through the declarations on its own source tag, then on the source tags of its ACTUAL tree ancestors (innermost first), then the fixed xml/xmlns bindings; default namespace for unprefixed elements only; unprefixed attributes none; empty declarations un-bind; declaring xml/xmlns or the xmlns URI has no effect; the attribute list must be the source tag's non-declaration attributes minus those whose expanded name equals an earlier one's. Because the chain is taken from the output tree the oracle is valid under any error recovery and enforces 'visible to descendants only'. Plus an enumerated two-level family (8 parent declaration shapes x 8 child declaration shapes x 3 child prefixes x 6 child tag kinds x 4 attribute lists x 3 sibling prefixes). Elements/attributes with an unbound prefix are not asserted (counted). Non-trivial: a binding is shadowed or un-declared on a nested element, or an element follows a sibling that declared a binding for its prefix; distinct by document text.",
    );
    rep.assume("namespace declarations themselves (xmlns, xmlns:p) are not 'attributes' in the sense of the attribute-loss clause: xml5ever consumes them");
    report_known(ctx, &mut rep, &|v| replay(&ctx.strict_clone(), v));
    run_regressions(ctx, &mut rep, &|v| replay(&ctx.strict_clone(), v));
    let fam = family();
    let out = run_exhaustive(fam.len() as u64, |i, st| {
        let d = &fam[i as usize];
        check(d, st).map_err(|what| Failure { case: serde_json::to_value(d).unwrap(), what })
    });
    rep.absorb(out);
    rep.extra.insert("enumerated_family".into(), json!({"documents": fam.len()}));
    let out = run_random(ctx.seed, ctx.tier.pick(4_000_000, 40_000_000), 1500, decode, check);
    rep.absorb(out);
    rep.need("binding shadowed or un-declared on a nested element", 500);
    rep.need("element follows a sibling that declared the binding it uses", 500);
    rep.need("attribute dropped: same expanded name as an earlier one", 100);
    rep
}

pub fn replay(_ctx: &Ctx, v: &Value) -> Result<(), String> {
    let case: XmlDoc = serde_json::from_value(v.clone()).map_err(|e| format!("bad case: {e}"))?;
    let mut st = Stats::default();
    check(&case, &mut st)
}
