//! C10 — byte-stream front ends decode exactly like a whole-input lossy decode.

use crate::engine::*;
use crate::gen::{bytes, chunks};
use crate::sinks::canon::{rcdom_canon, CanonOpts};
use markup5ever_rcdom::RcDom;
use serde::{Deserialize, Serialize};
use serde_json::{json, Value};
use std::borrow::Cow;
use tendril::stream::{LossyDecoder, TendrilSink, Utf8LossyDecoder};
use tendril::{ByteTendril, StrTendril};

#[derive(Serialize, Deserialize, Clone, Debug, Hash)]
pub struct Case {
    /// "utf8" or an encoding_rs label
    pub encoding: String,
    /// chunks as hex strings
    pub chunks: Vec<String>,
    /// also compare parser trees (HTML and XML drivers)
    pub parse: bool,
}

fn hex(b: &[u8]) -> String {
    b.iter().map(|x| format!("{x:02x}")).collect()
}
fn unhex(s: &str) -> Vec<u8> {
    (0..s.len() / 2)
        .map(|i| u8::from_str_radix(&s[2 * i..2 * i + 2], 16).unwrap_or(0))
        .collect()
}

#[derive(Debug, PartialEq, Eq, Clone)]
enum Item {
    Ch(char),
    Err,
}

#[derive(Default)]
struct Rec {
    items: Vec<Item>,
    bad_utf8: bool,
    empty_process: u32,
}

impl TendrilSink<tendril::fmt::UTF8> for Rec {
    fn process(&mut self, t: StrTendril) {
        if std::str::from_utf8(t.as_bytes()).is_err() {
            self.bad_utf8 = true;
        }
        if t.is_empty() {
            self.empty_process += 1;
        }
        for c in String::from_utf8_lossy(t.as_bytes()).chars() {
            self.items.push(Item::Ch(c));
        }
    }
    fn error(&mut self, _desc: Cow<'static, str>) {
        self.items.push(Item::Err);
    }
    type Output = Rec;
    fn finish(self) -> Rec {
        self
    }
}

/// Expected item stream for UTF-8: std's chunk iterator (independent decoder).
fn expected_utf8(all: &[u8]) -> Vec<Item> {
    let mut v = vec![];
    for ch in all.utf8_chunks() {
        for c in ch.valid().chars() {
            v.push(Item::Ch(c));
        }
        if !ch.invalid().is_empty() {
            v.push(Item::Err);
            v.push(Item::Ch('\u{FFFD}'));
        }
    }
    v
}

fn show(items: &[Item]) -> String {
    items
        .iter()
        .map(|i| match i {
            Item::Ch(c) => format!("{}", c.escape_default()),
            Item::Err => "[ERR]".to_string(),
        })
        .collect()
}

fn check_utf8(chunks_: &[Vec<u8>], parse: bool, st: &mut Stats) -> Result<(), String> {
    let all: Vec<u8> = chunks_.concat();
    let mut dec = Utf8LossyDecoder::new(Rec::default());
    for c in chunks_ {
        dec.process(ByteTendril::from_slice(c));
    }
    let rec = dec.finish();
    if rec.bad_utf8 {
        return Err("inner sink received a tendril that is not valid UTF-8".into());
    }
    let exp = expected_utf8(&all);
    // the io::Read front end (TendrilSink::read_from, 4 KiB buffer) with short reads
    if parse || all.len() > 64 {
        struct ChunkedReader<'a> {
            chunks: &'a [Vec<u8>],
            i: usize,
            off: usize,
            /// schedule of reads that first fail with ErrorKind::Interrupted (which
            /// read_from documents as retried): bit k = the k-th read call
            intr: u64,
            calls: u32,
            last_intr: bool,
        }
        impl<'a> std::io::Read for ChunkedReader<'a> {
            fn read(&mut self, buf: &mut [u8]) -> std::io::Result<usize> {
                let k = self.calls;
                self.calls += 1;
                if !self.last_intr && (self.intr >> (k % 64)) & 1 == 1 {
                    self.last_intr = true;
                    return Err(std::io::Error::new(std::io::ErrorKind::Interrupted, "EINTR"));
                }
                self.last_intr = false;
                while self.i < self.chunks.len() && self.off >= self.chunks[self.i].len() {
                    self.i += 1;
                    self.off = 0;
                }
                if self.i >= self.chunks.len() {
                    return Ok(0);
                }
                let c = &self.chunks[self.i][self.off..];
                let n = c.len().min(buf.len());
                buf[..n].copy_from_slice(&c[..n]);
                self.off += n;
                Ok(n)
            }
        }
        // deterministic per case: half of the cases see no interruption, the others ~1/4 of the reads
        let h = hash64(&chunks_);
        let intr = if h >> 63 == 0 { 0 } else { h & (h >> 7) };
        if intr != 0 {
            st.label("read_from with Interrupted reads");
        }
        let mut r = ChunkedReader { chunks: chunks_, i: 0, off: 0, intr, calls: 0, last_intr: false };
        let rec2 = Utf8LossyDecoder::new(Rec::default()).read_from(&mut r).map_err(|e| format!("read_from: {e}"))?;
        if rec2.items != exp {
            return Err(format!(
                "read_from() stream differs from whole-input lossy decode:\n got {}\n exp {}",
                show(&rec2.items[..rec2.items.len().min(60)]),
                show(&exp[..exp.len().min(60)])
            ));
        }
    }
    // the building blocks themselves (public API): Tendril::<Bytes>::decode_utf8_lossy per chunk and
    // IncompleteUtf8::try_complete for a sequence cut by a chunk boundary, driven by hand
    {
        let mut out = String::new();
        let mut incomplete: Option<tendril::IncompleteUtf8> = None;
        for c in chunks_ {
            let mut t = ByteTendril::from_slice(c);
            if let Some(mut inc) = incomplete.take() {
                match inc.try_complete(t, |s| out.push_str(&s)) {
                    Ok(rest) => t = rest,
                    Err(()) => {
                        // not enough input yet: the bytes were taken into the buffer
                        incomplete = Some(inc);
                        continue;
                    },
                }
            }
            incomplete = t.decode_utf8_lossy(|s| out.push_str(&s));
        }
        if incomplete.is_some() {
            out.push('\u{FFFD}');
        }
        let want = String::from_utf8_lossy(&all);
        if out != want {
            return Err(format!(
                "decode_utf8_lossy / IncompleteUtf8::try_complete driven by hand give {out:?}, whole-input lossy decode {want:?}"
            ));
        }
    }
    if rec.items != exp {
        return Err(format!(
            "decoded stream differs from whole-input lossy decode:\n got {}\n exp {}",
            show(&rec.items),
            show(&exp)
        ));
    }
    // cross-check the expectation itself against from_utf8_lossy
    let lossy = String::from_utf8_lossy(&all).to_string();
    let exp_s: String = exp
        .iter()
        .filter_map(|i| if let Item::Ch(c) = i { Some(*c) } else { None })
        .collect();
    if lossy != exp_s {
        return Err("harness self-check: utf8_chunks and from_utf8_lossy disagree".into());
    }
    // non-trivial: an ill-formed or incomplete sequence straddles a cut
    let mut pos = 0;
    let mut cutset = vec![];
    for c in chunks_ {
        pos += c.len();
        cutset.push(pos);
    }
    let mut off = 0;
    let mut straddle = false;
    let mut straddle_ok = false;
    for ch in all.utf8_chunks() {
        // valid multi-byte chars split by a cut
        let mut o = off;
        for c in ch.valid().chars() {
            let l = c.len_utf8();
            if l > 1 && cutset.iter().any(|&k| k > o && k < o + l) {
                straddle_ok = true;
            }
            o += l;
        }
        off += ch.valid().len();
        let il = ch.invalid().len();
        if il > 0 && cutset.iter().any(|&k| k > off.saturating_sub(1) && k < off + il + 1 && k > 0 && k < all.len()) {
            straddle = true;
        }
        off += il;
    }
    if straddle {
        st.label("ill-formed sequence at/straddling a cut");
    }
    if straddle_ok {
        st.label("valid multi-byte char split by a cut");
    }
    if chunks_.iter().any(|c| c.is_empty()) {
        st.label("empty chunk");
    }
    if parse {
        st.label("parser tree compared (html+xml)");
        // HTML driver
        let mut p = html5ever::parse_document(RcDom::default(), Default::default()).from_utf8();
        for c in chunks_ {
            p.process(ByteTendril::from_slice(c));
        }
        let dom = p.finish();
        let dom2 = html5ever::parse_document(RcDom::default(), Default::default()).one(StrTendril::from(lossy.as_str()));
        let (a, b) = (
            rcdom_canon(&dom.document, CanonOpts::default()),
            rcdom_canon(&dom2.document, CanonOpts::default()),
        );
        if a != b {
            return Err(format!(
                "HTML tree via from_utf8() differs from tree of the lossy string: {}",
                crate::sinks::canon::first_diff(&a, &b)
            ));
        }
        let mut p = xml5ever::driver::parse_document(RcDom::default(), Default::default()).from_utf8();
        for c in chunks_ {
            p.process(ByteTendril::from_slice(c));
        }
        let dom = p.finish();
        let dom2 =
            xml5ever::driver::parse_document(RcDom::default(), Default::default()).one(StrTendril::from(lossy.as_str()));
        let (a, b) = (
            rcdom_canon(&dom.document, CanonOpts::default()),
            rcdom_canon(&dom2.document, CanonOpts::default()),
        );
        if a != b {
            return Err(format!(
                "XML tree via from_utf8() differs from tree of the lossy string: {}",
                crate::sinks::canon::first_diff(&a, &b)
            ));
        }
    }
    if straddle || straddle_ok {
        let h = hash64(&chunks_);
        st.nontrivial(h, || json!({"encoding":"utf8","chunks": chunks_.iter().map(|c| hex(c)).collect::<Vec<_>>()}));
    }
    Ok(())
}

pub const LABELS: &[&str] = &[
    "big5", "euc-jp", "euc-kr", "gb18030", "gbk", "ibm866", "iso-2022-jp", "iso-8859-2", "iso-8859-3", "iso-8859-4",
    "iso-8859-5", "iso-8859-6", "iso-8859-7", "iso-8859-8", "iso-8859-8-i", "iso-8859-10", "iso-8859-13", "iso-8859-14",
    "iso-8859-15", "iso-8859-16", "koi8-r", "koi8-u", "macintosh", "replacement", "shift_jis", "utf-16be", "utf-16le",
    "utf-8", "windows-1250", "windows-1251", "windows-1252", "windows-1253", "windows-1254", "windows-1255",
    "windows-1256", "windows-1257", "windows-1258", "windows-874", "x-mac-cyrillic", "x-user-defined",
];

/// One-shot reference: decode the whole input at once with ample output space.
fn expected_enc(enc: &'static encoding_rs::Encoding, all: &[u8]) -> Vec<Item> {
    expected_dec(enc.new_decoder(), all)
}

/// 0: new_decoder (BOM sniffing), 1: BOM removal, 2: no BOM handling
fn decoder_of_kind(enc: &'static encoding_rs::Encoding, kind: u8) -> encoding_rs::Decoder {
    match kind {
        1 => enc.new_decoder_with_bom_removal(),
        2 => enc.new_decoder_without_bom_handling(),
        _ => enc.new_decoder(),
    }
}

fn expected_dec(mut d: encoding_rs::Decoder, all: &[u8]) -> Vec<Item> {
    let mut out = vec![];
    let cap = d.max_utf8_buffer_length(all.len()).unwrap_or(all.len() * 4 + 64) + 64;
    let mut buf = vec![0u8; cap];
    let mut input = all;
    loop {
        let (res, read, written) = d.decode_to_utf8_without_replacement(input, &mut buf, true);
        for c in std::str::from_utf8(&buf[..written]).expect("decoder output is UTF-8").chars() {
            out.push(Item::Ch(c));
        }
        input = &input[read..];
        match res {
            encoding_rs::DecoderResult::InputEmpty => break,
            encoding_rs::DecoderResult::OutputFull => continue,
            encoding_rs::DecoderResult::Malformed(_, _) => {
                out.push(Item::Err);
                out.push(Item::Ch('\u{FFFD}'));
            },
        }
    }
    out
}

fn check_enc(label: &str, chunks_: &[Vec<u8>], st: &mut Stats) -> Result<(), String> {
    let enc = encoding_rs::Encoding::for_label(label.as_bytes()).ok_or("unknown label")?;
    let all: Vec<u8> = chunks_.concat();
    let mut dec = LossyDecoder::new_encoding_rs(enc, Rec::default());
    for c in chunks_ {
        dec.process(ByteTendril::from_slice(c));
    }
    let rec = dec.finish();
    if rec.bad_utf8 {
        return Err("inner sink received a tendril that is not valid UTF-8".into());
    }
    let exp = if enc == encoding_rs::UTF_8 {
        // tendril's own UTF-8 path: no BOM handling, plain lossy decode
        expected_utf8(&all)
    } else {
        expected_enc(enc, &all)
    };
    // the caller-configured entry point: each kind of encoding_rs decoder (BOM sniffing, BOM
    // removal, no BOM handling), for UTF-8 too, against a one-shot decode by the same kind
    {
        let kind = (hash64(&(label, chunks_)) % 3) as u8;
        let mut dec = LossyDecoder::new_from_encoding_rs_decoder(decoder_of_kind(enc, kind), Rec::default());
        for c in chunks_ {
            dec.process(ByteTendril::from_slice(c));
        }
        let got = dec.finish();
        let want = expected_dec(decoder_of_kind(enc, kind), &all);
        if got.bad_utf8 {
            return Err("inner sink received a tendril that is not valid UTF-8 (new_from_encoding_rs_decoder)".into());
        }
        if got.items != want {
            let n = got.items.iter().zip(want.iter()).take_while(|(a, b)| a == b).count();
            let lo = n.saturating_sub(8);
            return Err(format!(
                "{label}: new_from_encoding_rs_decoder (decoder kind {kind}: 0 BOM sniffing, 1 BOM removal, 2 none) differs from the one-shot decode by the same kind of decoder at item {n}:\n got …{}\n exp …{}",
                show(&got.items[lo..got.items.len().min(n + 8)]),
                show(&want[lo..want.len().min(n + 8)]),
            ));
        }
        if all.starts_with(b"\xef\xbb\xbf") || all.starts_with(b"\xff\xfe") || all.starts_with(b"\xfe\xff") {
            st.label("encoding_rs: input starts with a BOM");
        }
    }
    if rec.items != exp {
        let n = rec.items.iter().zip(exp.iter()).take_while(|(a, b)| a == b).count();
        let lo = n.saturating_sub(8);
        return Err(format!(
            "{label}: chunked decode differs from one-shot decode at item {n}:\n got …{}\n exp …{}\n (lengths {} vs {})",
            show(&rec.items[lo..rec.items.len().min(n + 8)]),
            show(&exp[lo..exp.len().min(n + 8)]),
            rec.items.len(),
            exp.len()
        ));
    }
    // check one-shot reference against decode_to_string on the text level
    let (cow, _) = enc.new_decoder().decode_to_string_helper(&all);
    let exp_s: String = exp
        .iter()
        .filter_map(|i| if let Item::Ch(c) = i { Some(*c) } else { None })
        .collect();
    if cow != exp_s && enc != encoding_rs::UTF_8 {
        return Err("harness self-check: two one-shot decodes disagree".into());
    }
    let nerr = exp.iter().filter(|i| **i == Item::Err).count();
    let multi = chunks_.iter().filter(|c| !c.is_empty()).count() >= 2;
    if nerr > 0 {
        st.label("encoding_rs: malformed sequence present");
    }
    if all.len() > 8192 {
        st.label("encoding_rs: input > 8 KiB (output window)");
    }
    if chunks_.iter().any(|c| c.len() > 8192) {
        st.label("encoding_rs: a single chunk > 8 KiB");
    }
    if multi && (nerr > 0 || exp_s.chars().any(|c| c as u32 >= 0x80)) {
        st.label(&format!("enc:{}", enc.name()));
        st.nontrivial(hash64(&(label, chunks_)), || json!({"encoding":label,"chunks": chunks_.iter().map(|c| hex(c)).collect::<Vec<_>>()}));
    }
    Ok(())
}

trait DecodeHelper {
    fn decode_to_string_helper(self, all: &[u8]) -> (String, bool);
}
impl DecodeHelper for encoding_rs::Decoder {
    fn decode_to_string_helper(mut self, all: &[u8]) -> (String, bool) {
        let mut s = String::with_capacity(self.max_utf8_buffer_length(all.len()).unwrap_or(all.len() * 4 + 64) + 64);
        let (_r, _read, had) = self.decode_to_string(all, &mut s, true);
        (s, had)
    }
}

pub fn oracle(case: &Case, st: &mut Stats) -> Result<(), String> {
    st.eval();
    let ch: Vec<Vec<u8>> = case.chunks.iter().map(|c| unhex(c)).collect();
    if case.encoding == "utf8" {
        check_utf8(&ch, case.parse, st)
    } else {
        check_enc(&case.encoding, &ch, st)
    }
}

pub fn decode_utf8_case(s: &mut Src) -> Case {
    let mut b = bytes::gen_utf8ish(s, 40);
    if s.chance(12) && !b.is_empty() {
        // long input: crosses the 4 KiB buffer of read_from at an arbitrary phase
        let block = b.clone();
        let target = 4000 + s.below(5000);
        while b.len() < target {
            b.extend_from_slice(&block);
        }
        b.extend(bytes::gen_utf8ish(s, 6));
    }
    let parse = s.chance(64);
    if parse && s.chance(170) {
        // markup, so that the parser trees are not trivial: generated HTML or XML text with a few
        // ill-formed / truncated sequences dropped in
        let text = match s.below(3) {
            0 => crate::gen::html::gen_html(s, 14),
            1 => crate::gen::xml::xml_soup(s, 20),
            _ => crate::gen::xml::gen_xml(s, 8).text,
        };
        b = text.into_bytes();
        for _ in 0..s.below(4) {
            let at = s.below(b.len() + 1);
            let junk: &[u8] = *s.pick(&[&b"\xff"[..], &b"\xc3"[..], &b"\xe2\x82"[..], &b"\xf0\x9f\x98"[..], &b"\x80"[..], &b"\xed\xa0\x80"[..], &b"\xef\xbb\xbf"[..], &b"\xc0\xaf"[..]]);
            b.splice(at..at, junk.iter().copied());
        }
    }
    let cuts = chunks::gen_cuts(s, b.len());
    Case {
        encoding: "utf8".into(),
        chunks: chunks::apply_cuts(&b, &cuts).iter().map(|c| hex(c)).collect(),
        parse,
    }
}

fn gen_enc_bytes(s: &mut Src, label: &str) -> Vec<u8> {
    if s.chance(24) {
        // long input: a short block repeated past the 8 KiB output window
        let bl = 1 + s.below(40);
        let mut block = gen_enc_bytes_short(s, label, bl);
        if block.is_empty() {
            block.push(b'a');
        }
        let target = 6000 + s.below(14000);
        let mut out = Vec::with_capacity(target + block.len());
        while out.len() < target {
            out.extend_from_slice(&block);
        }
        out.extend(gen_enc_bytes_short(s, label, 6));
        return out;
    }
    let n = s.len(60);
    gen_enc_bytes_short(s, label, n)
}

fn gen_enc_bytes_short(s: &mut Src, label: &str, n: usize) -> Vec<u8> {
    let mut out = Vec::new();
    for _ in 0..n {
        match s.below(10) {
            0..=2 => out.push(*s.pick(b"aZ09 <>&\n")),
            3 | 4 => {
                // lead/trail structure of the multi-byte encodings
                out.push(0x81 + s.below(0x7E) as u8);
                if s.chance(200) {
                    out.push(0x30 + s.below(0xCF) as u8);
                }
            },
            5 => {
                if label == "iso-2022-jp" {
                    out.extend_from_slice(*s.pick(&[
                        &b"\x1b$B"[..],
                        &b"\x1b(B"[..],
                        &b"\x1b(J"[..],
                        &b"\x1b(I"[..],
                        &b"\x1b$@"[..],
                        &b"\x1b$"[..],
                        &b"\x1b"[..],
                        &b"\x0e"[..],
                    ]));
                } else if label.starts_with("utf-16") {
                    // surrogates, paired or lone
                    let hi = 0xD800 + s.below(0x400) as u16;
                    let lo = 0xDC00 + s.below(0x400) as u16;
                    let be = label == "utf-16be";
                    let push = |o: &mut Vec<u8>, u: u16| {
                        if be {
                            o.extend_from_slice(&u.to_be_bytes())
                        } else {
                            o.extend_from_slice(&u.to_le_bytes())
                        }
                    };
                    match s.below(3) {
                        0 => {
                            push(&mut out, hi);
                            push(&mut out, lo);
                        },
                        1 => push(&mut out, hi),
                        _ => push(&mut out, lo),
                    }
                } else if label == "gb18030" {
                    out.extend_from_slice(&[0x81 + s.below(0x7E) as u8, 0x30 + s.below(10) as u8, 0x81 + s.below(0x7E) as u8, 0x30 + s.below(10) as u8]);
                } else {
                    out.push(0x80 + s.below(0x80) as u8);
                }
            },
            6 => out.extend_from_slice(*s.pick(&[&b"\xef\xbb\xbf"[..], &b"\xff\xfe"[..], &b"\xfe\xff"[..]])),
            7 => out.push(0x80 + s.below(0x80) as u8),
            _ => out.push(s.byte()),
        }
    }
    out
}

pub fn decode_enc_case(s: &mut Src) -> Case {
    let label = *s.pick(LABELS);
    let mut b = gen_enc_bytes(s, label);
    if s.chance(50) {
        // a byte order mark (of this or another encoding) in front, possibly truncated
        let bom: &[u8] = *s.pick(&[&b"\xef\xbb\xbf"[..], &b"\xff\xfe"[..], &b"\xfe\xff"[..], &b"\xef\xbb"[..], &b"\xff"[..], &b"\xef\xbb\xbf\xef\xbb\xbf"[..]]);
        let mut v = bom.to_vec();
        v.extend_from_slice(&b);
        b = v;
    }
    let mut cuts = chunks::gen_cuts(s, b.len());
    if b.len() > 8192 && s.chance(128) {
        // at most one cut: some chunk alone overflows the decoder's output window
        cuts.truncate(s.below(2));
    }
    Case {
        encoding: label.into(),
        chunks: chunks::apply_cuts(&b, &cuts).iter().map(|c| hex(c)).collect(),
        parse: false,
    }
}

pub fn run(ctx: &Ctx) -> Report {
    let mut rep = Report::new(
        "(1) bounded-exhaustive: every byte string of length <= L over the 25 boundary bytes of the UTF-8 well-formedness table x every partition into chunks (2^(n-1)), through Utf8LossyDecoder into a recording sink, through the public building blocks Tendril::decode_utf8_lossy / IncompleteUtf8::try_complete driven by hand, (and through TendrilSink::read_from with short reads, half of the time with reads that first fail with ErrorKind::Interrupted; some inputs are repeated past the 4 KiB read buffer), compared item by item (characters and error calls, in order) with std's utf8_chunks()/from_utf8_lossy of the whole input; (2) random UTF-8-structured byte strings (<=40 units: ASCII, valid chars, truncated sequences, surrogates, overlongs, >10FFFF, stray continuations, BOM) x random cut multisets incl. empty chunks, 1/4 of them also parsed through parse_document(..).from_utf8() (HTML and XML drivers) and compared with the tree of the lossy string; (3) each of the 40 encoding_rs encodings: LossyDecoder::new_encoding_rs, and LossyDecoder::new_from_encoding_rs_decoder with each kind of decoder (BOM sniffing / BOM removal / no BOM handling, UTF-8 included), fed in chunks vs a one-shot decode of the whole input by the same kind of decoder (characters, malformed-sequence errors, pending state at end of stream), inputs biased to lead/trail/escape bytes, surrogates and >8 KiB lengths. Non-trivial: an ill-formed/incomplete sequence or a valid multi-byte character is adjacent to / split by a cut (UTF-8), or >=2 non-empty chunks with non-ASCII output or a malformed sequence (encoding_rs); distinct by hash of (encoding, chunk list).",
    );
    rep.assume("std::str::Utf8Chunks / String::from_utf8_lossy and encoding_rs's one-shot decode are the reference decoders");
    run_regressions(ctx, &mut rep, &|v| replay(&ctx.strict_clone(), v));

    // (1) exhaustive
    let l = ctx.tier.pick(4usize, 5usize);
    let mut offsets = vec![]; // (len, start index)
    let mut total = 0u64;
    for n in 0..=l {
        offsets.push(total);
        total += 25u64.pow(n as u32) * (1u64 << n.saturating_sub(1));
    }
    let out = run_exhaustive(total, |idx, st| {
        let n = (0..=l).rev().find(|&n| idx >= offsets[n]).unwrap();
        let mut k = idx - offsets[n];
        let parts = 1u64 << n.saturating_sub(1);
        let mask = k % parts;
        k /= parts;
        let mut b = Vec::with_capacity(n);
        for _ in 0..n {
            b.push(bytes::BOUNDARY[(k % 25) as usize]);
            k /= 25;
        }
        let ch = chunks::split_mask(&b, mask);
        st.eval();
        check_utf8(&ch, false, st).map_err(|what| Failure {
            case: serde_json::to_value(Case {
                encoding: "utf8".into(),
                chunks: ch.iter().map(|c| hex(c)).collect(),
                parse: false,
            })
            .unwrap(),
            what,
        })
    });
    let exhaustive_done = out.failures.is_empty();
    rep.absorb(out);
    rep.extra.insert(
        "exhaustive_part".into(),
        json!({"alphabet": 25, "max_len": l, "cases": total, "completed": exhaustive_done}),
    );
    rep.exhaustive = false; // only part (1) is a completed finite space; (2),(3) are sampled

    // (2) random utf-8
    let out = run_random(ctx.seed, ctx.tier.pick(2_000_000, 30_000_000), 400, decode_utf8_case, oracle);
    rep.absorb(out);
    // (3) encoding_rs
    let out = run_random(
        ctx.seed ^ 0x10,
        ctx.tier.pick(600_000, 10_000_000),
        600,
        decode_enc_case,
        oracle,
    );
    rep.absorb(out);
    rep.need("ill-formed sequence at/straddling a cut", 1000);
    rep.need("valid multi-byte char split by a cut", 1000);
    rep.need("parser tree compared (html+xml)", 1000);
    rep.need("encoding_rs: input > 8 KiB (output window)", 20);
    rep.need("read_from with Interrupted reads", 1000);
    rep.need("encoding_rs: a single chunk > 8 KiB", 20);
    rep.need("encoding_rs: input starts with a BOM", 200);
    rep
}

pub fn replay(_ctx: &Ctx, v: &Value) -> Result<(), String> {
    let case: Case = serde_json::from_value(v.clone()).map_err(|e| format!("bad case: {e}"))?;
    let mut st = Stats::default();
    oracle(&case, &mut st)
}
