//! C04 — parsing is total: no panic, no hang, all input consumed, one EOF.

use crate::engine::*;
use crate::gen::cases::gen_tree_case;
use crate::gen::{chunks, html as ghtml, xml as gxml};
use crate::sinks::drive::{ns_url, opts_of, TreeCfg, XmlCfg};
use crate::sinks::model::ModelDom;
use html5ever::tokenizer::{BufferQueue, Token, TokenSink, TokenSinkResult, Tokenizer};
use html5ever::tree_builder::{create_element, TreeBuilder, TreeSink};
use html5ever::{Attribute, LocalName, Namespace, QualName};
use markup5ever::TokenizerResult;
use markup5ever_rcdom::{RcDom, SerializableHandle};
use serde::{Deserialize, Serialize};
use serde_json::{json, Value};
use std::cell::Cell;
use std::io::Write;
use tendril::StrTendril;

#[derive(Serialize, Deserialize, Clone, Debug, Hash, PartialEq, Eq)]
pub enum Case {
    Html { cfg: TreeCfg, chunks: Vec<String>, rcdom: bool },
    Xml { cfg: XmlCfg, chunks: Vec<String>, rcdom: bool },
    /// pathological shape `kind` of size `n`, fed in chunks of `chunk` chars (0 = one piece); runs in a child process
    Patho { kind: String, n: usize, chunk: usize },
}

struct EofWatch<S> {
    inner: S,
    eof: Cell<u32>,
    after: Cell<u32>,
    tokens: Cell<u64>,
}

impl<S: TokenSink> TokenSink for EofWatch<S> {
    type Handle = S::Handle;
    fn process_token(&self, token: Token, line: u64) -> TokenSinkResult<S::Handle> {
        if self.eof.get() > 0 {
            self.after.set(self.after.get() + 1);
        }
        if matches!(token, Token::EOFToken) {
            self.eof.set(self.eof.get() + 1);
        }
        if !matches!(token, Token::ParseError(_)) {
            self.tokens.set(self.tokens.get() + 1);
        }
        self.inner.process_token(token, line)
    }
    fn end(&self) {
        self.inner.end()
    }
    fn adjusted_current_node_present_but_not_in_html_namespace(&self) -> bool {
        self.inner.adjusted_current_node_present_but_not_in_html_namespace()
    }
}

#[cfg(servo_html5ever_verif)]
fn set_budget(n: u64) {
    markup5ever::verif_hooks::set_budget(n);
}
#[cfg(servo_html5ever_verif)]
fn steps() -> u64 {
    markup5ever::verif_hooks::steps()
}
#[cfg(not(servo_html5ever_verif))]
fn set_budget(_n: u64) {}
#[cfg(not(servo_html5ever_verif))]
fn steps() -> u64 {
    0
}
pub fn hooks_enabled() -> bool {
    cfg!(servo_html5ever_verif)
}

/// Step budget for one feed()/end() call: generous multiple of the work the
/// drivers need (one tokenizer step per character at worst, a handful of tree
/// builder iterations per token).
fn budget(chars_available: usize) -> u64 {
    64 * chars_available as u64 + 4096
}

pub struct Outcome {
    pub tokens: u64,
    pub max_steps_per_char_x100: u64,
}

fn run_html<S: TreeSink>(sink: S, cfg: &TreeCfg, chunks_: &[String], after: impl FnOnce(S::Output)) -> Result<Outcome, String> {
    let opts = opts_of(cfg);
    let tb = match &cfg.ctx {
        None => TreeBuilder::new(sink, opts.tree_builder),
        Some(c) => {
            let name = QualName::new(None, Namespace::from(ns_url(&c.ns)), LocalName::from(c.local.as_str()));
            let attrs = c
                .attrs
                .iter()
                .map(|(k, v)| Attribute {
                    name: QualName::new(None, Namespace::from(""), LocalName::from(k.as_str())),
                    value: StrTendril::from(v.as_str()),
                })
                .collect();
            let ctx = create_element(&sink, name, attrs);
            let form = if cfg.form_ptr {
                Some(create_element(
                    &sink,
                    QualName::new(None, Namespace::from(ns_url("html")), LocalName::from("form")),
                    vec![],
                ))
            } else {
                None
            };
            TreeBuilder::new_for_fragment(sink, ctx, form, opts.tree_builder)
        },
    };
    let mut topts = opts.tokenizer.clone();
    if cfg.ctx.is_some() {
        topts.initial_state = Some(tb.tokenizer_state_for_context_elem(cfg.scripting));
    }
    let watch = EofWatch { inner: tb, eof: Cell::new(0), after: Cell::new(0), tokens: Cell::new(0) };
    let tok = Tokenizer::new(watch, topts);
    let input = BufferQueue::default();
    let mut worst = 0u64;
    let mut queued = 0usize;
    // the work of one call is bounded by the input seen so far (e.g. EOF pops every open element)
    let mut total = 0usize;
    for c in chunks_ {
        input.push_back(StrTendril::from(c.as_str()));
        queued += c.chars().count();
        total += c.chars().count();
        loop {
            set_budget(budget(total));
            let r = tok.feed(&input);
            if queued > 0 {
                worst = worst.max(steps() * 100 / (queued as u64 + 64));
            }
            match r {
                TokenizerResult::Done => {
                    if !input.is_empty() {
                        return Err("feed() returned Done but the input queue is not empty".into());
                    }
                    queued = 0;
                    break;
                },
                TokenizerResult::Script(_) | TokenizerResult::EncodingIndicator(_) => {},
            }
        }
    }
    let _ = queued;
    set_budget(budget(total + 64));
    tok.end();
    set_budget(u64::MAX);
    if tok.sink.eof.get() != 1 {
        return Err(format!("{} EOF tokens were delivered to the tree builder", tok.sink.eof.get()));
    }
    if tok.sink.after.get() != 0 {
        return Err(format!("{} token(s) delivered after the EOF token", tok.sink.after.get()));
    }
    let tokens = tok.sink.tokens.get();
    let out = tok.sink.inner.sink.finish();
    after(out);
    Ok(Outcome { tokens, max_steps_per_char_x100: worst })
}

mod xmlside {
    use super::*;
    use xml5ever::tokenizer::{ProcessResult, Token as XToken, TokenSink as XTokenSink, XmlTokenizer, XmlTokenizerOpts};
    use xml5ever::tree_builder::XmlTreeBuilder;

    pub struct XEofWatch<S> {
        pub inner: S,
        pub eof: Cell<u32>,
        pub after: Cell<u32>,
        pub tokens: Cell<u64>,
    }
    impl<S: XTokenSink> XTokenSink for XEofWatch<S> {
        type Handle = S::Handle;
        fn process_token(&self, token: XToken) -> ProcessResult<S::Handle> {
            if self.eof.get() > 0 {
                self.after.set(self.after.get() + 1);
            }
            if matches!(token, XToken::EndOfFile) {
                self.eof.set(self.eof.get() + 1);
            }
            if !matches!(token, XToken::ParseError(_)) {
                self.tokens.set(self.tokens.get() + 1);
            }
            self.inner.process_token(token)
        }
        fn end(&self) {
            self.inner.end()
        }
    }

    pub fn run_xml<S: TreeSink>(sink: S, cfg: &XmlCfg, chunks_: &[String], after: impl FnOnce(S::Output)) -> Result<Outcome, String> {
        let tb = XmlTreeBuilder::new(sink, Default::default());
        let watch = XEofWatch { inner: tb, eof: Cell::new(0), after: Cell::new(0), tokens: Cell::new(0) };
        let tok = XmlTokenizer::new(
            watch,
            XmlTokenizerOpts { exact_errors: cfg.exact_errors, discard_bom: cfg.discard_bom, profile: cfg.profile, initial_state: None },
        );
        let input = BufferQueue::default();
        let mut worst = 0u64;
        let mut total = 0usize;
        for c in chunks_ {
            input.push_back(StrTendril::from(c.as_str()));
            let n = c.chars().count();
            total += n;
            loop {
                set_budget(budget(total));
                let r = tok.feed(&input);
                if n > 0 {
                    worst = worst.max(steps() * 100 / (n as u64 + 64));
                }
                match r {
                    TokenizerResult::Script(_) => continue,
                    _ => break,
                }
            }
            if !input.is_empty() {
                return Err("xml feed() returned but the input queue is not empty".into());
            }
        }
        set_budget(budget(total + 64));
        tok.end();
        set_budget(u64::MAX);
        if tok.sink.eof.get() != 1 {
            return Err(format!("xml: {} EOF tokens were delivered to the tree builder", tok.sink.eof.get()));
        }
        if tok.sink.after.get() != 0 {
            return Err(format!("xml: {} token(s) delivered after the EOF token", tok.sink.after.get()));
        }
        let tokens = tok.sink.tokens.get();
        let out = tok.sink.inner.sink.finish();
        after(out);
        Ok(Outcome { tokens, max_steps_per_char_x100: worst })
    }
}

fn use_rcdom(dom: RcDom, html: bool) {
    // serializing and dropping the tree are part of "driven through the public API"
    let mut out = std::io::sink();
    let h: SerializableHandle = dom.document.clone().into();
    if html {
        let _ = html5ever::serialize(&mut out, &h, Default::default());
    } else {
        let _ = xml5ever::serialize::serialize(&mut out, &h, Default::default());
    }
    drop(dom);
}

pub fn check_inproc(case: &Case) -> Result<Outcome, String> {
    match case {
        Case::Html { cfg, chunks: ch, rcdom } => {
            if *rcdom {
                run_html(RcDom::default(), cfg, ch, |d| use_rcdom(d, true))
            } else {
                let o = run_html(ModelDom::for_cfg(cfg), cfg, ch, |d| {
                    // contract-abiding sink precondition: the sink saw no contract violation
                    drop(d);
                })?;
                Ok(o)
            }
        },
        Case::Xml { cfg, chunks: ch, rcdom } => {
            if *rcdom {
                xmlside::run_xml(RcDom::default(), cfg, ch, |d| use_rcdom(d, false))
            } else {
                xmlside::run_xml(ModelDom::new(), cfg, ch, drop)
            }
        },
        Case::Patho { kind, n, chunk } => {
            let (text, xml) = patho_text(kind, *n);
            let ch: Vec<String> = if *chunk == 0 {
                vec![text]
            } else {
                let cs: Vec<char> = text.chars().collect();
                cs.chunks(*chunk).map(|c| c.iter().collect()).collect()
            };
            if xml {
                xmlside::run_xml(RcDom::default(), &XmlCfg::default(), &ch, |d| use_rcdom(d, false))
            } else {
                let mut cfg = TreeCfg::default();
                if kind.starts_with("frag-") {
                    cfg.ctx = Some(crate::sinks::drive::CtxElem { ns: "html".into(), local: "table".into(), attrs: vec![] });
                }
                run_html(RcDom::default(), &cfg, &ch, |d| use_rcdom(d, true))
            }
        },
    }
}

pub const PATHO_KINDS: &[&str] = &[
    "nest:b", "nest:p", "nest:div", "nest:a", "nest:table", "nest:template", "nest:svg", "nest:math", "nest:nobr", "nest:li",
    "nest:dd", "nest:button", "nest:form", "nest:h1", "nest:option", "nest:optgroup", "nest:select", "nest:ruby", "nest:rt",
    "nest:font", "nest:td", "nest:tr", "nest:caption", "nest:frameset", "nest:html", "nest:body", "nest:head", "nest:title",
    "nest:textarea", "nest:plaintext", "nest:applet", "nest:annotation-xml", "nest:foreignObject", "nest:mi", "nest:x-y",
    "b_then_p", "a_table", "b_p_close", "formatting_storm", "noahs_ark", "option_clone_deep", "option_clone_wide", "attrs",
    "dup_attrs", "numref_dec", "numref_hex", "named_prefix", "text:a", "text:<", "text:&", "text:\r", "text:\0", "text:-", "text:]",
    "text:\u{feff}", "text:é", "comment_dashes", "comment_lt", "doctype_name", "doctype_public", "bogus_comment", "cdata", "end_tags",
    "end_tags_unmatched", "script_escapes", "table_text", "table_foster", "select_in_table", "frag-rows", "template_rows",
    "svg_breakout", "li_chain", "p_in_button", "xml:nest", "xml:attrs", "xml:ns", "xml:short_ends", "xml:text_amp", "xml:pi", "xml:comment",
    "xml:doctype", "xml:unclosed_attr", "xml:cdata",
];

/// (input text, is_xml)
pub fn patho_text(kind: &str, n: usize) -> (String, bool) {
    let rep = |s: &str, k: usize| s.repeat(k);
    if let Some(t) = kind.strip_prefix("nest:") {
        return (rep(&format!("<{t}>"), n), false);
    }
    if let Some(c) = kind.strip_prefix("text:") {
        return (rep(c, n), false);
    }
    let html = |s: String| (s, false);
    let xml = |s: String| (s, true);
    match kind {
        "b_then_p" => html(rep("<b>", n) + &rep("<p>", n)),
        "a_table" => html(rep("<a><table>", n)),
        "b_p_close" => html(rep("<b>", n / 2 + 1) + &rep("<p>", 8) + &rep("</b>", n / 2 + 1)),
        "formatting_storm" => html(rep("<b><i><u><s><em>", n / 5 + 1) + "<p>" + &rep("</b></i>", n / 5 + 1)),
        "noahs_ark" => html(rep("<b class=x>", n) + "<p>x" + &rep("</p><p>", 50)),
        "option_clone_deep" => html(format!("<select><selectedcontent></selectedcontent><option selected>{}</option>", rep("<b>", n))),
        "option_clone_wide" => html(format!("<select><selectedcontent></selectedcontent><option selected>{}</option>", rep("<b></b>", n))),
        "attrs" => html(format!("<a {}>", (0..n).map(|i| format!("a{i}=v")).collect::<Vec<_>>().join(" "))),
        "dup_attrs" => html(format!("<a {}>", rep("x=1 ", n))),
        "numref_dec" => html(format!("&#{};", rep("9", n))),
        "numref_hex" => html(format!("&#x{};", rep("f", n))),
        "named_prefix" => html(rep("&notit;&CounterClockwiseContourIntegra", n / 8 + 1)),
        "comment_dashes" => html(format!("<!--{}", rep("-", n))),
        "comment_lt" => html(format!("<!--{}", rep("<!-", n))),
        "doctype_name" => html(format!("<!DOCTYPE {}", rep("a", n))),
        "doctype_public" => html(format!("<!DOCTYPE html PUBLIC \"{}", rep("-//W3C//DTD HTML 4.01", n / 20 + 1))),
        "bogus_comment" => html(format!("<?{}", rep("?", n))),
        "cdata" => html(format!("<svg><![CDATA[{}", rep("]]", n))),
        "end_tags" => html(rep("<div>", n) + &rep("</div>", n)),
        "end_tags_unmatched" => html(rep("<div>", n.min(2000)) + &rep("</span>", n)),
        "script_escapes" => html(format!("<script>{}", rep("<!--<script></script>", n / 16 + 1))),
        "table_text" => html(format!("<table>{}", rep("x ", n))),
        "table_foster" => html(format!("<table>{}", rep("<b>x", n))),
        "select_in_table" => html(rep("<table><select>", n)),
        "frag-rows" => html(rep("<tr><td>x", n)),
        "template_rows" => html(rep("<template><tr>", n)),
        "svg_breakout" => html(rep("<svg><p>", n)),
        "li_chain" => html(rep("<li><div>", n)),
        "p_in_button" => html(rep("<button><p>", n)),
        "xml:nest" => xml(rep("<a>", n)),
        "xml:attrs" => xml(format!("<a {}/>", (0..n).map(|i| format!("a{i}='v'")).collect::<Vec<_>>().join(" "))),
        "xml:ns" => xml((0..n).map(|i| format!("<p{i}:a xmlns:p{i}='u{i}'>")).collect::<String>()),
        "xml:short_ends" => xml(rep("<a>", n) + &rep("</>", n + 5)),
        "xml:text_amp" => xml(format!("<a>{}", rep("&amp;&#65;&x", n / 8 + 1))),
        "xml:pi" => xml(format!("<?{}", rep("p?", n))),
        "xml:comment" => xml(format!("<!--{}", rep("-", n))),
        "xml:doctype" => xml(format!("<!DOCTYPE {} PUBLIC '{}", rep("x", n / 2), rep("y", n / 2))),
        "xml:unclosed_attr" => xml(format!("<a b='{}", rep("&lt;", n / 4 + 1))),
        "xml:cdata" => xml(format!("<a><![CDATA[{}", rep("]]", n))),
        other => html(format!("unknown patho kind {other}")),
    }
}

/// Run a case in a child process (`vcheck C04 --child`): returns Ok(()) /
/// Err(violation) / Err("INCONCLUSIVE…").
pub fn run_in_child(case: &Case, timeout_s: u64) -> Result<(), String> {
    use std::process::{Command, Stdio};
    let exe = std::env::current_exe().map_err(|e| format!("INCONCLUSIVE current_exe: {e}"))?;
    let mut child = Command::new(exe)
        .args(["C04", "--child"])
        .stdin(Stdio::piped())
        .stdout(Stdio::piped())
        .stderr(Stdio::null())
        .spawn()
        .map_err(|e| format!("INCONCLUSIVE spawn: {e}"))?;
    {
        let mut stdin = child.stdin.take().unwrap();
        let _ = stdin.write_all(serde_json::to_string(case).unwrap().as_bytes());
    }
    let start = std::time::Instant::now();
    loop {
        match child.try_wait() {
            Ok(Some(status)) => {
                use std::os::unix::process::ExitStatusExt;
                let mut out = String::new();
                if let Some(mut so) = child.stdout.take() {
                    use std::io::Read;
                    let _ = so.read_to_string(&mut out);
                }
                if let Some(sig) = status.signal() {
                    return Err(format!("child process died with signal {sig} (stack overflow / abort)"));
                }
                return match status.code() {
                    Some(0) => Ok(()),
                    Some(1) => Err(out.trim().to_string()),
                    c => Err(format!("INCONCLUSIVE child exit code {c:?}: {}", out.trim())),
                };
            },
            Ok(None) => {
                if start.elapsed().as_secs() > timeout_s {
                    let _ = child.kill();
                    let _ = child.wait();
                    return Err(format!("INCONCLUSIVE watchdog: child still running after {timeout_s}s"));
                }
                std::thread::sleep(std::time::Duration::from_millis(5));
            },
            Err(e) => return Err(format!("INCONCLUSIVE wait: {e}")),
        }
    }
}

/// Entry point of the child process: case JSON on stdin, verdict via exit code.
pub fn child_main() -> i32 {
    use std::io::Read;
    let mut s = String::new();
    let _ = std::io::stdin().read_to_string(&mut s);
    let Ok(case) = serde_json::from_str::<Case>(&s) else {
        println!("bad case");
        return 2;
    };
    // run on a thread with the platform's default main-thread stack size (8 MiB):
    // "overflow the stack" is judged against what an ordinary caller has
    let h = std::thread::Builder::new().stack_size(8 << 20).spawn(move || guarded(|| check_inproc(&case)));
    match h.unwrap().join() {
        Ok(Ok(Ok(_))) => 0,
        Ok(Ok(Err(what))) => {
            println!("{what}");
            1
        },
        Ok(Err(panic)) => {
            println!("{panic}");
            1
        },
        Err(_) => {
            println!("panic escaped");
            1
        },
    }
}

pub fn check(case: &Case, st: &mut Stats) -> Result<(), String> {
    st.eval();
    if let Case::Patho { .. } = case {
        return match run_in_child(case, 120) {
            Ok(()) => Ok(()),
            Err(e) if e.starts_with("INCONCLUSIVE") => {
                st.label("child inconclusive (watchdog/harness)");
                Ok(())
            },
            Err(e) => Err(e),
        };
    }
    let o = check_inproc(case)?;
    if o.tokens >= 3 {
        st.nontrivial(hash64(case), || serde_json::to_value(case).unwrap());
    }
    st.label(match case {
        Case::Html { cfg, rcdom, .. } => match (cfg.ctx.is_some(), rcdom) {
            (false, true) => "html document / RcDom",
            (false, false) => "html document / ModelDom",
            (true, true) => "html fragment / RcDom",
            (true, false) => "html fragment / ModelDom",
        },
        Case::Xml { .. } => "xml",
        Case::Patho { .. } => "patho",
    });
    if o.max_steps_per_char_x100 > 0 {
        let b = match o.max_steps_per_char_x100 {
            0..=100 => "steps/char <= 1",
            101..=400 => "steps/char <= 4",
            401..=1600 => "steps/char <= 16",
            _ => "steps/char > 16",
        };
        st.label(b);
    }
    Ok(())
}

pub fn decode(s: &mut Src) -> Case {
    let all_opts = |s: &mut Src, cfg: &mut TreeCfg| {
        cfg.tb_exact_errors = s.chance(60);
        cfg.tok_exact_errors = s.chance(60);
        cfg.drop_doctype = s.chance(40);
        cfg.discard_bom = s.bool();
    };
    match s.below(10) {
        0 | 1 => {
            let text = match s.below(3) {
                0 => gxml::gen_xml(s, 12).text,
                1 => gxml::gen_xml_noisy(s, 12),
                _ => ghtml::tok_soup(s, 30),
            };
            let cuts = chunks::gen_cuts(s, text.chars().count());
            Case::Xml {
                cfg: XmlCfg { exact_errors: s.chance(60), discard_bom: s.bool(), profile: false },
                chunks: chunks::chunk_str(&text, &cuts),
                rcdom: s.bool(),
            }
        },
        2 => {
            // raw token soup / random unicode
            let text = ghtml::tok_soup(s, 40);
            let mut cfg = crate::gen::cases::gen_cfg(s, true);
            all_opts(s, &mut cfg);
            let cuts = chunks::gen_cuts(s, text.chars().count());
            Case::Html { cfg, chunks: chunks::chunk_str(&text, &cuts), rcdom: s.bool() }
        },
        _ => {
            let mut tc = gen_tree_case(s, true, 50);
            all_opts(s, &mut tc.cfg);
            Case::Html { cfg: tc.cfg, chunks: tc.chunks, rcdom: s.bool() }
        },
    }
}

pub fn run(ctx: &Ctx) -> Report {
    let mut rep = Report::new(
        "Validity oracle over generated cases: (1) in-process (budget scale = characters fed so far): grammar-generated HTML (documents, fragments under ~50 contexts incl. a caller-supplied form pointer), token soup with arbitrary Unicode, generated and noisy XML; all TokenizerOpts/TreeBuilderOpts/XmlTokenizerOpts combinations except profile; random chunkings incl. empty and one-character chunks; sinks RcDom and the contract-monitoring ModelDom. A forwarding TokenSink placed between tokenizer and tree builder counts EOF tokens. Checked: no panic; after every feed() that returns Done the input queue is empty; end() and finish() return; exactly one EOF token, delivered last; the step counters of hook H1 stay within 64*(characters available)+4096 per feed()/end() call (a loop that never terminates exceeds any budget; independent of wall-clock time); RcDom results are serialized and dropped. (2) pathological shapes (deep nesting of 35 element names, adoption-agency storms, Noah's-ark lists, foster parenting, deep/wide selectedcontent mirroring, 10^n attributes, long numeric/named references, long runs of one character class, unterminated comments/doctypes/CDATA, XML nesting/namespace/short-end-tag storms) of size N run in child processes with an 8 MiB stack: death by signal is a violation, exceeding the 120 s watchdog is inconclusive. Non-trivial: >= 3 non-error tokens reached the tree builder, or a pathological case; distinct by case hash.",
    );
    rep.assume("a watchdog timeout is reported as inconclusive, never as a violation; quadratic-time shapes are bounded by N");
    if !hooks_enabled() {
        rep.assume("harness built WITHOUT --cfg servo_html5ever_verif: step budgets inactive, hang detection by watchdog only");
    }
    report_known(ctx, &mut rep, &|v| replay(&ctx.strict_clone(), v));
    run_regressions(ctx, &mut rep, &|v| replay(&ctx.strict_clone(), v));
    let out = run_random(ctx.seed, ctx.tier.pick(1_500_000, 25_000_000), 1500, decode, check);
    rep.absorb(out);
    // pathological cases in child processes
    let sizes: &[usize] = match ctx.tier {
        Tier::Quick => &[300, 3000],
        Tier::Thorough => &[300, 3000, 20000, 60000],
    };
    let mut cases = vec![];
    for k in PATHO_KINDS {
        for n in sizes {
            // linear shapes can go much larger
            let linear = k.starts_with("text:")
                || matches!(
                    *k,
                    "numref_dec" | "numref_hex" | "comment_dashes" | "doctype_name" | "bogus_comment" | "cdata" | "xml:pi" | "xml:comment" | "xml:cdata" | "comment_lt"
                );
            let n2 = if linear { n * 30 } else { *n };
            for chunk in [0usize, 1, 7] {
                if chunk == 1 && n2 > 30000 {
                    continue;
                }
                cases.push(Case::Patho { kind: k.to_string(), n: n2, chunk });
            }
        }
    }
    let out = run_exhaustive(cases.len() as u64, |i, st| {
        let c = &cases[i as usize];
        let r = check(c, st);
        st.nontrivial(hash64(c), || serde_json::to_value(c).unwrap());
        st.label("pathological case (child process)");
        r.map_err(|what| Failure { case: serde_json::to_value(c).unwrap(), what })
    });
    rep.absorb(out);
    rep.extra.insert("pathological".into(), json!({"kinds": PATHO_KINDS.len(), "sizes": sizes, "cases": cases.len()}));
    rep.need("html fragment / RcDom", 1000);
    rep.need("xml", 1000);
    rep.need("pathological case (child process)", 50);
    rep
}

pub fn replay(_ctx: &Ctx, v: &Value) -> Result<(), String> {
    let case: Case = serde_json::from_value(v.clone()).map_err(|e| format!("bad case: {e}"))?;
    let mut st = Stats::default();
    check(&case, &mut st)
}
