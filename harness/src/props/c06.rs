//! C06 — a parsed document always has the canonical html/head/body skeleton.

use crate::engine::*;
use crate::gen::cases::{gen_tree_case, TreeCase};
use crate::sinks::canon::{CKind, RcView, TreeView};
use crate::sinks::drive::drive;
use crate::sinks::model::{ModelDom, ModelView, DOC};
use markup5ever_rcdom::RcDom;
use serde_json::Value;

const HTML_NS: &str = "http://www.w3.org/1999/xhtml";

fn is_ws(s: &str) -> bool {
    s.chars().all(|c| matches!(c, '\t' | '\n' | '\x0C' | '\r' | ' '))
}

fn html_named(k: &CKind, n: &str) -> bool {
    matches!(k, CKind::Element { ns, local, .. } if ns == HTML_NS && local == n)
}

/// The validity predicate, both directions (nothing missing, nothing extra).
pub fn skeleton<T: TreeView>(t: &T, doc: &T::H) -> Result<(), String> {
    if !matches!(t.kind(doc), CKind::Document) {
        return Err("root is not a document".into());
    }
    // document level
    let kids = t.children(doc);
    let mut seen_doctype = 0;
    let mut html = None;
    for k in &kids {
        match t.kind(k) {
            CKind::Comment(_) => {},
            CKind::Doctype { .. } => {
                seen_doctype += 1;
                if seen_doctype > 1 {
                    return Err("document has more than one doctype".into());
                }
                if html.is_some() {
                    return Err("doctype after the html element".into());
                }
            },
            CKind::Element { .. } => {
                if html.is_some() {
                    return Err("document has more than one element child".into());
                }
                if !html_named(&t.kind(k), "html") {
                    return Err(format!("document element is {:?}, not HTML html", t.kind(k)));
                }
                html = Some(k.clone());
            },
            CKind::Text(s) => return Err(format!("text node {s:?} is a child of the document")),
            other => return Err(format!("unexpected child of the document: {other:?}")),
        }
    }
    let Some(html) = html else {
        return Err("document has no html element".into());
    };
    // html level
    let hk = t.children(&html);
    let elems: Vec<CKind> = hk.iter().map(|k| t.kind(k)).filter(|k| matches!(k, CKind::Element { .. })).collect();
    if elems.len() < 2 {
        return Err(format!("html has {} element children, expected head and body/frameset", elems.len()));
    }
    if !html_named(&elems[0], "head") {
        return Err(format!("first element child of html is {:?}, not head", elems[0]));
    }
    if html_named(&elems[1], "body") {
        if elems.len() > 2 {
            return Err(format!("html has an extra element child after body: {:?}", elems[2]));
        }
    } else if html_named(&elems[1], "frameset") {
        for e in &elems[2..] {
            if !html_named(e, "noframes") {
                return Err(format!("html has an element child after frameset that is not noframes: {e:?}"));
            }
        }
    } else {
        return Err(format!("second element child of html is {:?}, not body or frameset", elems[1]));
    }
    for k in &hk {
        match t.kind(k) {
            CKind::Text(s) if !is_ws(&s) => return Err(format!("non-whitespace text {s:?} is a child of html")),
            CKind::Doctype { .. } | CKind::Document | CKind::Fragment => {
                return Err("doctype/document node under html".into())
            },
            _ => {},
        }
    }
    // whole tree: text adjacency/emptiness, who may have children
    // (node, reached as template contents?) - RcDom represents template contents by a Document node
    let mut stack: Vec<(T::H, bool)> = vec![(doc.clone(), true)];
    while let Some((h, as_root)) = stack.pop() {
        let kind = t.kind(&h);
        let kids = t.children(&h);
        let may = matches!(kind, CKind::Element { .. } | CKind::Fragment) || (as_root && matches!(kind, CKind::Document));
        if !kids.is_empty() && !may {
            return Err(format!("node {kind:?} has children"));
        }
        let mut prev_text = false;
        for k in &kids {
            let kk = t.kind(k);
            match &kk {
                CKind::Text(s) => {
                    if s.is_empty() {
                        return Err("empty text node".into());
                    }
                    if prev_text {
                        return Err(format!("two adjacent text siblings under {kind:?}"));
                    }
                    prev_text = true;
                },
                CKind::Document => return Err("document node inside the tree".into()),
                CKind::Doctype { .. } if !matches!(kind, CKind::Document) => return Err("doctype below the document level".into()),
                _ => prev_text = false,
            }
            stack.push((k.clone(), false));
        }
        if let Some(tc) = t.template_contents(&h) {
            if !html_named(&kind, "template") {
                return Err(format!("{kind:?} has template contents"));
            }
            stack.push((tc, true));
        }
    }
    Ok(())
}

pub const KF_AFE_FRAMESET: &str = "KF-C06-formatting-reconstructed-after-frameset";

/// Signature of the known finding: the only clause broken is "an element child of html after
/// frameset that is not noframes", and that child is a formatting element (the standard's
/// after-after-frameset mode processes whitespace by the in-body rules, which reconstruct the
/// active formatting elements left over from the replaced body).
fn is_kf_formatting_after_frameset(e: &str) -> bool {
    const FMT: &[&str] = &["a", "b", "big", "code", "em", "font", "i", "nobr", "s", "small", "strike", "strong", "tt", "u"];
    e.starts_with("html has an element child after frameset that is not noframes")
        && FMT.iter().any(|n| e.contains(&format!("local: \"{n}\"")))
}

pub fn check(tc: &TreeCase, st: &mut Stats) -> Result<(), String> {
    check_kf(tc, st, false)
}

pub fn check_kf(tc: &TreeCase, st: &mut Stats, tolerate_kf: bool) -> Result<(), String> {
    st.eval();
    if tc.cfg.ctx.is_some() {
        return Err("C06 is about parse_document only (bad case)".into());
    }
    let (mdom, _, _) = drive(ModelDom::for_cfg(&tc.cfg), &tc.cfg, &tc.chunks, |_, _, _, _| {});
    if !mdom.shadow_hosts.borrow().is_empty() {
        st.label("declarative shadow root attached");
    }
    if let Err(e) = skeleton(&ModelView(&mdom), &DOC) {
        if tolerate_kf && is_kf_formatting_after_frameset(&e) {
            st.exclude(KF_AFE_FRAMESET);
            return Ok(());
        }
        return Err(format!("ModelDom tree: {e}"));
    }
    let (rdom, _, _) = drive(RcDom::default(), &tc.cfg, &tc.chunks, |_, _, _, _| {});
    skeleton(&RcView, &rdom.document).map_err(|e| format!("RcDom tree: {e}"))?;

    // classes
    let low = tc.input.to_ascii_lowercase();
    let mut nt = false;
    let canon = crate::sinks::model::model_canon(&mdom, DOC, Default::default());
    if canon.contains("|<html frameset>") {
        st.label("frameset document");
        nt = true;
        if low.contains("<body") || low.contains("<p") || low.contains("<b>") {
            st.label("frameset replaced a body");
        }
    }
    if low.matches("<template").count() > low.matches("</template").count() {
        st.label("template open at EOF");
        nt = true;
    }
    if let Some(i) = low.find("</head>") {
        let rest = &low[i..];
        if ["<script", "<style", "<meta", "<link", "<title", "<base", "<template", "<noframes"].iter().any(|t| rest.contains(t)) {
            st.label("head-only element after </head>");
            nt = true;
        }
    }
    if low.matches("<html").count() >= 2 || low.matches("<body").count() >= 2 {
        st.label("repeated html/body start tag");
        nt = true;
    }
    for end in ["</body>", "</html>"] {
        if let Some(i) = low.find(end) {
            if low[i + end.len()..].chars().any(|c| !c.is_whitespace()) {
                st.label("content after </body> or </html>");
                nt = true;
                break;
            }
        }
    }
    if low.contains("<selectedcontent") && low.contains("<option selected") {
        st.label("selectedcontent and a selected option");
    }
    if canon.contains("<html table>") {
        st.label("table in document");
    }
    if nt {
        st.nontrivial(hash64(tc), || serde_json::to_value(tc).unwrap());
    }
    Ok(())
}

pub fn decode(s: &mut Src) -> TreeCase {
    let mut tc = gen_tree_case(s, false, 40);
    // bias: skeleton-relevant prefixes and EOF in every insertion mode
    if s.chance(100) {
        let pre = *s.pick(&[
            "<html>", "<head>", "<head></head>", "<body>", "<frameset>", "<html><head></head><frameset>", "<head><template>",
            "</head>", "</body></html>", "<html a=b><html c=d>", "<body><body x=y>", "<head></head><script></script>",
            "<frameset></frameset><noframes>", "<table>", "</html><!--c-->", "<!--c--><!DOCTYPE html><!--d-->", " \n<html>",
            "<head></head> x", "<frameset><frame></frameset>x<noframes></noframes>", "<p><frameset>", "<b><frameset>",
            "<input type=hidden><frameset>", "<br><frameset>", "<div> <frameset>", "</body><frameset>", "<template><frameset>",
        ]);
        tc.input = format!("{pre}{}", tc.input);
    }
    if s.chance(60) {
        let n = tc.input.chars().count();
        let keep = s.below(n + 1);
        tc.input = tc.input.chars().take(keep).collect();
    }
    let n = tc.input.chars().count();
    let cuts = crate::gen::chunks::gen_cuts(s, n);
    tc.chunks = crate::gen::chunks::chunk_str(&tc.input, &cuts);
    tc.cfg.ctx = None;
    tc
}

pub fn run(ctx: &Ctx) -> Report {
    let mut rep = Report::new(
        "parse_document over grammar-generated inputs (biased to stray/repeated html/head/body/frameset/noframes tags, templates left open, head-only elements after </head>, content after </body>/</html>, inputs truncated at a random point so that EOF arrives in every insertion mode), random chunkings, scripting on/off, into ModelDom and RcDom. Oracle: validity predicate on the final tree, both directions: document children = comments* doctype? comments* html comments*; exactly one element child, HTML html; its element children are head then body, or head then frameset then zero or more noframes; no text under the document, only whitespace text under html, no empty text, no adjacent text siblings, only elements / template contents / the document have children, template contents only on HTML template. Non-trivial: frameset document, template open at EOF, head-only element after </head>, repeated html/body start tag, or content after </body>/</html>; distinct by case hash.",
    );
    rep.assume("'frameset optionally followed by noframes' is read as zero or more noframes elements: the standard's after-frameset mode inserts every <noframes> it sees, so a literal 'at most one' would contradict the WHATWG algorithm (C02)");
    report_known(ctx, &mut rep, &|v| replay(&ctx.strict_clone(), v));
    run_regressions(ctx, &mut rep, &|v| replay(&ctx.strict_clone(), v));
    let tol = ctx.tolerate(KF_AFE_FRAMESET);
    let out = run_random(ctx.seed, ctx.tier.pick(2_000_000, 30_000_000), 1500, decode, |c, st| check_kf(c, st, tol));
    rep.absorb(out);
    for l in [
        "frameset document",
        "frameset replaced a body",
        "template open at EOF",
        "head-only element after </head>",
        "repeated html/body start tag",
        "content after </body> or </html>",
    ] {
        rep.need(l, 100);
    }
    rep
}

pub fn replay(_ctx: &Ctx, v: &Value) -> Result<(), String> {
    let case: TreeCase = serde_json::from_value(v.clone()).map_err(|e| format!("bad case: {e}"))?;
    let mut st = Stats::default();
    check(&case, &mut st)
}
