//! C02 — HTML tree construction equals the WHATWG tree-construction algorithm.

use crate::engine::*;
use crate::gen::cases::{all_contexts, gen_tree_case, TreeCase};
use crate::refimpl::dom::{RefView, DOC as RDOC, HTML, MATHML, SVG};
use crate::refimpl::tokenizer::{normalize_newlines, RState, RefTokenizer};
use crate::refimpl::treebuilder::{Builder, Quirks, Switches};
use crate::sinks::canon::{canon, first_diff, CanonOpts};
use crate::sinks::drive::{drive, quirks_name, CtxElem, TreeCfg};
use crate::sinks::model::{model_canon, ModelDom, DOC};
use serde_json::{json, Value};

/// All deviation switches that exist in the reference (a switch is only
/// enabled when the corresponding finding is listed in known_findings.json).
pub const SWITCHES: &[(&str, &str)] = &[
    ("KF-C02-search-not-special", "kf_search_not_special"),
    ("KF-C02-isindex-special", "kf_isindex_special"),
    ("KF-C02-foreign-not-special", "kf_foreign_not_special"),
    ("KF-C02-annotation-xml-scope", "kf_annotation_xml_scope"),
    ("KF-C02-breakout-integration-point", "kf_breakout_integration_pt"),
    ("KF-C02-intbody-scope-typo", "kf_intbody_scope_typo"),
    ("KF-C02-quirks-silmaril", "kf_quirks_silmaril"),
    ("KF-C02-srcdoc-forcequirks", "kf_srcdoc_forcequirks"),
    ("KF-C02-fragment-form-pointer", "kf_fragment_form_ptr"),
    ("KF-C02-doctype-in-table-text", "kf_doctype_skips_modes"),
];

pub fn active_switches(ctx: &Ctx) -> Switches {
    let mut s = Switches::default();
    for (kf, sw) in SWITCHES {
        if ctx.tolerate(kf) {
            s.on.push(sw.to_string());
        }
    }
    s
}

pub struct RefOut {
    pub dump: String,
    pub quirks: &'static str,
    pub counters: std::collections::BTreeMap<&'static str, u64>,
    pub metas: Vec<(Option<String>, Option<String>, Option<String>)>,
}

pub fn run_reference(cfg: &TreeCfg, input: &str, kf: &Switches) -> RefOut {
    let q0 = match cfg.quirks0 {
        0 => Quirks::No,
        1 => Quirks::Limited,
        _ => Quirks::Full,
    };
    let (mut b, st) = match &cfg.ctx {
        None => (Builder::new(cfg.scripting, cfg.srcdoc, q0, kf.clone()), None),
        Some(c) => {
            let ns: &'static str = match c.ns.as_str() {
                "svg" => SVG,
                "math" => MATHML,
                _ => HTML,
            };
            Builder::new_fragment(cfg.scripting, q0, kf.clone(), ns, &c.local, c.attrs.clone(), cfg.form_ptr)
        },
    };
    b.dsd_allow = cfg.dsd_allow;
    b.dsd_succeed = cfg.dsd_allow && cfg.dsd_succeed;
    let text: String = if cfg.discard_bom && input.starts_with('\u{feff}') { input.chars().skip(1).collect() } else { input.to_string() };
    let norm = normalize_newlines(&text);
    let start = match st {
        None => RState::Data,
        Some(crate::refimpl::tokenizer::RResult::Plaintext) => RState::Plaintext,
        Some(crate::refimpl::tokenizer::RResult::Raw(k)) => match k {
            crate::refimpl::tokenizer::RawKind::Rcdata => RState::Rcdata,
            crate::refimpl::tokenizer::RawKind::Rawtext => RState::Rawtext,
            crate::refimpl::tokenizer::RawKind::ScriptData => RState::ScriptData,
        },
        Some(_) => RState::Data,
    };
    {
        let mut t = RefTokenizer::new(&norm, &mut b, start, None);
        t.run();
    }
    let dump = canon(&RefView(&b.dom), &RDOC, CanonOpts::default());
    let quirks = match b.quirks_reported.unwrap_or(Quirks::No) {
        Quirks::No => "NoQuirks",
        Quirks::Limited => "LimitedQuirks",
        Quirks::Full => "Quirks",
    };
    let metas = b
        .metas_inserted
        .iter()
        .map(|m| {
            (
                b.dom.attr(*m, "charset").map(|s| s.to_string()),
                b.dom.attr(*m, "http-equiv").map(|s| s.to_string()),
                b.dom.attr(*m, "content").map(|s| s.to_string()),
            )
        })
        .collect();
    RefOut { dump, quirks, counters: b.counters.clone(), metas }
}

pub fn run_real(cfg: &TreeCfg, chunks: &[String]) -> Result<(String, &'static str), String> {
    let sink = ModelDom::for_cfg(cfg);
    let (dom, _, _) = drive(sink, cfg, chunks, |_, _, _, _| {});
    Ok((model_canon(&dom, DOC, CanonOpts::default()), quirks_name(dom.quirks.get())))
}

/// excluded sub-domain that cannot be adjudicated offline (DESIGN.md §2.8)
fn excluded(tc: &TreeCase) -> Option<&'static str> {
    if let Some(c) = &tc.cfg.ctx {
        if c.ns == "html" && c.local == "select" && tc.input.to_ascii_lowercase().contains("<input") {
            return Some("fragment with select context and <input> (not adjudicable)");
        }
    }
    if tc.cfg.srcdoc && tc.cfg.quirks0 != 0 {
        // the standard never lowers a document's mode; html5ever reports the mode computed from
        // the DOCTYPE.  An iframe srcdoc document that starts in quirks mode does not occur.
        return Some("iframe_srcdoc with a non-default initial quirks mode (outside the meaningful domain)");
    }
    None
}

pub fn check_with(tc: &TreeCase, kf: &Switches, st: &mut Stats) -> Result<(), String> {
    st.eval();
    if let Some(why) = excluded(tc) {
        st.exclude(why);
        return Ok(());
    }
    // the standard has a single scripting flag; tree-level options that are not
    // part of the property's domain are normalised
    let mut cfg = tc.cfg.clone();
    cfg.drop_doctype = false;
    let (real, rq) = run_real(&cfg, &[tc.input.clone()])?;
    let rf = run_reference(&cfg, &tc.input, kf);
    if real != rf.dump {
        return Err(format!(
            "tree differs from the WHATWG algorithm (html5ever vs reference): {}\n--- html5ever ---\n{}--- reference ---\n{}",
            first_diff(&real, &rf.dump),
            clip(&real),
            clip(&rf.dump)
        ));
    }
    if rq != rf.quirks {
        return Err(format!("quirks mode: html5ever {rq}, WHATWG algorithm {}", rf.quirks));
    }
    // how many verdicts depended on a listed known finding (counted as excluded)
    if kf.has("kf_doctype_skips_modes") {
        let low = tc.input.to_ascii_lowercase();
        if low.contains("<!doctype") && (low.contains("<table") || tc.cfg.ctx.is_some()) {
            let strict = run_reference(&cfg, &tc.input, &Switches::default());
            if strict.dump != real {
                st.exclude("KF-C02-doctype-in-table-text");
            }
        }
    }
    let mut nt = false;
    for (k, v) in &rf.counters {
        if *k == "reset insertion mode" && tc.cfg.ctx.is_none() && *v == 0 {
            continue;
        }
        st.label(k);
        nt = true;
    }
    if let Some(c) = &tc.cfg.ctx {
        if c.local != "div" {
            st.label("fragment with non-div context");
            nt = true;
        }
    }
    if rf.quirks != "NoQuirks" {
        st.label(&format!("quirks={}", rf.quirks));
        nt = true;
    }
    if real.contains("<html table>") {
        st.label("table modes");
    }
    if real.contains("<html frameset>") {
        st.label("frameset");
    }
    if nt {
        st.nontrivial(hash64(&(&tc.cfg, &tc.input)), || serde_json::to_value(tc).unwrap());
    }
    Ok(())
}

fn clip(s: &str) -> String {
    let mut out = String::new();
    for (i, l) in s.lines().enumerate() {
        if i > 60 {
            out.push_str("…\n");
            break;
        }
        out.push_str(l);
        out.push('\n');
    }
    out
}

// exhaustive short tag sequences
pub const SEQ_NAMES: &[&str] = &[
    "html", "head", "body", "title", "script", "template", "p", "div", "b", "i", "a", "nobr", "li", "dd", "h1", "button", "form",
    "table", "caption", "colgroup", "col", "tbody", "tr", "td", "th", "select", "option", "optgroup", "input", "svg", "math", "mi",
    "foreignObject", "annotation-xml", "frameset", "frame", "noframes", "br", "hr", "applet", "ruby", "rt", "search", "plaintext",
    "textarea", "pre", "noscript", "font", "desc",
];

pub fn seq_tokens() -> Vec<String> {
    let mut v = vec![];
    for n in SEQ_NAMES {
        v.push(format!("<{n}>"));
        v.push(format!("</{n}>"));
    }
    v.push("x".into());
    v.push(" ".into());
    v.push("<!--c-->".into());
    v.push("\n".into());
    v.push("<annotation-xml encoding=text/html>".into());
    v.push("<font color=red>".into());
    v.push("<input type=hidden>".into());
    v.push("\0".into());
    v
}

pub fn doctype_sweep() -> Vec<(TreeCfg, String)> {
    use crate::refimpl::treebuilder::QUIRKY_PREFIXES;
    let mut ids: Vec<String> = QUIRKY_PREFIXES.iter().map(|s| s.to_string()).collect();
    for s in [
        "-//w3o//dtd w3 html strict 3.0//en//",
        "-/w3c/dtd html 4.0 transitional/en",
        "html",
        "-//w3c//dtd html 4.01 frameset//",
        "-//w3c//dtd html 4.01 transitional//",
        "-//w3c//dtd xhtml 1.0 frameset//",
        "-//w3c//dtd xhtml 1.0 transitional//",
        "-//w3c//dtd html 4.01//en",
        "-//w3c//dtd xhtml 1.1//en",
        "",
    ] {
        ids.push(s.to_string());
    }
    let mut out = vec![];
    // a multi-byte character at every position of every table entry, and after n ASCII bytes for
    // every n up to the longest entry (prefix comparisons at every table length)
    for id in &ids {
        let cs: Vec<char> = id.chars().collect();
        for at in 0..=cs.len() {
            for c in ['é', '\u{130}'] {
                let mut p: String = cs[..at].iter().collect();
                p.push(c);
                p.extend(cs[at..].iter());
                let q = if p.contains('"') { '\'' } else { '"' };
                out.push((TreeCfg::default(), format!("<!DOCTYPE html PUBLIC {q}{p}{q}><p>x")));
                out.push((TreeCfg::default(), format!("<!DOCTYPE html PUBLIC \"\" {q}{p}{q}><p>x")));
            }
        }
    }
    for n in 0..100 {
        let p = format!("{}é", "a".repeat(n));
        out.push((TreeCfg::default(), format!("<!DOCTYPE html PUBLIC \"{p}\"><p>x")));
        out.push((TreeCfg::default(), format!("<!DOCTYPE html SYSTEM \"{p}\"><p>x")));
    }
    for id in &ids {
        let mut variants = vec![id.clone(), id.to_ascii_uppercase(), format!("{id}EN"), format!("x{id}")];
        if !id.is_empty() {
            let mut t = id.clone();
            t.pop();
            variants.push(t);
        }
        for p in variants {
            for sys in [None, Some(""), Some("http://www.ibm.com/data/dtd/v11/ibmxhtml1-transitional.dtd"), Some("s")] {
                for name in ["html", "HTML", "foo"] {
                    for srcdoc in [false, true] {
                        let q = if p.contains('"') { '\'' } else { '"' };
                        let mut s = format!("<!DOCTYPE {name} PUBLIC {q}{p}{q}");
                        if let Some(sy) = sys {
                            s.push_str(&format!(" \"{sy}\""));
                        }
                        s.push_str("><p>x");
                        let mut cfg = TreeCfg::default();
                        cfg.srcdoc = srcdoc;
                        out.push((cfg, s));
                    }
                }
            }
        }
    }
    for s in ["<!DOCTYPE html SYSTEM \"http://www.ibm.com/data/dtd/v11/ibmxhtml1-transitional.dtd\">", "<!DOCTYPE>", "<!DOCTYPE html", "<!DOCTYPE html SYSTEM 'about:legacy-compat'>", "x"] {
        for srcdoc in [false, true] {
            let mut cfg = TreeCfg::default();
            cfg.srcdoc = srcdoc;
            out.push((cfg, s.to_string()));
        }
    }
    out
}

pub fn decode(s: &mut Src) -> TreeCase {
    let mut tc = gen_tree_case(s, true, 40);
    tc.chunks = vec![tc.input.clone()];
    tc
}

pub fn run(ctx: &Ctx) -> Report {
    let mut rep = Report::new(
        "Differential: html5ever's parse_document / parse_fragment into the ModelDom sink vs an independent transcription of WHATWG 13.2.6 (refimpl::treebuilder, arena DOM, coupled to the reference tokenizer as the standard couples them): canonical dumps (node kinds and order, element names and namespaces, attribute names/namespaces/prefixes/values in order, text, comments, doctype name and ids, template contents, per-element duplicate-attribute flag) and the reported quirks mode must be equal. Search: (1) grammar-generated inputs (0..40 tokens over a dictionary of every element the tree-construction rules name, attributes that matter to the rules, text/NUL/whitespace, comments, doctypes from the quirks tables, CDATA, structure shortcuts, character noise) as documents and as fragments under ~50 context elements (HTML, SVG, MathML incl. annotation-xml with/without encoding), scripting on/off, iframe_srcdoc, initial quirks mode, declarative-shadow-root policy (the sink denies them, allows them and fails to attach, or allows them and attaches: the template's contents then become a shadow root of the host, shown in the dump), caller-supplied form pointer; (2) every sequence of <= 2 (thorough 3) tokens over ~110 tag tokens (start/end of 49 structurally relevant names, text, whitespace, comment, NUL, hidden input, font color, annotation-xml encoding) in document mode and (quick: length 2) in 8 fragment contexts; (3) doctype sweep: every entry of the quirks tables x {exact, upper-cased, extended, prefixed, truncated} x system id {absent, empty, ibm, other} x name {html, HTML, foo} x iframe_srcdoc. Non-trivial: the reference's counters show adoption agency with a furthest block, Noah's Ark removal, reconstruction, foster parenting, reset-insertion-mode, foreign content, break-out, template, frameset replacing body, head re-push, content after </body>, or a non-div fragment context, or quirks != NoQuirks; distinct by hash of (configuration, input). (4) every fragment context (HTML names the fragment algorithm consults, the same names in the SVG and MathML namespaces, foreign names in the HTML namespace, annotation-xml with exact and near-miss encoding values) x with/without a form pointer x every sequence of <=3 (thorough: 4) probe tokens.",
    );
    rep.assume("reference tree builder (harness/src/refimpl/treebuilder.rs, tb_modes.rs) transcribes the living standard from memory (no network); the customizable-select rules (select/option/optgroup/hr/input in select) mirror html5ever's reading and are tested for self-consistency only");
    rep.assume("maybe-clone-an-option-into-selectedcontent is a no-op on both sides (RcDom's duty, C20)");
    report_known(ctx, &mut rep, &|v| replay(&ctx.strict_clone(), v));
    run_regressions(ctx, &mut rep, &|v| replay(&ctx.strict_clone(), v));
    let kf = active_switches(ctx);

    // (3) doctype sweep
    let sweep = doctype_sweep();
    let out = run_exhaustive(sweep.len() as u64, |i, st| {
        let (cfg, input) = &sweep[i as usize];
        let tc = TreeCase { cfg: cfg.clone(), input: input.clone(), chunks: vec![input.clone()] };
        check_with(&tc, &kf, st).map_err(|what| Failure { case: serde_json::to_value(&tc).unwrap(), what })
    });
    rep.absorb(out);
    // (2) exhaustive tag sequences
    let toks = seq_tokens();
    let n = toks.len() as u64;
    let depth = ctx.tier.pick(2u32, 3u32);
    let total: u64 = (0..=depth).map(|d| n.pow(d)).sum();
    let frag_ctx: Vec<Option<CtxElem>> = {
        let all = all_contexts();
        let mut v: Vec<Option<CtxElem>> = vec![None];
        for want in ["table", "tr", "td", "select", "template", "body", "head", "svg"] {
            if let Some(c) = all.iter().find(|c| c.local == want && (c.ns == "html" || want == "svg")) {
                v.push(Some(c.clone()));
            }
        }
        v
    };
    let out = run_exhaustive(total * frag_ctx.len() as u64, |idx, st| {
        let ci = (idx % frag_ctx.len() as u64) as usize;
        let mut k = idx / frag_ctx.len() as u64;
        let mut d = 0;
        loop {
            let c = n.pow(d);
            if k < c {
                break;
            }
            k -= c;
            d += 1;
        }
        let mut input = String::new();
        for _ in 0..d {
            input.push_str(&toks[(k % n) as usize]);
            k /= n;
        }
        let mut cfg = TreeCfg::default();
        cfg.ctx = frag_ctx[ci].clone();
        let tc = TreeCase { cfg, input: input.clone(), chunks: vec![input] };
        check_with(&tc, &kf, st).map_err(|what| Failure { case: serde_json::to_value(&tc).unwrap(), what })
    });
    rep.absorb(out);
    rep.extra.insert("exhaustive_tag_sequences".into(), json!({"tokens": n, "max_len": depth, "contexts": frag_ctx.len(), "cases": total * frag_ctx.len() as u64}));
    rep.extra.insert("doctype_sweep".into(), json!({"cases": sweep.len()}));
    // (4) every fragment context x short probe sequences (the context element decides the
    // tokenizer state, the insertion mode, the form pointer and the integration-point status)
    {
        let all = all_contexts();
        let probes: &[&str] = &[
            "<p>", "<form>", "x", "<td>", "<tr>", "</p>", "<svg>", "<b>", "<option>", "<input>", "<div>", "</template>", "<title>", " ",
        ];
        let np = probes.len() as u64;
        let pd = ctx.tier.pick(3u32, 4u32);
        let per: u64 = (1..=pd).map(|d| np.pow(d)).sum();
        let out = run_exhaustive(per * all.len() as u64 * 2, |idx, st| {
            let form_ptr = idx % 2 == 1;
            let idx = idx / 2;
            let ci = (idx % all.len() as u64) as usize;
            let mut k = idx / all.len() as u64;
            let mut d = 1;
            loop {
                let c = np.pow(d);
                if k < c {
                    break;
                }
                k -= c;
                d += 1;
            }
            let mut input = String::new();
            for _ in 0..d {
                input.push_str(probes[(k % np) as usize]);
                k /= np;
            }
            let mut cfg = TreeCfg::default();
            cfg.ctx = Some(all[ci].clone());
            cfg.form_ptr = form_ptr;
            let tc = TreeCase { cfg, input: input.clone(), chunks: vec![input] };
            check_with(&tc, &kf, st).map_err(|what| Failure { case: serde_json::to_value(&tc).unwrap(), what })
        });
        rep.absorb(out);
        rep.extra.insert("fragment_context_probes".into(), json!({"contexts": all.len(), "probe_tokens": np, "max_len": pd, "cases": per * all.len() as u64 * 2}));
    }
    // (1) grammar
    let out = run_random(ctx.seed, ctx.tier.pick(4_000_000, 60_000_000), 1500, decode, |c, st| check_with(c, &kf, st));
    rep.absorb(out);
    for l in [
        "adoption agency with a furthest block",
        "noah's ark removal",
        "reconstruct created an element",
        "foster parenting",
        "foreign content entered",
        "foreign content: break-out start tag",
        "template start tag",
        "frameset replaced body",
        "after head: head element re-pushed",
        "EOF while a template is open",
        "fragment with non-div context",
        "quirks=Quirks",
        "quirks=LimitedQuirks",
    ] {
        rep.need(l, 100);
    }
    rep
}

pub fn replay(ctx: &Ctx, v: &Value) -> Result<(), String> {
    let case: TreeCase = serde_json::from_value(v.clone()).map_err(|e| format!("bad case: {e}"))?;
    let mut st = Stats::default();
    let kf = active_switches(ctx);
    check_with(&case, &kf, &mut st)
}
