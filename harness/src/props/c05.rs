//! C05 — tree builders honour the documented TreeSink calling contract.
//! The ModelDom sink validates every call before applying it.

use crate::engine::*;
use crate::gen::cases::{gen_tree_case, TreeCase};
use crate::gen::{chunks, xml as gxml};
use crate::sinks::drive::{drive, drive_xml, XmlCfg};
use crate::sinks::model::ModelDom;
use serde::{Deserialize, Serialize};
use serde_json::Value;

#[derive(Serialize, Deserialize, Clone, Debug, Hash, PartialEq, Eq)]
pub enum Case {
    Html(TreeCase),
    Xml { text: String, chunks: Vec<String>, exact_errors: bool },
}

const INTERESTING: &[&str] = &[
    "remove_from_parent",
    "reparent_children",
    "append_before_sibling",
    "append_based_on_parent_node",
    "add_attrs_if_missing",
    "get_template_contents",
    "associate_with_form",
    "mark_script_already_started",
    "append_doctype_to_document",
];

pub fn check(case: &Case, st: &mut Stats) -> Result<(), String> {
    st.eval();
    let dom = match case {
        Case::Html(tc) => {
            let sink = ModelDom::for_cfg(&tc.cfg);
            let (dom, _res, _left) = drive(sink, &tc.cfg, &tc.chunks, |_, _, _, _| {});
            dom
        },
        Case::Xml { chunks, exact_errors, .. } => {
            let sink = ModelDom::new();
            let cfg = XmlCfg { exact_errors: *exact_errors, discard_bom: true, profile: false };
            let (dom, _left) = drive_xml(sink, &cfg, chunks, |_, _| {});
            dom
        },
    };
    let v = dom.violations.borrow();
    if let Some(first) = v.first() {
        let names = dom.call_names.borrow();
        let tail: Vec<&str> = names.iter().rev().take(12).rev().cloned().collect();
        return Err(format!(
            "TreeSink contract violated ({} violation(s)); first: {first}\n last calls: {tail:?}",
            v.len()
        ));
    }
    // classification from the call trace
    let names = dom.call_names.borrow();
    let mut seen = std::collections::BTreeSet::new();
    for n in names.iter() {
        if INTERESTING.contains(n) {
            seen.insert(*n);
        }
    }
    let kind = if matches!(case, Case::Xml { .. }) { "xml" } else { "html" };
    for n in &seen {
        st.label(&format!("{kind}:{n}"));
    }
    if !seen.is_empty() {
        // distinct by call-trace hash
        st.nontrivial(hash64(&*names), || serde_json::to_value(case).unwrap());
    }
    Ok(())
}

pub fn decode(s: &mut Src) -> Case {
    if s.chance(50) {
        let text = if s.chance(128) { gxml::gen_xml(s, 12).text } else { gxml::gen_xml_noisy(s, 12) };
        // doctype-heavy variants
        let text = if s.chance(40) { format!("<!DOCTYPE a><!DOCTYPE b>{text}") } else { text };
        let cuts = chunks::gen_cuts(s, text.chars().count());
        Case::Xml { chunks: chunks::chunk_str(&text, &cuts), text, exact_errors: s.chance(40) }
    } else {
        Case::Html(gen_tree_case(s, true, 40))
    }
}

pub fn run(ctx: &Ctx) -> Report {
    let mut rep = Report::new(
        "Grammar-generated HTML inputs (documents and fragments under ~50 context elements, scripting on/off, declarative-shadow-root policy, random chunkings) and generated XML documents (namespaced AST rendered to text, with noise and repeated DOCTYPEs) are parsed into ModelDom with the contract monitor on: every TreeSink call is validated before it is applied (element-only operations get elements; get_template_contents only HTML template elements created with the template flag; associate_with_form gets an HTML form and elements; append/append_based_on_parent_node children have no parent; no node inserted under itself or a descendant; insert-before reference has a parent and is not text; doctype appended at most once and before any element; no attribute list with two attributes of the same (ns, local) or (prefix, local)). Non-trivial: the call trace contains remove_from_parent, reparent_children, append_before_sibling, append_based_on_parent_node, add_attrs_if_missing, get_template_contents, associate_with_form, mark_script_already_started or append_doctype_to_document; distinct by hash of the call-name trace.",
    );
    rep.assume("the clauses are those written in markup5ever/interface/tree_builder.rs doc comments plus the property statement");
    report_known(ctx, &mut rep, &|v| replay(&ctx.strict_clone(), v));
    run_regressions(ctx, &mut rep, &|v| replay(&ctx.strict_clone(), v));
    let out = run_random(ctx.seed, ctx.tier.pick(3_000_000, 40_000_000), 1500, decode, |c, st| {
        if ctx.tolerate("KF-C05-xml-two-doctypes") {
            if let Case::Xml { text, .. } = c {
                if text.matches("<!DOCTYPE").count() + text.matches("<!doctype").count() >= 2 {
                    st.exclude("KF-C05-xml-two-doctypes");
                    return Ok(());
                }
            }
        }
        check(c, st)
    });
    rep.absorb(out);
    for l in [
        "html:remove_from_parent",
        "html:reparent_children",
        "html:append_based_on_parent_node",
        "html:add_attrs_if_missing",
        "html:get_template_contents",
        "html:associate_with_form",
        "xml:append_doctype_to_document",
    ] {
        rep.need(l, 100);
    }
    rep
}

pub fn replay(_ctx: &Ctx, v: &Value) -> Result<(), String> {
    let case: Case = serde_json::from_value(v.clone()).map_err(|e| format!("bad case: {e}"))?;
    let mut st = Stats::default();
    check(&case, &mut st)
}
