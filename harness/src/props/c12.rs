//! C12 — Tendril buffers are freed exactly once and never accessed out of
//! bounds.
//!
//! The C11 interpreter is run under the instrumented global allocator
//! (`engine::alloc::Monitor`, only present in the `vcheck_alloc` binary).  Each
//! case runs inside an allocation *scope*: red zones, double/invalid frees,
//! writes after free and blocks that outlive the case are reported by the
//! monitor; content equality with the model is checked by the interpreter.
//! Two families of cases:
//!   * the C11 histories (single thread, plus SendTendril hops), and
//!   * thread schedules: 2..8 threads get clones / subtendrils / SendTendrils
//!     of shared Atomic buffers and run their own short histories on them
//!     after a barrier, repeated for a few rounds.

use crate::engine::alloc as mon;
use crate::engine::*;
use crate::props::c11::{self, Fm, Fmt, Model, Obs, Op, Real, SLOTS};
use serde::{Deserialize, Serialize};
use serde_json::Value;
use std::cell::Cell;
use std::sync::{Arc, Barrier};
use tendril::fmt as tf;
use tendril::{Atomic, NonAtomic, Tendril};

#[derive(Serialize, Deserialize, Clone, Debug, Hash)]
pub struct Seed {
    pub slot: usize,
    pub base: usize,
    /// 0: clone of the base, 1: subtendril(off, len) of the base,
    /// 2: SendTendril made from a clone (parked; unparked by the thread)
    pub kind: u8,
    pub off: u32,
    pub len: u32,
}

#[derive(Serialize, Deserialize, Clone, Debug, Hash)]
pub struct TThread {
    pub seeds: Vec<Seed>,
    pub ops: Vec<Op>,
}

#[derive(Serialize, Deserialize, Clone, Debug, Hash)]
pub struct TCase {
    pub fmt: Fmt,
    /// true: Atomic tendrils shared between the threads; false: NonAtomic
    /// tendrils, the threads only receive SendTendrils (which must be copies)
    pub atomic: bool,
    /// clone/subtendril/drop rounds the spawning thread performs on its own
    /// handles while the workers run
    pub churn: u8,
    pub bases: Vec<Vec<u8>>,
    pub threads: Vec<TThread>,
    pub rounds: u8,
    /// the spawning thread drops its own handles right after the barrier
    /// (racing with the workers) instead of after joining them
    pub early_drop: bool,
}

pub fn decode_t(s: &mut Src) -> TCase {
    let fmt = [Fmt::Bytes, Fmt::Utf8, Fmt::Ascii, Fmt::Latin1, Fmt::Wtf8][s.weighted(&[4, 4, 1, 1, 2])];
    let nb = 1 + s.below(3);
    let mut bases = vec![];
    for _ in 0..nb {
        let n = if s.chance(40) { c11::gen_len(s) } else { 9 + s.below(40) };
        bases.push(c11::gen_content(s, fmt, n));
    }
    let nt = 2 + s.below(7);
    let rounds = 1 + s.below(3) as u8;
    let early_drop = s.bool();
    let atomic = !s.chance(90);
    let churn = s.below(24) as u8;
    let mut threads = vec![];
    for _ in 0..nt {
        let mut m = Model::new(fmt);
        let mut seeds = vec![];
        let mut ops = vec![];
        let ns = 1 + s.below(3);
        for slot in 0..ns {
            let base = s.below(nb);
            let b = &bases[base];
            let mut kind = s.weighted(&[5, 3, 2]) as u8;
            let (mut off, mut len) = (0u32, b.len() as u32);
            if !atomic {
                kind = 2;
            }
            if kind == 1 {
                let o = c11::gen_pos(s, fmt, b).min(b.len());
                let e = c11::gen_pos(s, fmt, b).min(b.len()).max(o);
                if c11::validate(fmt, &b[o..e]) {
                    off = o as u32;
                    len = (e - o) as u32;
                } else {
                    kind = 0;
                }
            }
            let content = b[off as usize..(off + len) as usize].to_vec();
            if kind == 2 {
                if m.parked.len() >= c11::MAX_PARKED {
                    continue;
                }
                m.parked.push(content);
                seeds.push(Seed { slot, base, kind, off, len });
            } else {
                m.slots[slot] = Some(content);
                seeds.push(Seed { slot, base, kind, off, len });
            }
        }
        // parked SendTendrils are turned back into tendrils first
        let parked = m.parked.len();
        for k in 0..parked {
            let op = Op::SendUnpark(SLOTS - 1 - k, false);
            m.apply(&op);
            ops.push(op);
        }
        let n = 1 + s.below(12);
        let base_len = ops.len();
        while ops.len() < base_len + n && !s.exhausted() {
            c11::gen_op(s, &mut m, &mut ops);
        }
        for op in ops.iter_mut() {
            match op {
                Op::Send(_, th) | Op::SendUnpark(_, th) => *th = false,
                _ => {},
            }
        }
        threads.push(TThread { seeds, ops });
    }
    TCase { fmt, atomic, churn, bases, threads, rounds, early_drop }
}

type Joined = (Result<(), String>, u32);

fn join_all(handles: Vec<std::thread::JoinHandle<Joined>>, round: u8, known_hits: &mut u32) -> Option<String> {
    let mut first: Option<String> = None;
    for (ti, h) in handles.into_iter().enumerate() {
        match h.join() {
            Ok((Ok(()), k)) => *known_hits += k,
            Ok((Err(e), _)) => {
                if first.is_none() {
                    first = Some(format!("round {round}, thread {ti}: {e}"));
                }
            },
            Err(_) => {
                if first.is_none() {
                    first = Some(format!("round {round}, thread {ti} panicked"));
                }
            },
        }
    }
    first
}

/// what the spawning thread does with its own handles while the workers run
fn churn<F: Fm, A: c11::At>(bases: &[Tendril<F, A>], contents: &[Vec<u8>], n: u8) -> Result<(), String> {
    for k in 0..n {
        for (b, m) in bases.iter().zip(contents) {
            let c = b.clone();
            let sub = b.try_subtendril(0, b.len32());
            if c11::bytes_of(&c) != &m[..] || c11::bytes_of(b) != &m[..] {
                return Err(format!("spawning thread, churn {k}: base tendril differs from its model"));
            }
            match sub {
                Ok(s) if c11::bytes_of(&s) == &m[..] => {},
                _ => return Err(format!("spawning thread, churn {k}: full-range subtendril differs from its model")),
            }
        }
    }
    Ok(())
}

fn run_sched<F: Fm>(tc: &TCase, tolerate_wtf8: bool, known_hits: &mut u32) -> Result<(), String> {
    for round in 0..tc.rounds.max(1) {
        let bases: Vec<Tendril<F, Atomic>> = tc.bases.iter().map(|b| F::from_valid(b)).collect();
        // build every thread's pool before the first thread is spawned
        let mut pools = vec![];
        for (ti, th) in tc.threads.iter().enumerate() {
            let mut real: Real<F, Atomic> = Real::new();
            let mut model = Model::new(tc.fmt);
            for sd in &th.seeds {
                let Some(b) = bases.get(sd.base) else {
                    return Err(format!("bad case: thread {ti} seed refers to base {}", sd.base));
                };
                let content = tc.bases[sd.base]
                    .get(sd.off as usize..(sd.off as usize + sd.len as usize))
                    .ok_or_else(|| format!("bad case: thread {ti} seed range"))?
                    .to_vec();
                if sd.slot >= SLOTS {
                    return Err(format!("bad case: thread {ti} seed slot"));
                }
                match sd.kind {
                    0 => {
                        real.slots[sd.slot] = Some(b.clone());
                        model.slots[sd.slot] = Some(tc.bases[sd.base].clone());
                    },
                    1 => {
                        let t = b
                            .try_subtendril(sd.off, sd.len)
                            .map_err(|e| format!("thread {ti} seed: try_subtendril({}, {}) = {e:?}", sd.off, sd.len))?;
                        real.slots[sd.slot] = Some(t);
                        model.slots[sd.slot] = Some(content);
                    },
                    _ => {
                        real.parked.push(b.clone().into_send());
                        model.parked.push(tc.bases[sd.base].clone());
                    },
                }
            }
            pools.push((model, real, th.ops.clone()));
        }
        let barrier = Arc::new(Barrier::new(pools.len() + 1));
        let scope = mon::current_scope();
        let tok = c11::crash::token();
        let mut handles = vec![];
        for (model, real, ops) in pools {
            let bar = barrier.clone();
            handles.push(std::thread::spawn(move || {
                let _g = mon::enter(scope);
                let _c = c11::crash::enter(tok);
                bar.wait();
                let mut obs = Obs { tolerate_wtf8, ..Obs::default() };
                let r = c11::run_seeded::<F, Atomic>(model, real, &ops, &mut obs);
                (r, obs.known_hits)
            }));
        }
        barrier.wait();
        let churned = churn(&bases, &tc.bases, tc.churn);
        let mut keep = Some(bases);
        if tc.early_drop {
            keep = None;
        }
        let first = join_all(handles, round, known_hits);
        drop(keep);
        drop(barrier);
        churned?;
        if let Some(e) = first {
            return Err(e);
        }
    }
    Ok(())
}

/// NonAtomic variant: the bases live on the spawning thread only; the workers
/// get SendTendrils made from clones of them and build NonAtomic pools of
/// their own.  If a SendTendril still shared the base buffer, the unsynchronised
/// reference counts would race.
fn run_sched_na<F: Fm>(tc: &TCase, tolerate_wtf8: bool, known_hits: &mut u32) -> Result<(), String> {
    for round in 0..tc.rounds.max(1) {
        let bases: Vec<Tendril<F, NonAtomic>> = tc.bases.iter().map(|b| F::from_valid(b)).collect();
        let mut packs = vec![];
        for (ti, th) in tc.threads.iter().enumerate() {
            let mut sends = vec![];
            let mut model = Model::new(tc.fmt);
            for sd in &th.seeds {
                let Some(b) = bases.get(sd.base) else {
                    return Err(format!("bad case: thread {ti} seed refers to base {}", sd.base));
                };
                sends.push(if sd.slot & 1 == 0 { b.clone().into_send() } else { tendril::SendTendril::from(b.clone()) });
                model.parked.push(tc.bases[sd.base].clone());
            }
            packs.push((model, sends, th.ops.clone()));
        }
        let barrier = Arc::new(Barrier::new(packs.len() + 1));
        let scope = mon::current_scope();
        let tok = c11::crash::token();
        let mut handles = vec![];
        for (model, sends, ops) in packs {
            let bar = barrier.clone();
            handles.push(std::thread::spawn(move || {
                let _g = mon::enter(scope);
                let _c = c11::crash::enter(tok);
                let mut real: Real<F, NonAtomic> = Real::new();
                real.parked = sends;
                bar.wait();
                let mut obs = Obs { tolerate_wtf8, ..Obs::default() };
                let r = c11::run_seeded::<F, NonAtomic>(model, real, &ops, &mut obs);
                (r, obs.known_hits)
            }));
        }
        barrier.wait();
        let churned = churn(&bases, &tc.bases, tc.churn);
        let mut keep = Some(bases);
        if tc.early_drop {
            keep = None;
        }
        let first = join_all(handles, round, known_hits);
        drop(keep);
        drop(barrier);
        churned?;
        if let Some(e) = first {
            return Err(e);
        }
    }
    Ok(())
}

fn sched(tc: &TCase, tolerate_wtf8: bool, known_hits: &mut u32) -> Result<(), String> {
    if !tc.atomic {
        return match tc.fmt {
            Fmt::Bytes => run_sched_na::<tf::Bytes>(tc, tolerate_wtf8, known_hits),
            Fmt::Utf8 => run_sched_na::<tf::UTF8>(tc, tolerate_wtf8, known_hits),
            Fmt::Ascii => run_sched_na::<tf::ASCII>(tc, tolerate_wtf8, known_hits),
            Fmt::Latin1 => run_sched_na::<tf::Latin1>(tc, tolerate_wtf8, known_hits),
            Fmt::Wtf8 => run_sched_na::<tf::WTF8>(tc, tolerate_wtf8, known_hits),
        };
    }
    match tc.fmt {
        Fmt::Bytes => run_sched::<tf::Bytes>(tc, tolerate_wtf8, known_hits),
        Fmt::Utf8 => run_sched::<tf::UTF8>(tc, tolerate_wtf8, known_hits),
        Fmt::Ascii => run_sched::<tf::ASCII>(tc, tolerate_wtf8, known_hits),
        Fmt::Latin1 => run_sched::<tf::Latin1>(tc, tolerate_wtf8, known_hits),
        Fmt::Wtf8 => run_sched::<tf::WTF8>(tc, tolerate_wtf8, known_hits),
    }
}

// ---------------------------------------------------------------------------
// monitored execution

thread_local! {
    static WARM: Cell<bool> = const { Cell::new(false) };
}

/// One-time lazy initialisations of the runtime on this worker thread (panic
/// machinery, thread spawning) must not be mistaken for leaks of a case.
fn warm_up() {
    if WARM.with(|w| w.replace(true)) {
        return;
    }
    let case = c11::Case {
        fmt: Fmt::Utf8,
        atomic: true,
        ops: vec![
            Op::FromSlice(0, b"0123456789abcdef".to_vec()),
            Op::PopFront(0, 99, false),
            Op::Sub { dst: 1, src: 0, off: 99, len: 1, checked: false },
            Op::Send(0, true),
            Op::SendPark(0),
            Op::SendUnpark(2, true),
        ],
    };
    let mut obs = Obs::default();
    let scope = mon::Scope::begin();
    let _ = c11::interpret(&case, &mut obs);
    drop(scope);
}

/// Run `body` inside an allocation scope.  Err = content divergence or a
/// monitor violation.  A leak signal is confirmed by re-running the case.
fn monitored(
    st: &mut Stats,
    reruns: u32,
    mut body: impl FnMut() -> Result<(), String>,
) -> Result<mon::ScopeOut, String> {
    warm_up();
    let Some(scope) = mon::Scope::begin() else {
        return Err("HARNESS: allocation monitor is not armed".into());
    };
    let r = body();
    let out = scope.end();
    // a content divergence is the primary report; monitor findings are appended
    if let Err(e) = r {
        if out.flags != 0 {
            return Err(format!("{e}; allocation monitor: {}", out.describe()));
        }
        return Err(e);
    }
    if out.flags != 0 {
        return Err(format!("allocation monitor: {}", out.describe()));
    }
    if out.leaked != 0 {
        let mut again = 0;
        for _ in 0..reruns {
            let Some(scope) = mon::Scope::begin() else { break };
            let r2 = body();
            let o2 = scope.end();
            if o2.flags != 0 {
                return Err(format!("allocation monitor (on re-run): {}", o2.describe()));
            }
            if r2.is_ok() && o2.leaked != 0 {
                again += 1;
            }
        }
        if again > 0 {
            return Err(format!(
                "allocation monitor: {} (leak reproduced in {again} of {reruns} re-runs)",
                out.describe()
            ));
        }
        st.label("leak signal not reproduced on re-run (ignored)");
    }
    Ok(out)
}

/// Commit each kind of violation on purpose (with the raw allocation API,
/// physically confined to the monitor's red zones / quarantine) and make sure
/// the monitor reports it; a clean scope must be reported clean.
fn monitor_self_test() -> Result<(), String> {
    use std::alloc::{GlobalAlloc, Layout};
    // call the monitor directly: the optimiser may elide paired calls of the
    // std::alloc::{alloc, dealloc} shims
    unsafe fn alloc(l: Layout) -> *mut u8 {
        std::hint::black_box(mon::Monitor.alloc(l))
    }
    unsafe fn dealloc(p: *mut u8, l: Layout) {
        mon::Monitor.dealloc(std::hint::black_box(p), l)
    }
    let lay = Layout::from_size_align(40, 8).unwrap();
    let run = |what: &str, expect_flags: u32, expect_leak: i64, f: &dyn Fn() -> usize| -> Result<(), String> {
        let scope = mon::Scope::begin().ok_or("monitor not armed")?;
        let keep = f();
        let out = scope.end();
        if keep != 0 {
            unsafe { dealloc(keep as *mut u8, lay) };
        }
        if out.flags != expect_flags || out.leaked != expect_leak {
            return Err(format!(
                "monitor self-test '{what}': flags {:#x} leaked {} (expected {:#x} / {})",
                out.flags, out.leaked, expect_flags, expect_leak
            ));
        }
        Ok(())
    };
    // the guard-page scheme: clean use, and overruns into the alignment slack / the front zone
    mon::set_guard_mode(2);
    unsafe {
        run("guard: clean", 0, 0, &|| {
            let p = alloc(lay);
            p.write_bytes(7, 40);
            dealloc(p, lay);
            0
        })?;
        run("guard: write past the end", mon::F_REDZONE_AFTER, 0, &|| {
            let p = alloc(lay);
            p.add(40).write(1);
            dealloc(p, lay);
            0
        })?;
        run("guard: write before the start", mon::F_REDZONE_BEFORE, 0, &|| {
            let p = alloc(lay);
            p.sub(1).write(1);
            dealloc(p, lay);
            0
        })?;
        run("guard: double free", mon::F_DOUBLE_FREE, 0, &|| {
            let p = alloc(lay);
            dealloc(p, lay);
            dealloc(p, lay);
            0
        })?;
        run("guard: leak", 0, 1, &|| alloc(lay) as usize)?;
    }
    // the red-zone / poison scheme
    mon::set_guard_mode(1);
    let r = monitor_self_test_classic(&run, lay);
    mon::set_guard_mode(0);
    r
}

fn monitor_self_test_classic(
    run: &dyn Fn(&str, u32, i64, &dyn Fn() -> usize) -> Result<(), String>,
    lay: std::alloc::Layout,
) -> Result<(), String> {
    use std::alloc::{GlobalAlloc, Layout};
    unsafe fn alloc(l: Layout) -> *mut u8 {
        std::hint::black_box(mon::Monitor.alloc(l))
    }
    unsafe fn dealloc(p: *mut u8, l: Layout) {
        mon::Monitor.dealloc(std::hint::black_box(p), l)
    }
    unsafe {
        run("clean", 0, 0, &|| {
            let p = alloc(lay);
            p.write_bytes(7, 40);
            dealloc(p, lay);
            0
        })?;
        run("write past the end", mon::F_REDZONE_AFTER, 0, &|| {
            let p = alloc(lay);
            p.add(40).write(1);
            dealloc(p, lay);
            0
        })?;
        run("write before the start", mon::F_REDZONE_BEFORE, 0, &|| {
            let p = alloc(lay);
            p.sub(1).write(1);
            dealloc(p, lay);
            0
        })?;
        run("double free", mon::F_DOUBLE_FREE, 0, &|| {
            let p = alloc(lay);
            dealloc(p, lay);
            dealloc(p, lay);
            0
        })?;
        run("write after free", mon::F_WRITE_AFTER_FREE, 0, &|| {
            let p = alloc(lay);
            dealloc(p, lay);
            p.add(3).write(1);
            0
        })?;
        run("leak", 0, 1, &|| alloc(lay) as usize)?;
        run("wrong layout", mon::F_SIZE_MISMATCH, 0, &|| {
            let p = alloc(lay);
            dealloc(p, Layout::from_size_align(56, 8).unwrap());
            0
        })?;
        run("interior pointer freed", mon::F_INVALID_FREE, 0, &|| {
            let p = alloc(lay);
            dealloc(p.add(16), lay);
            dealloc(p, lay);
            0
        })?;
        // a block allocated by a thread that joined the scope counts for the scope
        run("leak on a spawned thread", 0, 1, &|| {
            let id = mon::current_scope();
            std::thread::spawn(move || {
                let _g = mon::enter(id);
                alloc(lay) as usize
            })
            .join()
            .unwrap()
        })?;
    }
    Ok(())
}

pub const L_H_SHARED: &str = "history: tendril dropped while another shared its heap buffer";
pub const L_H_HEAP: &str = "history: heap buffer allocated";
pub const L_S_SHARED: &str = "schedule: >=2 threads drop clones of one heap buffer";
pub const L_S_SEND: &str = "schedule: SendTendrils of one NonAtomic heap base handed to >=2 threads";
pub const L_S_THREADS: &str = "schedule: worker threads run";
pub const L_ALLOCS: &str = "monitor: allocations tracked inside case scopes";
pub const L_FREES: &str = "monitor: frees tracked inside case scopes";

pub fn oracle_hist(case: &c11::Case, st: &mut Stats, tol: bool) -> Result<(), String> {
    st.eval();
    let _running = c11::crash::running(case);
    let mut obs = Obs::default();
    let out = monitored(st, 1, || {
        obs = Obs { tolerate_wtf8: tol, ..Obs::default() };
        c11::interpret(case, &mut obs)
    })?;
    st.label_n(L_ALLOCS, out.allocs);
    st.label_n(L_FREES, out.frees);
    if obs.known_hits > 0 {
        st.exclude(c11::KF_WTF8);
    }
    c11::record(case, &obs, st);
    if obs.heap_seen > 0 {
        st.label(L_H_HEAP);
    }
    if obs.drop_shared > 0 {
        st.label(L_H_SHARED);
    }
    if obs.heap_seen > 0 && obs.drop_shared > 0 && out.allocs > 0 && out.frees > 0 {
        st.nontrivial(hash64(case), || serde_json::to_value(case).unwrap());
    } else {
        st.exclude("history without a heap buffer dropped while shared");
    }
    Ok(())
}

/// number of bases (heap sized) that >= 2 distinct threads hold a sharing handle of
fn contended_bases(tc: &TCase) -> usize {
    (0..tc.bases.len())
        .filter(|&b| {
            tc.bases[b].len() > 8
                && tc
                    .threads
                    .iter()
                    .filter(|t| {
                        t.seeds
                            .iter()
                            .any(|s| s.base == b && (s.kind == 0 || s.kind == 2 && !tc.atomic || (s.kind == 1 && s.len > 8)))
                    })
                    .count()
                    >= 2
        })
        .count()
}

pub fn oracle_sched(tc: &TCase, st: &mut Stats, tol: bool) -> Result<(), String> {
    st.eval();
    let _running = c11::crash::running(tc);
    let mut hits = 0;
    let out = monitored(st, 20, || {
        hits = 0;
        sched(tc, tol, &mut hits)
    })?;
    st.label_n(L_ALLOCS, out.allocs);
    st.label_n(L_FREES, out.frees);
    st.label_n(L_S_THREADS, tc.threads.len() as u64 * tc.rounds.max(1) as u64);
    if hits > 0 {
        st.exclude(c11::KF_WTF8);
    }
    st.label(match tc.threads.len() {
        2 => "schedule: 2 threads",
        3 | 4 => "schedule: 3-4 threads",
        _ => "schedule: 5-8 threads",
    });
    if contended_bases(tc) > 0 {
        st.label(if tc.atomic { L_S_SHARED } else { L_S_SEND });
        st.nontrivial(hash64(tc), || serde_json::to_value(tc).unwrap());
    } else {
        st.exclude("schedule without a heap buffer shared by >=2 threads");
    }
    Ok(())
}

pub const RULE: &str = "Executed under an instrumented global allocator (32-byte red zones checked on free, live-block table so that double and invalid frees are recorded and not executed, size/alignment of every free compared with the allocation, freed blocks poisoned and quarantined until the case ends and re-checked, per-case scope: blocks allocated by the case - on any thread it spawns - and still live after every Tendril and SendTendril was dropped are leaks, confirmed by re-running the case). Cases: (a) the C11 histories (1..60 ops, thorough 1..200, pool of 6 tendrils, 5 formats x {NonAtomic, Atomic}, incl. SendTendril hops through other threads), content equality with the Vec<u8> model after every op; (b) thread schedules: 1..3 shared Atomic base tendrils, 2..8 threads each seeded with clones / subtendrils / SendTendrils of the bases and running 1..12 generated C11 ops on its own pool after a barrier (about a third of the schedules use NonAtomic bases whose content reaches the workers only as SendTendrils), the spawning thread dropping its handles either concurrently or after join, 1..3 rounds per case. Non-trivial: (a) the history allocated a heap buffer and dropped or overwrote a tendril while another live tendril shared its buffer, with >=1 tracked allocation and free; (b) >=2 threads hold sharing handles (clone or subtendril > 8 bytes) of one heap base buffer, or (NonAtomic variant: bases stay on the spawning thread, workers only get SendTendrils made from clones and build NonAtomic pools) >=2 threads received SendTendrils of one heap base; meanwhile the spawning thread clones/slices/drops its handles 0..23 times. Distinct by hash of the case.";

pub fn run(ctx: &Ctx) -> Report {
    c11::crash::install(&ctx.id);
    let mut rep = Report::new(RULE);
    rep.assume("a tendril bug that kills the process (SIGSEGV/SIGABRT) is reported by a signal handler: VIOLATION line, replay file of the running case, exit status 1");
    rep.assume("out-of-bounds and use-after-free READS are only visible through content equality (red zones / poison change the bytes read); they are the job of the ASan fuzz target");
    rep.assume("real threads do not control the interleaving and x86 hides weak-memory reorderings: an ordering slip (Release->Relaxed) in the refcount is not decidable here");
    if !mon::arm() {
        rep.inconclusive.push(
            "C12 needs the instrumented allocator: run it with the vcheck_alloc binary (target/release/vcheck_alloc C12 <tier>)".into(),
        );
        return rep;
    }
    match monitor_self_test() {
        Ok(()) => rep.stats.label("monitor self-test (9 deliberate violations detected)"),
        Err(e) => {
            rep.inconclusive.push(e);
            return rep;
        },
    }
    let tol = ctx.tolerate(c11::KF_WTF8);
    let q = ctx.tier == Tier::Quick;
    let scale = if q { 1 } else { 50 };
    rep.need(L_H_SHARED, 10_000 * scale);
    rep.need(L_H_HEAP, 30_000 * scale);
    rep.need(L_S_SHARED, 800 * scale);
    rep.need(L_S_SEND, 300 * scale);
    rep.need(L_ALLOCS, 500_000 * scale);
    rep.need(c11::L_THREAD, 300 * scale);
    run_regressions(ctx, &mut rep, &|v| replay(&ctx.strict_clone(), v));
    report_known(ctx, &mut rep, &|v| replay(&ctx.strict_clone(), v));
    let out = if q {
        run_random(ctx.seed, 100_000, 1000, c11::decode, |c, st| oracle_hist(c, st, tol))
    } else {
        run_random(ctx.seed, 5_000_000, 2400, |s: &mut Src| c11::decode_n(s, 200), |c, st| oracle_hist(c, st, tol))
    };
    rep.absorb(out);
    let out = run_random(
        ctx.seed ^ 0x5c4ed,
        ctx.tier.pick(3_000, 200_000),
        1500,
        decode_t,
        |c, st| oracle_sched(c, st, tol),
    );
    rep.absorb(out);
    mon::disarm();
    if mon::overflowed() {
        rep.inconclusive
            .push("allocation monitor: live-block table overflowed, some blocks were not tracked".into());
    }
    let g = mon::global_flags();
    if g != 0 {
        rep.failures.push(Failure {
            case: Value::Null,
            what: format!(
                "allocation monitor recorded violations outside any active case scope (flags {g:#x}: 1 double free, 2 invalid free, 4/8 red zone, 16 write after free, 32 layout mismatch)"
            ),
        });
    }
    rep
}

pub fn replay(ctx: &Ctx, v: &Value) -> Result<(), String> {
    c11::crash::install(&ctx.id);
    if !mon::arm() {
        return Err("C12 replay needs the vcheck_alloc binary (instrumented allocator)".into());
    }
    let mut st = Stats::default();
    // a replay runs the case under both allocation schemes (guard pages, then red zones)
    let mut r = Ok(());
    for mode in [2u8, 1] {
        mon::set_guard_mode(mode);
        r = if v.get("threads").is_some() {
            let tc: TCase = serde_json::from_value(v.clone()).map_err(|e| format!("bad case: {e}"))?;
            oracle_sched(&tc, &mut st, false)
        } else {
            let case: c11::Case = serde_json::from_value(v.clone()).map_err(|e| format!("bad case: {e}"))?;
            oracle_hist(&case, &mut st, false)
        };
        if r.is_err() {
            break;
        }
    }
    mon::set_guard_mode(0);
    r
}
