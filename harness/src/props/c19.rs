//! C19 — encoding indicators are raised exactly for meta-declared encodings.

use crate::engine::*;
use crate::gen::cases::{gen_tree_case, TreeCase};
use crate::gen::chunks;
use crate::props::c02;
use crate::refimpl::metacharset::extract_charset;
use crate::sinks::canon::{first_diff, CanonOpts};
use crate::sinks::drive::{drive, Pause, TreeCfg};
use crate::sinks::model::{model_canon, Event, MKind, ModelDom, DOC};
use serde_json::{json, Value};
use std::cell::RefCell;

/// same-length rename that keeps the case pattern: charset -> charsex, http-equiv -> http-equix
fn twin(s: &str) -> String {
    fn rename(s: &str, word: &str) -> String {
        let lower = s.to_ascii_lowercase();
        let mut out = String::with_capacity(s.len());
        let mut i = 0;
        let b = s.as_bytes();
        while i < s.len() {
            if lower[i..].starts_with(word) && s.is_char_boundary(i) {
                out.push_str(&s[i..i + word.len() - 1]);
                let last = b[i + word.len() - 1];
                out.push(if last.is_ascii_uppercase() { 'X' } else { 'x' });
                i += word.len();
            } else {
                let c = s[i..].chars().next().unwrap();
                out.push(c);
                i += c.len_utf8();
            }
        }
        out
    }
    rename(&rename(s, "charset"), "http-equiv")
}

fn expected_label(charset: &Option<String>, http_equiv: &Option<String>, content: &Option<String>) -> Option<String> {
    if let Some(c) = charset {
        return Some(c.clone());
    }
    if let (Some(h), Some(c)) = (http_equiv, content) {
        if h.eq_ignore_ascii_case("content-type") {
            return extract_charset(c);
        }
    }
    None
}

struct Obs {
    labels: Vec<String>,
    connected: Vec<bool>,
    tree: String,
}

fn observe(cfg: &TreeCfg, chunks_: &[String]) -> Obs {
    let mut sink = ModelDom::for_cfg(cfg);
    sink.record_events = true;
    let labels = RefCell::new(vec![]);
    let connected = RefCell::new(vec![]);
    let (dom, _, _) = drive(sink, cfg, chunks_, |parser, pause, _, label| {
        if pause == Pause::Encoding {
            labels.borrow_mut().push(label.unwrap_or("").to_string());
            // the meta element just created must already be in the tree
            let dom = &parser.tokenizer.sink.sink;
            let last_meta = dom.events.borrow().iter().rev().find_map(|e| match e {
                Event::Created { node } => match &dom.nodes.borrow()[*node].kind {
                    MKind::Element { name, .. } if &*name.local == "meta" && &*name.ns == "http://www.w3.org/1999/xhtml" => Some(*node),
                    _ => None,
                },
                _ => None,
            });
            let ok = match last_meta {
                None => false,
                Some(m) => {
                    let nodes = dom.nodes.borrow();
                    let shadow = dom.shadow_hosts.borrow();
                    let mut cur = Some(m);
                    let mut ok = false;
                    while let Some(c) = cur {
                        if c == DOC {
                            ok = true;
                            break;
                        }
                        // a template-contents fragment continues with its template element, or -
                        // when it was attached as a declarative shadow root - with its host
                        cur = nodes[c].parent.or_else(|| {
                            nodes[c].host.map(|t| shadow.iter().find(|(_, tmpl)| *tmpl == t).map(|(h, _)| *h).unwrap_or(t))
                        });
                    }
                    ok && nodes[m].parent.is_some()
                },
            };
            connected.borrow_mut().push(ok);
        }
    });
    Obs { labels: labels.into_inner(), connected: connected.into_inner(), tree: model_canon(&dom, DOC, CanonOpts::default()) }
}

pub fn check_with(ctx_kf: &crate::refimpl::treebuilder::Switches, tc: &TreeCase, st: &mut Stats) -> Result<(), String> {
    st.eval();
    let mut cfg = tc.cfg.clone();
    cfg.drop_doctype = false;
    let obs = observe(&cfg, &tc.chunks);
    // resuming continues as if nothing had happened: twin document without declarations
    // (decided before, and independently of, the comparison with the reference tree builder)
    let tw_input = twin(&tc.input);
    let tw_chunks: Vec<String> = {
        // same cut positions (the rename keeps lengths)
        let mut out = vec![];
        let mut pos = 0;
        for c in &tc.chunks {
            out.push(tw_input[pos..pos + c.len()].to_string());
            pos += c.len();
        }
        out
    };
    let tw = observe(&cfg, &tw_chunks);
    let low_in = tc.input.to_ascii_lowercase();
    if low_in.contains("charsex") || low_in.contains("http-equix") {
        // the renamed spellings already occur in the input: the twin could gain a repeated
        // attribute name that the original does not have
        st.exclude("input already contains the twin's replacement spelling");
    } else if !tw.labels.is_empty() {
        // e.g. "charset" produced by a character reference: not comparable
        st.exclude("twin document still declares an encoding");
    } else if twin(&tw.tree) != twin(&obs.tree) {
        return Err(format!(
            "tree after resuming from the indicators differs from the twin document without declarations: {}",
            first_diff(&twin(&obs.tree), &twin(&tw.tree))
        ));
    }
    let rf = c02::run_reference(&cfg, &tc.input, ctx_kf);
    if rf.dump != obs.tree {
        st.exclude("tree differs from the reference (decided by C02)");
        return Ok(());
    }
    let expected: Vec<String> = rf.metas.iter().filter_map(|(c, h, ct)| expected_label(c, h, ct)).collect();
    if obs.labels != expected {
        return Err(format!(
            "EncodingIndicator sequence {:?}, expected {:?} from the inserted meta elements {:?}; chunks {:?}",
            obs.labels, expected, rf.metas, tc.chunks
        ));
    }
    if let Some(i) = obs.connected.iter().position(|c| !*c) {
        return Err(format!("indicator #{i} was returned before its meta element was in the tree"));
    }
    if !expected.is_empty() {
        st.label("indicator expected");
        if rf.metas.iter().any(|(c, _, _)| c.is_none()) && rf.metas.iter().any(|(_, h, _)| h.is_some()) {
            st.label("label extracted from content");
        }
    }
    let silent = rf.metas.len() - rf.metas.iter().filter(|(c, h, ct)| expected_label(c, h, ct).is_some()).count();
    if silent > 0 {
        st.label("meta that must not fire");
    }
    let low = tc.input.to_ascii_lowercase();
    if low.contains("charset") && rf.metas.is_empty() {
        st.label("charset text without an inserted meta element");
    }
    if !rf.metas.is_empty() || low.contains("charset") {
        st.nontrivial(hash64(tc), || serde_json::to_value(tc).unwrap());
    }
    Ok(())
}

const CONTENT_TOKENS: &[&str] = &["charset", "ChArSeT", "x", " ", "\t", "\x0C", "\n", "\r", "=", "\"", "'", ";", "é", "c", "chars"];

fn content_string(mut k: u64, n: usize) -> String {
    let mut s = String::new();
    for _ in 0..n {
        s.push_str(CONTENT_TOKENS[(k % CONTENT_TOKENS.len() as u64) as usize]);
        k /= CONTENT_TOKENS.len() as u64;
    }
    s
}

fn attr_escape(v: &str) -> String {
    v.replace('&', "&amp;").replace('"', "&quot;")
}

const META_FORMS: &[&str] = &[
    "<meta charset=utf-8>", "<meta charset=\"\">", "<meta CHARSET='x y'>", "<meta charset>", "<meta http-equiv=content-type content=\"text/html; charset=utf-8\">",
    "<meta http-equiv=Content-Type content='charset = \"a b\"'>", "<meta http-equiv=CONTENT-TYPE content=charset=x;y>",
    "<meta http-equiv=refresh content=charset=x>", "<meta content=charset=x>", "<meta http-equiv=content-type>",
    "<meta http-equiv=content-type content='charset'>", "<meta http-equiv=content-type content='charset=\"x'>",
    "<meta http-equiv=content-type content='charsetcharset=z'>", "<meta charset=a http-equiv=content-type content=charset=b>",
    "<meta name=x content=y>", "<meta http-equiv=content-type content='charset\x0C=\x0Cff'>", "<meta http-equiv=content-type content='charset=a\x0Cb'>",
    "<meta http-equiv=content-type content='charset\n=\r\nlf;x'>", "<meta http-equiv=\"content-type \" content=charset=q>", "<meta/>", "<META CHARSET=K/>",
    "<link charset=l>", "<base charset=b>", "<basefont charset=f>", "<bgsound charset=s>", "<meta charset=1 charset=2>",
    "<meta http-equiv=content-type content='text/html;charset=\u{e9}'>", "<svg><meta charset=in-svg>", "<math><mi><meta charset=in-mi>",
];
const PLACES: &[&str] = &[
    "", "<head>", "<head><noscript>", "</head>", "<body>", "<table>", "<table><tr><td>", "<table><caption>", "<template>", "</body>",
    "</html>", "<frameset>", "<frameset></frameset>", "<svg>", "<svg><foreignObject>", "<select>", "<title>", "<script>", "<p><b>",
    "<textarea>", "<colgroup>", "<math><annotation-xml encoding=text/html>", "<!--", "<noframes>", "<iframe>",
];

pub fn decode(s: &mut Src) -> TreeCase {
    let mut tc = gen_tree_case(s, true, 14);
    let mut input = String::new();
    let n = s.range(1, 3);
    for _ in 0..n {
        input.push_str(*s.pick(PLACES));
        if s.chance(70) {
            // a random content string over a wider alphabet than part (1): other spellings of the
            // keyword, and characters whose Unicode case mappings change their UTF-8 length
            const WIDE: &[&str] = &[
                "charset", "CHARSET", "Charset", "charſet", "char", "set", "c", "ch", "charse", "C", "chars", "t", "x", "utf-8", " ", "\t", "\x0C", "\n", "\r", "=", "\"", "'", ";", "é", "İ", "\u{212A}",
                "\u{212B}", "\u{2126}", "ẞ", "Ⱥ", "Ⱦ", "ı", "ß", "😁", "text/html", ",", "==",
            ];
            let mut content = String::new();
            for _ in 0..s.range(1, 8) {
                content.push_str(*s.pick(WIDE));
            }
            let he = *s.pick(&["content-type", "Content-Type", "CONTENT-TYPE", "content-type", "content‐type", "refresh"]);
            input.push_str(&format!("<meta http-equiv={he} content=\"{}\">", attr_escape(&content)));
        } else {
            input.push_str(*s.pick(META_FORMS));
        }
        if s.chance(40) {
            // a U+FEFF right where the parser resumes
            input.push('\u{feff}');
        }
        if s.chance(60) {
            input.push_str(&tc.input);
        }
    }
    if s.chance(128) {
        input.push_str(&tc.input);
    }
    tc.input = input;
    // options that must not matter for the indicators
    tc.cfg.profile = s.chance(60);
    tc.cfg.discard_bom = s.bool();
    tc.cfg.tok_exact_errors = s.chance(60);
    tc.cfg.tb_exact_errors = s.chance(40);
    let cs = tc.input.chars().count();
    let cuts = chunks::gen_cuts(s, cs);
    tc.chunks = chunks::chunk_str(&tc.input, &cuts);
    tc
}

pub fn run(ctx: &Ctx) -> Report {
    let mut rep = Report::new(
        "Observed: the sequence of TokenizerResult::EncodingIndicator(label) values returned by feed() while parsing into ModelDom, and whether the meta element was already connected to the document (or template contents) when feed() returned. Expected: for each HTML meta element the reference tree builder inserted (inputs on which html5ever's tree equals the reference's; others are C02's and counted as excluded), in order: its charset value if present, else - when http-equiv matches content-type ASCII-case-insensitively and content is present - the result of a char-based transcription of the WHATWG 'extract a character encoding from a meta element' algorithm, if it returns one; nothing otherwise. Resumption: the final tree must equal the tree of the twin document in which charset/http-equiv are renamed (same lengths, same chunk cuts) so that no indicator fires. Search: (1) every content string of <= L grammar tokens over {charset, ChArSeT, x, SPACE, TAB, FF, LF, CR, =, \", ', ;, é, c, chars} in <meta http-equiv=content-type content=...>; (2) 26 meta/link/base forms placed after 25 context prefixes (head, noscript-in-head, after head, body, table/foster-parented, caption/cell, template, after body, frameset modes, foreign content, raw-text elements, comments) and random content strings over a wider alphabet (other spellings of the keyword, characters whose case mappings change length) x grammar-generated surroundings x fragment contexts x profile / exact_errors on and off x random chunkings. Non-trivial: >=1 meta inserted or 'charset' in the input; distinct by case hash.",
    );
    rep.assume("labels are reported unvalidated (html5ever documents that); an empty charset value is reported as the empty label");
    report_known(ctx, &mut rep, &|v| replay(&ctx.strict_clone(), v));
    run_regressions(ctx, &mut rep, &|v| replay(&ctx.strict_clone(), v));
    let kf = c02::active_switches(ctx);
    // (1)
    let l = ctx.tier.pick(5usize, 6usize);
    let nt = CONTENT_TOKENS.len() as u64;
    let total: u64 = (0..=l).map(|d| nt.pow(d as u32)).sum();
    let out = run_exhaustive(total, |idx, st| {
        let mut k = idx;
        let mut d = 0;
        loop {
            let c = nt.pow(d as u32);
            if k < c {
                break;
            }
            k -= c;
            d += 1;
        }
        let content = content_string(k, d);
        let input = format!("<meta http-equiv=content-type content=\"{}\">x", attr_escape(&content));
        // direct oracle on the label, too
        let tc = TreeCase { cfg: TreeCfg::default(), input: input.clone(), chunks: vec![input] };
        let r = check_with(&kf, &tc, st);
        if extract_charset(&content).is_some() {
            st.label("content string yields a label");
        }
        r.map_err(|what| Failure { case: serde_json::to_value(&tc).unwrap(), what })
    });
    rep.absorb(out);
    rep.extra.insert("content_strings".into(), json!({"tokens": nt, "max_len": l, "cases": total}));
    // (2)
    // (profile=true makes the tokenizer print timing tables)
    let out = with_stdout_silenced(|| run_random(ctx.seed, ctx.tier.pick(1_000_000, 15_000_000), 1500, decode, |c, st| check_with(&kf, c, st)));
    rep.absorb(out);
    for l in ["indicator expected", "meta that must not fire", "content string yields a label", "label extracted from content"] {
        rep.need(l, 200);
    }
    rep
}

pub fn replay(ctx: &Ctx, v: &Value) -> Result<(), String> {
    let case: TreeCase = serde_json::from_value(v.clone()).map_err(|e| format!("bad case: {e}"))?;
    let mut st = Stats::default();
    let kf = c02::active_switches(ctx);
    with_stdout_silenced(|| check_with(&kf, &case, &mut st))
}
