//! C14 — every character reference resolves to its WHATWG value.
//! Finite spaces, enumerated exhaustively.

use crate::engine::*;
use crate::props::c01::{self, Cold};
use crate::refimpl::tokenizer::{entities, numeric_value};
use crate::sinks::tokrec::*;
use serde::{Deserialize, Serialize};
use serde_json::{json, Value};

#[derive(Serialize, Deserialize, Clone, Debug, Hash, PartialEq, Eq)]
pub struct Case {
    /// "data" | "rcdata" | "dq" | "sq" | "unq" | "xml-text" | "table"
    pub ctx: String,
    /// text placed in that context (starts with '&')
    pub text: String,
}

const FOLLOWERS: &[&str] = &[
    "", "=", "&", "<", " ", "\n", "\"", "'", "#", ">", "/", "\0", "\r", "\t", "-", "é", "&amp;", "&#65;",
];
const ALNUM: &str = "abcdefghijklmnopqrstuvwxyzABCDEFGHIJKLMNOPQRSTUVWXYZ0123456789;";
pub const CTXS: &[&str] = &["data", "rcdata", "dq", "sq", "unq"];

fn build(ctx: &str, text: &str) -> c01::Case {
    let (cold, last, input) = match ctx {
        "data" => (Cold::Data, None, text.to_string()),
        "rcdata" => (Cold::Rcdata, Some("a".to_string()), text.to_string()),
        "dq" => (Cold::Data, None, format!("<a x=\"{text}\">")),
        "sq" => (Cold::Data, None, format!("<a x='{text}'>")),
        "unq" => (Cold::Data, None, format!("<a x={text}>")),
        _ => panic!("bad ctx"),
    };
    c01::Case {
        cold,
        last_start_tag: last,
        policy: Policy { kind: PolicyKind::AllContinue, cdata: CdataMode::Never },
        exact_errors: false,
        input,
    }
}

/// Direct expectation, independent of the reference tokenizer's state machine:
/// for `&name;` exactly (a table entry ending in ';') in text, the output is the
/// table's code points; for `&#xH;` it is `numeric_value(H)`.
fn direct_text(real: &[NTok]) -> String {
    let mut s = String::new();
    for t in real {
        match t {
            NTok::Chars(c) => s.push_str(c),
            NTok::Null => s.push('\0'),
            _ => {},
        }
    }
    s
}

pub fn check(case: &Case, st: &mut Stats) -> Result<(), String> {
    st.eval();
    if case.ctx == "xml-text" {
        return check_xml(case, st);
    }
    if case.ctx == "xml-seq-text" || case.ctx == "xml-seq-attr" {
        return check_xml_seq(case);
    }
    if case.ctx == "xml-ref-text" || case.ctx == "xml-ref-attr" || case.ctx == "xml-ref-eof" {
        return check_xml_ref(case);
    }
    if case.ctx == "table" {
        return check_table();
    }
    let c = build(&case.ctx, &case.text);
    // (a) differential against the reference character-reference algorithm
    c01::compare(&c, st).map_err(|e| format!("{} context, text {:?}: {e}", case.ctx, case.text))?;
    // (b) direct expectations where they are unambiguous
    if case.ctx == "data" {
        let name = &case.text[1..];
        if let Some(cps) = entities().map.get(name) {
            if name.ends_with(';') {
                let real = c01::run_real(&c, &[c.input.clone()], false);
                let got = direct_text(&toks_only(&strip_errors(&real.raw)));
                let exp: String = cps.iter().collect();
                if got != exp {
                    return Err(format!("&{name} produced {got:?}, table says {exp:?}"));
                }
            }
        }
    }
    Ok(())
}

// xml5ever shares the table: `&name;` in element content must give the code points.
fn check_xml(case: &Case, _st: &mut Stats) -> Result<(), String> {
    use std::cell::RefCell;
    use xml5ever::tokenizer::{ProcessResult, Token, TokenSink, XmlTokenizer};
    struct S(RefCell<String>);
    impl TokenSink for S {
        type Handle = ();
        fn process_token(&self, token: Token) -> ProcessResult<()> {
            match token {
                Token::Characters(t) => self.0.borrow_mut().push_str(&t),
                Token::NullCharacter => self.0.borrow_mut().push('\0'),
                _ => {},
            }
            ProcessResult::Continue
        }
    }
    let tok = XmlTokenizer::new(S(RefCell::new(String::new())), Default::default());
    let q = markup5ever::buffer_queue::BufferQueue::default();
    q.push_back(tendril::StrTendril::from(case.text.as_str()));
    let _ = tok.feed(&q);
    tok.end();
    let got = tok.sink.0.borrow().clone();
    let name = &case.text[1..];
    let cps = entities().map.get(name).ok_or("not a table name")?;
    let exp: String = cps.iter().collect();
    if got != exp {
        return Err(format!("xml5ever: {:?} produced {got:?}, table says {exp:?}", case.text));
    }
    Ok(())
}

/// xml5ever: what `s` becomes as element content / as a double-quoted attribute value.
fn xml_eval(attr: bool, s: &str) -> String {
    use std::cell::RefCell;
    use xml5ever::tokenizer::{ProcessResult, Token, TokenSink, XmlTokenizer};
    struct S(RefCell<String>, bool);
    impl TokenSink for S {
        type Handle = ();
        fn process_token(&self, token: Token) -> ProcessResult<()> {
            match token {
                Token::Characters(t) if !self.1 => self.0.borrow_mut().push_str(&t),
                Token::NullCharacter if !self.1 => self.0.borrow_mut().push('\0'),
                Token::Tag(t) if self.1 => {
                    for a in t.attrs.iter() {
                        if &*a.name.local == "v" {
                            self.0.borrow_mut().push_str(&a.value);
                        }
                    }
                },
                _ => {},
            }
            ProcessResult::Continue
        }
    }
    let tok = XmlTokenizer::new(S(RefCell::new(String::new()), attr), Default::default());
    let q = markup5ever::buffer_queue::BufferQueue::default();
    // a trailing U+0001 asks for end of input right after the text (element content only)
    let doc = if attr {
        format!("<r v=\"{s}\"/>")
    } else if let Some(t) = s.strip_suffix('\u{1}') {
        format!("<r>{t}")
    } else {
        format!("<r>{s}</r>")
    };
    q.push_back(tendril::StrTendril::from(doc.as_str()));
    let _ = tok.feed(&q);
    tok.end();
    let out = tok.sink.0.borrow().clone();
    out
}

/// xml5ever resolves a reference-shaped piece to what the WHATWG algorithm prescribes for the same
/// characters in HTML text / in a double-quoted attribute value (computed by the reference
/// tokenizer).  Used for numeric references and for strings that are not references at all.
fn check_xml_ref(case: &Case) -> Result<(), String> {
    let attr = case.ctx == "xml-ref-attr";
    let got = if case.ctx == "xml-ref-eof" { xml_eval(false, &format!("{}\u{1}", case.text)) } else { xml_eval(attr, &case.text) };
    let want = if attr {
        let c = build("dq", &case.text);
        let rf = c01::run_ref(&c);
        let mut v = String::new();
        for (t, _) in rf.rec.iter() {
            if let NTok::Tag { attrs, .. } = t {
                if let Some((_, val)) = attrs.first() {
                    v = val.clone();
                }
            }
        }
        v
    } else {
        let c = build("data", &case.text);
        direct_text(&toks_only(&strip_errors(&c01::run_ref(&c).rec)))
    };
    // xml5ever turns U+0000 into U+FFFD on every path (C15); the HTML data state keeps it apart
    let want = want.replace('\0', "\u{fffd}");
    if got != want {
        return Err(format!(
            "xml5ever resolves {:?} ({}) to {got:?}; the WHATWG character-reference algorithm gives {want:?}",
            case.text,
            if attr { "attribute value" } else { "element content" }
        ));
    }
    Ok(())
}

/// No state leaks from one reference to the next: two reference-shaped pieces separated by a
/// space resolve exactly as each does alone (`text` holds the two pieces separated by U+0001).
fn check_xml_seq(case: &Case) -> Result<(), String> {
    let attr = case.ctx == "xml-seq-attr";
    let (a, b) = case.text.split_once('\u{1}').ok_or("bad xml-seq case")?;
    let whole = xml_eval(attr, &format!("{a} {b}"));
    let parts = format!("{} {}", xml_eval(attr, a), xml_eval(attr, b));
    if whole != parts {
        return Err(format!(
            "xml5ever: {:?} resolves to {whole:?}, but its two pieces alone resolve to {parts:?} (state leaks between character references)",
            format!("{a} {b}")
        ));
    }
    Ok(())
}

/// (0) table identity between web_atoms::NAMED_ENTITIES and the frozen table.
fn check_table() -> Result<(), String> {
    let e = entities();
    let real = &web_atoms::NAMED_ENTITIES;
    for (name, cps) in &e.list {
        let want = (cps[0] as u32, cps.get(1).map(|c| *c as u32).unwrap_or(0));
        match real.get(name.as_str()) {
            Some(v) if *v == want => {},
            other => return Err(format!("NAMED_ENTITIES[{name:?}] = {other:?}, expected {want:?}")),
        }
        // every proper prefix must be present (value (0,0) unless itself a name)
        for n in 1..name.len() {
            let p = &name[..n];
            match real.get(p) {
                None => return Err(format!("prefix {p:?} of {name:?} missing from NAMED_ENTITIES")),
                Some(v) => {
                    let is_name = e.map.contains_key(p);
                    if !is_name && *v != (0, 0) {
                        return Err(format!("prefix {p:?} maps to {v:?} but is not a name"));
                    }
                },
            }
        }
    }
    for (k, v) in real.entries() {
        if *v != (0, 0) && !e.map.contains_key(*k) {
            return Err(format!("NAMED_ENTITIES has extra name {k:?} = {v:?}"));
        }
        if *v == (0, 0) && !e.list.iter().any(|(n, _)| n.starts_with(*k)) {
            return Err(format!("NAMED_ENTITIES has stray prefix key {k:?}"));
        }
    }
    Ok(())
}

pub fn run(ctx: &Ctx) -> Report {
    let mut rep = Report::new(
        "Exhaustive enumeration: (0) web_atoms::NAMED_ENTITIES vs the frozen Python html.entities.html5 table (every name, every proper prefix, nothing extra); (1) each of the 2231 names and each name truncated by one character x {63 alphanumeric-or-semicolon extensions, 18 other followers incl. EOF, = & < space LF CR NUL quotes # and a following reference} x {data, RCDATA, double-quoted, single-quoted, unquoted attribute value} through html5ever's tokenizer, expected output from the reference character-reference algorithm (longest match over the frozen table, legacy attribute exception, missing-semicolon rule) and directly from the table for exact ';'-terminated names; (2) numeric references: every value 0..=0x110000 as hex with ';' in text, the other forms (decimal, without ';', attribute context, upper-case X) on a stride (quick 1/16, thorough every value), overflow digit strings of 1..24 digits, every value within 130 of 2^k (k up to 65), 10^k and 0x10FFFF in decimal and hex (plus trailing digits / leading zeros), leading zeros, name-character runs of length 2^k-1..2^k+2 up to 2^16 after '&', after a complete entity name and as leading zeros of numeric references, digit-less '&#'/'&#x' with followers; (3) every ';'-terminated name through xml5ever's tokenizer; every ordered pair of 29 reference-shaped pieces, in element content and in an attribute value, must resolve exactly as each piece does alone (no state leaks between references); numeric references (every value on a stride, all values around the range edges, overflow strings) and digit-less / name-less non-references through xml5ever against the reference algorithm's result for the same characters. Non-trivial: every case is a character-reference case; distinct by (context, text).",
    );
    rep.assume("frozen entity table = Python 3 html.entities.html5 (2231 names, identical to the WHATWG table)");
    report_known(ctx, &mut rep, &|v| replay(&ctx.strict_clone(), v));
    run_regressions(ctx, &mut rep, &|v| replay(&ctx.strict_clone(), v));
    let mut all_done = true;

    // (0)
    {
        let mut st = Stats::default();
        let c = Case { ctx: "table".into(), text: "&".into() };
        if let Err(what) = check(&c, &mut st) {
            rep.failures.push(Failure { case: serde_json::to_value(&c).unwrap(), what });
            all_done = false;
        }
        rep.stats.merge(st);
        rep.stats.label("table identity checked");
    }

    // (1) names
    let e = entities();
    let mut stems: Vec<String> = vec![];
    for (n, _) in &e.list {
        stems.push(n.clone());
        let t: String = n[..n.len() - 1].to_string();
        if !t.is_empty() && !e.map.contains_key(&t) {
            stems.push(t);
        }
    }
    stems.sort();
    stems.dedup();
    let mut sufs: Vec<String> = FOLLOWERS.iter().map(|s| s.to_string()).collect();
    for c in ALNUM.chars() {
        sufs.push(c.to_string());
    }
    // two-character extensions that matter for the legacy exception
    for s in ["a=", ";=", "1;", "=;", "a;"] {
        sufs.push(s.to_string());
    }
    let total = (stems.len() * sufs.len() * CTXS.len()) as u64;
    let out = run_exhaustive(total, |idx, st| {
        let i = idx as usize;
        let cx = CTXS[i % CTXS.len()];
        let su = &sufs[(i / CTXS.len()) % sufs.len()];
        let stem = &stems[i / CTXS.len() / sufs.len()];
        // an unquoted value cannot contain these followers meaningfully, still fine to test
        let c = Case { ctx: cx.into(), text: format!("&{stem}{su}") };
        let r = check(&c, st);
        st.nontrivial(hash64(&c), || serde_json::to_value(&c).unwrap());
        st.label(&format!("named:{cx}"));
        r.map_err(|what| Failure { case: serde_json::to_value(&c).unwrap(), what })
    });
    all_done &= out.failures.is_empty();
    rep.absorb(out);

    // (2) numeric
    let stride: u64 = ctx.tier.pick(16, 1);
    let out = run_exhaustive(0x110001, |v, st| {
        let mut forms = vec![("data", format!("&#x{v:X};"))];
        if v % stride == (ctx.seed % stride) {
            forms.push(("data", format!("&#{v};")));
            forms.push(("data", format!("&#x{v:x}")));
            forms.push(("data", format!("&#{v}g")));
            forms.push(("data", format!("&#X{v:x}g")));
            forms.push(("rcdata", format!("&#{v};")));
            forms.push(("dq", format!("&#x{v:X};")));
            forms.push(("unq", format!("&#{v}")));
            forms.push(("sq", format!("&#x{v:x}=")));
            forms.push(("data", format!("&#x000{v:X};")));
        }
        for (cx, text) in forms {
            let c = Case { ctx: cx.into(), text };
            // direct expectation for the canonical form
            let r = check(&c, st).and_then(|_| {
                if cx == "data" && c.text.ends_with(';') {
                    let cc = build(cx, &c.text);
                    let real = c01::run_real(&cc, &[cc.input.clone()], false);
                    let got = direct_text(&toks_only(&strip_errors(&real.raw)));
                    let exp = numeric_value(v).to_string();
                    if got != exp {
                        return Err(format!("{:?} produced {got:?}, expected {exp:?}", c.text));
                    }
                }
                Ok(())
            });
            st.nontrivial(hash64(&c), || serde_json::to_value(&c).unwrap());
            st.label("numeric");
            r.map_err(|what| Failure { case: serde_json::to_value(&c).unwrap(), what })?;
        }
        Ok(())
    });
    all_done &= out.failures.is_empty();
    rep.absorb(out);
    // overflow lengths, leading zeros, digit-less forms
    let mut extra: Vec<Case> = vec![];
    for cx in CTXS {
        for n in 1..=24 {
            for d in ["9", "1", "0", "F", "f", "7"] {
                for semi in ["", ";", "x", "="] {
                    let digits = d.repeat(n);
                    if d != "F" && d != "f" {
                        extra.push(Case { ctx: cx.to_string(), text: format!("&#{digits}{semi}") });
                    }
                    extra.push(Case { ctx: cx.to_string(), text: format!("&#x{digits}{semi}") });
                    extra.push(Case { ctx: cx.to_string(), text: format!("&#X{digits}{semi}") });
                }
            }
        }
        for f in FOLLOWERS.iter().chain(["x", "X", "g", "G", ";", "a", "1"].iter()) {
            extra.push(Case { ctx: cx.to_string(), text: format!("&#{f}") });
            extra.push(Case { ctx: cx.to_string(), text: format!("&#x{f}") });
            extra.push(Case { ctx: cx.to_string(), text: format!("&#X{f}") });
            extra.push(Case { ctx: cx.to_string(), text: format!("&{f}") });
            extra.push(Case { ctx: cx.to_string(), text: format!("&#1114111{f}") });
            extra.push(Case { ctx: cx.to_string(), text: format!("&#1114112{f}") });
            extra.push(Case { ctx: cx.to_string(), text: format!("&#4294967361{f}") }); // 2^32+65
            extra.push(Case { ctx: cx.to_string(), text: format!("&#x100000041{f}") });
            extra.push(Case { ctx: cx.to_string(), text: format!("&#18446744073709551681{f}") }); // 2^64+65
        }
    }
    // values around every place an accumulator can wrap or saturate: 2^k and 10^k (+-130), and
    // the decimal strings that first exceed u32 in the final addition rather than the multiplication
    let mut pivots: Vec<u128> = vec![];
    for k in [7u32, 8, 15, 16, 20, 21, 24, 31, 32, 33, 36, 40, 48, 63, 64, 65] {
        pivots.push(1u128 << k);
    }
    for k in [5u32, 6, 7, 9, 10, 11, 19, 20, 21] {
        pivots.push(10u128.pow(k));
    }
    pivots.push(0x10FFFF);
    pivots.push(0x110000);
    let deltas: Vec<i128> = (-130i128..=130).collect();
    for cx in ["data", "dq"] {
        for pv in &pivots {
            for d in &deltas {
                let v = *pv as i128 + *d;
                if v < 0 {
                    continue;
                }
                extra.push(Case { ctx: cx.to_string(), text: format!("&#{v};") });
                extra.push(Case { ctx: cx.to_string(), text: format!("&#x{v:x};") });
                if d.rem_euclid(16) == 0 {
                    extra.push(Case { ctx: cx.to_string(), text: format!("&#{v}0;") });
                    extra.push(Case { ctx: cx.to_string(), text: format!("&#{v}65") });
                    extra.push(Case { ctx: cx.to_string(), text: format!("&#x{v:X}41;") });
                    extra.push(Case { ctx: cx.to_string(), text: format!("&#000{v};") });
                }
            }
        }
    }
    // long names: a run of name characters of every length around 2^k up to 2^16 (buffers,
    // strides, caps), that matches no entity / follows a complete entity name / is all digits
    for cx in CTXS {
        for k in [4u32, 5, 6, 7, 8, 10, 12, 13, 14, 16] {
            for d in [-1i64, 0, 1, 2] {
                let n = ((1i64 << k) + d) as usize;
                let run: String = (0..n).map(|i| ALNUM.as_bytes()[(i * 7 + 3) % 62] as char).collect();
                for f in [";tail", "=1", " x", "", "<b>", "&amp;"] {
                    extra.push(Case { ctx: cx.to_string(), text: format!("&zq{run}{f}") });
                    extra.push(Case { ctx: cx.to_string(), text: format!("&amp{run}{f}") });
                    extra.push(Case { ctx: cx.to_string(), text: format!("&notin{run}{f}") });
                    if k <= 12 {
                        extra.push(Case { ctx: cx.to_string(), text: format!("&#{}{f}", "0".repeat(n) + "65") });
                        extra.push(Case { ctx: cx.to_string(), text: format!("&#x{}{f}", "0".repeat(n) + "41") });
                    }
                }
            }
        }
    }
    let out = run_exhaustive(extra.len() as u64, |i, st| {
        let c = &extra[i as usize];
        let r = check(c, st);
        st.nontrivial(hash64(c), || serde_json::to_value(c).unwrap());
        st.label("numeric edge form");
        r.map_err(|what| Failure { case: serde_json::to_value(c).unwrap(), what })
    });
    all_done &= out.failures.is_empty();
    rep.absorb(out);

    // (3) xml
    let names: Vec<&String> = e.list.iter().map(|(n, _)| n).filter(|n| n.ends_with(';')).collect();
    let out = run_exhaustive(names.len() as u64, |i, st| {
        let c = Case { ctx: "xml-text".into(), text: format!("&{}", names[i as usize]) };
        let r = check(&c, st);
        st.nontrivial(hash64(&c), || serde_json::to_value(&c).unwrap());
        st.label("xml5ever named");
        r.map_err(|what| Failure { case: serde_json::to_value(&c).unwrap(), what })
    });
    all_done &= out.failures.is_empty();
    rep.absorb(out);

    // (3b) xml5ever: every ordered pair of reference-shaped pieces, in text and in an attribute value
    const XPIECES: &[&str] = &[
        "&#65;", "&#x41;", "&#X41;", "&#65", "&#x41", "&#;", "&#x;", "&#", "&#x", "&#xZ;", "&#Z;", "&amp;", "&amp", "&lt;", "&;", "&", "&x;",
        "&unknown;", "&#0;", "&#1114112;", "&#xD800;", "&#133;", "&#x100000041;", "&#99999999999;", "&notin;", "&not", "x", "1", ";",
    ];
    let np = XPIECES.len() as u64;
    let out = run_exhaustive(np * np * 2, |i, st| {
        let attr = i % 2 == 1;
        let k = i / 2;
        let c = Case {
            ctx: if attr { "xml-seq-attr".into() } else { "xml-seq-text".into() },
            text: format!("{}\u{1}{}", XPIECES[(k % np) as usize], XPIECES[(k / np) as usize]),
        };
        let r = check(&c, st);
        st.nontrivial(hash64(&c), || serde_json::to_value(&c).unwrap());
        st.label("xml5ever reference pairs");
        r.map_err(|what| Failure { case: serde_json::to_value(&c).unwrap(), what })
    });
    all_done &= out.failures.is_empty();
    rep.absorb(out);

    // (3c) xml5ever numeric references and non-references against the WHATWG algorithm
    let mut xr: Vec<Case> = vec![];
    let xstride = ctx.tier.pick(64u32, 4u32);
    for cx in ["xml-ref-text", "xml-ref-attr"] {
        let mut v = (ctx.seed % xstride as u64) as u32;
        while v <= 0x110000 {
            xr.push(Case { ctx: cx.into(), text: format!("&#x{v:X};") });
            xr.push(Case { ctx: cx.into(), text: format!("&#{v};") });
            v += xstride;
        }
        for v in (0u32..0x200).chain(0xD7F0..0xE010).chain(0xFDC0..0xFE00).chain(0xFFF0..0x10010).chain(0x10FFF0..0x110010) {
            xr.push(Case { ctx: cx.into(), text: format!("&#x{v:x};") });
            xr.push(Case { ctx: cx.into(), text: format!("&#{v};") });
        }
        for t in [
            "&#x100000041;", "&#4294967361;", "&#4294967297;", "&#99999999999;", "&#x0000000041;", "&#18446744073709551681;", "&#xFFFFFFFF;", "&#4294967295;",
            "&#;", "&#x;", "&#X;", "&#", "&#x", "&#xZ;", "&#Z;", "&;", "&", "& ", "&&", "&=", "&#65;&#;", "&#x41;&#x;", "&#65;&#", "&#0;", "&#x0;",
        ] {
            xr.push(Case { ctx: cx.into(), text: t.into() });
        }
    }
    // end of input inside or right after a reference (element content)
    for t in [
        "&#65", "&#x41", "&#", "&#x", "&#X", "&", "&a", "&am", "&amp", "&amp;", "&not", "&noti", "&notin", "&notin;", "&#65;", "&#x110000", "&#0", "&lt", "&l",
        "&#x4", "&#6", "&unknown", "&unknown;", "x&", "&#xD800", "&#153",
    ] {
        xr.push(Case { ctx: "xml-ref-eof".into(), text: t.into() });
    }
    for (name, _) in e.list.iter().step_by(7) {
        xr.push(Case { ctx: "xml-ref-eof".into(), text: format!("&{name}") });
        let mut cut = name.clone();
        cut.pop();
        xr.push(Case { ctx: "xml-ref-eof".into(), text: format!("&{cut}") });
    }
    // every table name (with and without its semicolon) x a few followers
    for (name, _) in e.list.iter() {
        for f in ["", " ", "x", "=", ";", "1", "<", "&"] {
            xr.push(Case { ctx: "xml-ref-text".into(), text: format!("&{name}{f}") });
            xr.push(Case { ctx: "xml-ref-attr".into(), text: format!("&{name}{f}") });
        }
    }
    let out = run_exhaustive(xr.len() as u64, |i, st| {
        let c = &xr[i as usize];
        let r = check(c, st);
        st.nontrivial(hash64(c), || serde_json::to_value(c).unwrap());
        st.label("xml5ever numeric / non-reference");
        r.map_err(|what| Failure { case: serde_json::to_value(c).unwrap(), what })
    });
    all_done &= out.failures.is_empty();
    rep.absorb(out);

    rep.exhaustive = all_done && ctx.tier == Tier::Thorough;
    rep.extra.insert(
        "spaces".into(),
        json!({"named_cases": total, "numeric_values": 0x110001, "numeric_other_forms_stride": stride, "edge_forms": extra.len(), "xml_names": names.len(),
               "note": "quick enumerates the named space and the canonical numeric form completely; the other numeric forms on a 1/16 stride (offset by VERIF_SEED); thorough enumerates everything"}),
    );
    rep
}

pub fn replay(_ctx: &Ctx, v: &Value) -> Result<(), String> {
    let case: Case = serde_json::from_value(v.clone()).map_err(|e| format!("bad case: {e}"))?;
    let mut st = Stats::default();
    check(&case, &mut st)
}
