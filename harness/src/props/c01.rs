//! C01 — HTML tokenization equals the WHATWG tokenization algorithm.
//! Differential: html5ever's tokenizer vs `refimpl::tokenizer` under the same
//! start state, last-start-tag name and sink policy.

use crate::engine::*;
use crate::gen::html as ghtml;
use crate::refimpl::tokenizer::{normalize_newlines, RState, RefTokenizer};
use crate::sinks::tokrec::*;
use html5ever::tokenizer::states as hs;
use html5ever::tokenizer::{BufferQueue, Tokenizer, TokenizerOpts};
use markup5ever::TokenizerResult;
use serde::{Deserialize, Serialize};
use serde_json::{json, Value};
use tendril::StrTendril;

/// Token-free states in which a cold start is well defined (DESIGN.md §2.8).
#[derive(Serialize, Deserialize, Clone, Copy, Debug, Hash, PartialEq, Eq)]
pub enum Cold {
    Data,
    Plaintext,
    Rcdata,
    Rawtext,
    ScriptData,
    ScriptDataEscaped,
    ScriptDataDoubleEscaped,
    TagOpen,
    EndTagOpen,
    RcdataLt,
    RawtextLt,
    ScriptDataLt,
    ScriptDataEscapedLt,
    ScriptDataDoubleEscapedLt,
    ScriptDataEscapeStart,
    ScriptDataEscapeStartDash,
    ScriptDataEscapedDash,
    ScriptDataEscapedDashDash,
    ScriptDataDoubleEscapedDash,
    ScriptDataDoubleEscapedDashDash,
    MarkupDeclarationOpen,
    CdataSection,
    CdataSectionBracket,
    CdataSectionEnd,
}

pub const ALL_COLD: &[Cold] = &[
    Cold::Data,
    Cold::Plaintext,
    Cold::Rcdata,
    Cold::Rawtext,
    Cold::ScriptData,
    Cold::ScriptDataEscaped,
    Cold::ScriptDataDoubleEscaped,
    Cold::TagOpen,
    Cold::EndTagOpen,
    Cold::RcdataLt,
    Cold::RawtextLt,
    Cold::ScriptDataLt,
    Cold::ScriptDataEscapedLt,
    Cold::ScriptDataDoubleEscapedLt,
    Cold::ScriptDataEscapeStart,
    Cold::ScriptDataEscapeStartDash,
    Cold::ScriptDataEscapedDash,
    Cold::ScriptDataEscapedDashDash,
    Cold::ScriptDataDoubleEscapedDash,
    Cold::ScriptDataDoubleEscapedDashDash,
    Cold::MarkupDeclarationOpen,
    Cold::CdataSection,
    Cold::CdataSectionBracket,
    Cold::CdataSectionEnd,
];

impl Cold {
    pub fn real(self) -> hs::State {
        use hs::*;
        match self {
            Cold::Data => Data,
            Cold::Plaintext => Plaintext,
            Cold::Rcdata => RawData(Rcdata),
            Cold::Rawtext => RawData(Rawtext),
            Cold::ScriptData => RawData(ScriptData),
            Cold::ScriptDataEscaped => RawData(ScriptDataEscaped(Escaped)),
            Cold::ScriptDataDoubleEscaped => RawData(ScriptDataEscaped(DoubleEscaped)),
            Cold::TagOpen => TagOpen,
            Cold::EndTagOpen => EndTagOpen,
            Cold::RcdataLt => RawLessThanSign(Rcdata),
            Cold::RawtextLt => RawLessThanSign(Rawtext),
            Cold::ScriptDataLt => RawLessThanSign(ScriptData),
            Cold::ScriptDataEscapedLt => RawLessThanSign(ScriptDataEscaped(Escaped)),
            Cold::ScriptDataDoubleEscapedLt => RawLessThanSign(ScriptDataEscaped(DoubleEscaped)),
            Cold::ScriptDataEscapeStart => ScriptDataEscapeStart(Escaped),
            Cold::ScriptDataEscapeStartDash => ScriptDataEscapeStartDash,
            Cold::ScriptDataEscapedDash => ScriptDataEscapedDash(Escaped),
            Cold::ScriptDataEscapedDashDash => ScriptDataEscapedDashDash(Escaped),
            Cold::ScriptDataDoubleEscapedDash => ScriptDataEscapedDash(DoubleEscaped),
            Cold::ScriptDataDoubleEscapedDashDash => ScriptDataEscapedDashDash(DoubleEscaped),
            Cold::MarkupDeclarationOpen => MarkupDeclarationOpen,
            Cold::CdataSection => CdataSection,
            Cold::CdataSectionBracket => CdataSectionBracket,
            Cold::CdataSectionEnd => CdataSectionEnd,
        }
    }
    pub fn reference(self) -> RState {
        match self {
            Cold::Data => RState::Data,
            Cold::Plaintext => RState::Plaintext,
            Cold::Rcdata => RState::Rcdata,
            Cold::Rawtext => RState::Rawtext,
            Cold::ScriptData => RState::ScriptData,
            Cold::ScriptDataEscaped => RState::ScriptDataEscaped,
            Cold::ScriptDataDoubleEscaped => RState::ScriptDataDoubleEscaped,
            Cold::TagOpen => RState::TagOpen,
            Cold::EndTagOpen => RState::EndTagOpen,
            Cold::RcdataLt => RState::RcdataLt,
            Cold::RawtextLt => RState::RawtextLt,
            Cold::ScriptDataLt => RState::ScriptDataLt,
            Cold::ScriptDataEscapedLt => RState::ScriptDataEscapedLt,
            Cold::ScriptDataDoubleEscapedLt => RState::ScriptDataDoubleEscapedLt,
            Cold::ScriptDataEscapeStart => RState::ScriptDataEscapeStart,
            Cold::ScriptDataEscapeStartDash => RState::ScriptDataEscapeStartDash,
            Cold::ScriptDataEscapedDash => RState::ScriptDataEscapedDash,
            Cold::ScriptDataEscapedDashDash => RState::ScriptDataEscapedDashDash,
            Cold::ScriptDataDoubleEscapedDash => RState::ScriptDataDoubleEscapedDash,
            Cold::ScriptDataDoubleEscapedDashDash => RState::ScriptDataDoubleEscapedDashDash,
            Cold::MarkupDeclarationOpen => RState::MarkupDeclarationOpen,
            Cold::CdataSection => RState::CdataSection,
            Cold::CdataSectionBracket => RState::CdataSectionBracket,
            Cold::CdataSectionEnd => RState::CdataSectionEnd,
        }
    }
}

#[derive(Serialize, Deserialize, Clone, Debug, Hash, PartialEq, Eq)]
pub struct Case {
    pub cold: Cold,
    pub last_start_tag: Option<String>,
    pub policy: Policy,
    pub exact_errors: bool,
    pub input: String,
}

pub struct RealRun {
    pub raw: Rec,
    pub eof_count: u32,
    pub tokens_after_eof: u32,
    pub end_called: u32,
    pub results: Vec<&'static str>,
    pub leftover_after_feed: bool,
}

/// Run html5ever's tokenizer over `chunks` (one push_back + feed loop per chunk).
pub fn run_real(case: &Case, chunks: &[String], discard_bom: bool) -> RealRun {
    // a PLAINTEXT start is requested either through the option or (every other input) through the
    // public Tokenizer::set_plaintext_state()
    let via_method = matches!(case.cold, Cold::Plaintext) && case.input.len() % 2 == 1;
    let opts = TokenizerOpts {
        exact_errors: case.exact_errors,
        discard_bom,
        profile: false,
        initial_state: if via_method { None } else { Some(case.cold.real()) },
        last_start_tag_name: case.last_start_tag.clone(),
    };
    let tok = Tokenizer::new(RealSink::new(&case.policy), opts);
    if via_method {
        tok.set_plaintext_state();
    }
    let input = BufferQueue::default();
    let mut results = vec![];
    let mut leftover = false;
    for c in chunks {
        input.push_back(StrTendril::from(c.as_str()));
        loop {
            match tok.feed(&input) {
                TokenizerResult::Done => {
                    results.push("Done");
                    break;
                },
                TokenizerResult::Script(_) => results.push("Script"),
                TokenizerResult::EncodingIndicator(_) => results.push("EncodingIndicator"),
            }
        }
        if !input.is_empty() {
            leftover = true;
        }
    }
    tok.end();
    let sink = &tok.sink;
    let out = RealRun {
        raw: sink.raw.borrow().clone(),
        eof_count: *sink.eof_seen.borrow(),
        tokens_after_eof: *sink.tokens_after_eof.borrow(),
        end_called: *sink.end_called.borrow(),
        results,
        leftover_after_feed: leftover,
    };
    out
}

pub struct RefRun {
    pub rec: Rec,
    pub charrefs: u32,
    pub states: std::collections::HashSet<RState>,
    pub lf_states: std::collections::HashSet<RState>,
    pub norm: Vec<char>,
}

pub fn run_ref(case: &Case) -> RefRun {
    let norm = normalize_newlines(&case.input);
    let mut sink = RefSink::new(&case.policy);
    let (charrefs, states, lf_states) = {
        let mut t = RefTokenizer::new(&norm, &mut sink, case.cold.reference(), case.last_start_tag.clone());
        t.run();
        (t.charrefs_resolved, std::mem::take(&mut t.states_seen), std::mem::take(&mut t.lf_in_state))
    };
    RefRun { rec: sink.rec, charrefs, states, lf_states, norm }
}

fn show(toks: &[NTok]) -> String {
    let mut s = String::new();
    for t in toks {
        s.push_str(&format!("{t:?} "));
    }
    s
}

/// Compare; Ok(nontrivial?) or Err(description).
pub fn compare(case: &Case, st: &mut Stats) -> Result<bool, String> {
    let real = run_real(case, &[case.input.clone()], false);
    let rf = run_ref(case);
    let rt = toks_only(&strip_errors(&real.raw));
    let et = toks_only(&rf.rec);
    if real.eof_count != 1 {
        return Err(format!("{} EOF tokens delivered", real.eof_count));
    }
    if real.tokens_after_eof != 0 {
        return Err("tokens delivered after EOF".into());
    }
    if rt != et {
        let n = rt.iter().zip(et.iter()).take_while(|(a, b)| a == b).count();
        return Err(format!(
            "token streams differ at token #{n}:\n html5ever: {}\n reference: {}",
            show(&rt[n.min(rt.len())..rt.len().min(n + 4)]),
            show(&et[n.min(et.len())..et.len().min(n + 4)])
        ));
    }
    for s in &rf.states {
        st.label(&format!("state:{s:?}"));
    }
    if rf.charrefs > 0 {
        st.label("character reference resolved");
    }
    let nontrivial = et.iter().any(|t| !matches!(t, NTok::Chars(_) | NTok::Eof | NTok::Null))
        || case.cold != Cold::Data
        || rf.charrefs > 0;
    Ok(nontrivial)
}

pub fn oracle(case: &Case, st: &mut Stats) -> Result<(), String> {
    st.eval();
    let nt = compare(case, st)?;
    if nt {
        st.nontrivial(hash64(case), || serde_json::to_value(case).unwrap());
    }
    Ok(())
}

// ---------------------------------------------------------------------------
// exhaustive part

pub const SIGMA: &[char] = &[
    '<', '>', '/', '!', '-', '?', '=', '"', '\'', '&', '#', ';', ']', '[', 'a', 'A', 'x', 's', '1', '\t', '\n', '\r', '\x0C',
    ' ', '\0', 'é', 'É',
];

#[derive(Clone)]
pub struct Start {
    pub cold: Cold,
    pub last: Option<&'static str>,
    pub prefix: &'static str,
    pub policy: Policy,
    /// state the reference is expected to be in after the prefix (None: not checked)
    pub expect: Option<RState>,
}

fn pol(kind: PolicyKind, cdata: CdataMode) -> Policy {
    Policy { kind, cdata }
}

pub fn starts() -> Vec<Start> {
    use RState as R;
    let plain = pol(PolicyKind::AllContinue, CdataMode::Never);
    let cdata = pol(PolicyKind::AllContinue, CdataMode::Always);
    let mut v = vec![];
    for &c in ALL_COLD {
        let last = match c {
            Cold::Rcdata | Cold::RcdataLt => Some("a"),
            Cold::Rawtext | Cold::RawtextLt => Some("s"),
            Cold::Data | Cold::Plaintext | Cold::TagOpen | Cold::EndTagOpen => None,
            Cold::MarkupDeclarationOpen | Cold::CdataSection | Cold::CdataSectionBracket | Cold::CdataSectionEnd => None,
            _ => Some("s"),
        };
        let p = if matches!(
            c,
            Cold::MarkupDeclarationOpen | Cold::CdataSection | Cold::CdataSectionBracket | Cold::CdataSectionEnd
        ) {
            cdata.clone()
        } else {
            plain.clone()
        };
        v.push(Start { cold: c, last, prefix: "", policy: p, expect: Some(c.reference()) });
    }
    // sink-directed switches from Data on <a>
    for a in [Action::Rcdata, Action::Rawtext, Action::ScriptData, Action::Plaintext, Action::Script] {
        v.push(Start {
            cold: Cold::Data,
            last: None,
            prefix: "",
            policy: pol(PolicyKind::Map(vec![("a".into(), a)]), CdataMode::Never),
            expect: None,
        });
        v.push(Start {
            cold: Cold::Data,
            last: None,
            prefix: "<a>",
            policy: pol(PolicyKind::Map(vec![("a".into(), a)]), CdataMode::Never),
            expect: None,
        });
    }
    let d = |prefix: &'static str, e: R| Start {
        cold: Cold::Data,
        last: None,
        prefix,
        policy: plain.clone(),
        expect: Some(e),
    };
    let dn = |prefix: &'static str| Start { cold: Cold::Data, last: None, prefix, policy: plain.clone(), expect: None };
    v.extend([
        d("<a", R::TagName),
        d("<a ", R::BeforeAttrName),
        d("<a x", R::AttrName),
        d("<a x ", R::AfterAttrName),
        d("<a x=", R::BeforeAttrValue),
        d("<a x=\"", R::AttrValueDq),
        d("<a x='", R::AttrValueSq),
        d("<a x=s", R::AttrValueUnq),
        d("<a x=\"s\"", R::AfterAttrValueQuoted),
        d("<a/", R::SelfClosingStartTag),
        d("</a", R::TagName),
        d("</a ", R::BeforeAttrName),
        d("</a x=", R::BeforeAttrValue),
        d("<a x=s a", R::AttrName),
        d("<a x x", R::AttrName),
        d("<a x=1 x=", R::BeforeAttrValue),
        d("<a A=s a", R::AttrName),
        d("<?", R::BogusComment),
        d("</!", R::BogusComment),
        d("<!--", R::CommentStart),
        d("<!---", R::CommentStartDash),
        d("<!--a", R::Comment),
        d("<!--a<", R::CommentLt),
        d("<!--a<!", R::CommentLtBang),
        d("<!--a<!-", R::CommentLtBangDash),
        d("<!--a<!--", R::CommentLtBangDashDash),
        d("<!--a-", R::CommentEndDash),
        d("<!--a--", R::CommentEnd),
        d("<!--a--!", R::CommentEndBang),
        d("<!DOCTYPE", R::Doctype),
        d("<!doctype ", R::BeforeDoctypeName),
        d("<!DOCTYPE a", R::DoctypeName),
        d("<!DOCTYPE a ", R::AfterDoctypeName),
        d("<!DOCTYPE a PUBLIC", R::AfterDoctypePublicKeyword),
        d("<!DOCTYPE a public ", R::BeforeDoctypePublicId),
        d("<!DOCTYPE a PUBLIC \"", R::DoctypePublicIdDq),
        d("<!DOCTYPE a PUBLIC '", R::DoctypePublicIdSq),
        d("<!DOCTYPE a PUBLIC \"x\"", R::AfterDoctypePublicId),
        d("<!DOCTYPE a PUBLIC \"x\" ", R::BetweenDoctypePublicAndSystem),
        d("<!DOCTYPE a SYSTEM", R::AfterDoctypeSystemKeyword),
        d("<!DOCTYPE a system ", R::BeforeDoctypeSystemId),
        d("<!DOCTYPE a SYSTEM \"", R::DoctypeSystemIdDq),
        d("<!DOCTYPE a SYSTEM '", R::DoctypeSystemIdSq),
        d("<!DOCTYPE a SYSTEM \"x\"", R::AfterDoctypeSystemId),
        d("<!DOCTYPE a PUBLIC 'x' 's'", R::AfterDoctypeSystemId),
        d("<!DOCTYPE a x", R::BogusDoctype),
        // partial keywords / look-ahead
        d("<!", R::MarkupDeclarationOpen),
        dn("<!-"),
        dn("<!D"),
        dn("<!DOCTYP"),
        dn("<!DOCTYPE a PUBLI"),
        dn("<!DOCTYPE a SYS"),
        // character references
        d("&", R::Data),
        d("&#", R::Data),
        d("&#x", R::Data),
        d("&#1", R::Data),
        d("&#x1", R::Data),
        d("&a", R::Data),
        d("&am", R::Data),
        d("&amp", R::Data),
        d("&not", R::Data),
        d("&noti", R::Data),
        d("&notin", R::Data),
        d("<a x=&", R::AttrValueUnq),
        d("<a x=\"&am", R::AttrValueDq),
        d("<a x=\"&amp", R::AttrValueDq),
        d("<a x='&not", R::AttrValueSq),
        d("<a x=&noti", R::AttrValueUnq),
        d("<a x='&#", R::AttrValueSq),
        d("<a x=&#x1", R::AttrValueUnq),
    ]);
    let c = |prefix: &'static str, e: R| Start {
        cold: Cold::Data,
        last: None,
        prefix,
        policy: cdata.clone(),
        expect: Some(e),
    };
    let cn = |prefix: &'static str| Start { cold: Cold::Data, last: None, prefix, policy: cdata.clone(), expect: None };
    v.extend([
        cn("<!["),
        cn("<![CDATA"),
        c("<![CDATA[", R::CdataSection),
        c("<![CDATA[a]", R::CdataSectionBracket),
        c("<![CDATA[]]", R::CdataSectionEnd),
    ]);
    v.push(Start { cold: Cold::Data, last: None, prefix: "<![CDATA[", policy: plain.clone(), expect: Some(R::BogusComment) });
    let r = |cold: Cold, last: &'static str, prefix: &'static str, e: R| Start {
        cold,
        last: Some(last),
        prefix,
        policy: plain.clone(),
        expect: Some(e),
    };
    v.extend([
        r(Cold::Rcdata, "a", "</", R::RcdataEndTagOpen),
        r(Cold::Rcdata, "a", "</a", R::RcdataEndTagName),
        r(Cold::Rcdata, "as", "</a", R::RcdataEndTagName),
        r(Cold::Rcdata, "as", "</A", R::RcdataEndTagName),
        r(Cold::Rcdata, "a", "&", R::Rcdata),
        r(Cold::Rcdata, "a", "&am", R::Rcdata),
        r(Cold::Rawtext, "a", "</", R::RawtextEndTagOpen),
        r(Cold::Rawtext, "a", "</a", R::RawtextEndTagName),
        r(Cold::Rawtext, "xs", "</x", R::RawtextEndTagName),
        r(Cold::ScriptData, "s", "</", R::ScriptDataEndTagOpen),
        r(Cold::ScriptData, "s", "</s", R::ScriptDataEndTagName),
        r(Cold::ScriptData, "sa", "</s", R::ScriptDataEndTagName),
        r(Cold::ScriptData, "s", "<!--", R::ScriptDataEscapedDashDash),
        r(Cold::ScriptDataEscaped, "s", "</", R::ScriptDataEscapedEndTagOpen),
        r(Cold::ScriptDataEscaped, "s", "</s", R::ScriptDataEscapedEndTagName),
        r(Cold::ScriptDataEscaped, "s", "<s", R::ScriptDataDoubleEscapeStart),
        r(Cold::ScriptDataEscaped, "s", "<script", R::ScriptDataDoubleEscapeStart),
        r(Cold::ScriptDataEscaped, "s", "<SCRIPT", R::ScriptDataDoubleEscapeStart),
        r(Cold::ScriptDataEscaped, "s", "<scrip", R::ScriptDataDoubleEscapeStart),
        r(Cold::ScriptDataDoubleEscaped, "s", "</", R::ScriptDataDoubleEscapeEnd),
        r(Cold::ScriptDataDoubleEscaped, "s", "</script", R::ScriptDataDoubleEscapeEnd),
        r(Cold::ScriptDataDoubleEscaped, "s", "</scrip", R::ScriptDataDoubleEscapeEnd),
        r(Cold::ScriptDataDoubleEscaped, "script", "</script", R::ScriptDataDoubleEscapeEnd),
    ]);
    // state left behind by the raw end-tag machinery (temporary buffer) must not leak into
    // later look-ahead: every way of leaving a raw state, then a markup declaration
    let rn = |cold: Cold, last: &'static str, prefix: &'static str| Start {
        cold,
        last: Some(last),
        prefix,
        policy: pol(PolicyKind::AllContinue, CdataMode::Always),
        expect: None,
    };
    for cold in [Cold::Rcdata, Cold::Rawtext, Cold::ScriptData, Cold::ScriptDataEscaped] {
        for prefix in ["</a><!", "</a/><!", "</a ><!", "</a x><!", "</a/>", "</a x=", "</A/><!", "</b><!", "</ax<!", "</a/x><!"] {
            v.push(rn(cold, "a", prefix));
        }
    }
    v.push(rn(Cold::ScriptDataEscaped, "a", "<script></script><!"));
    v.push(rn(Cold::ScriptDataEscaped, "a", "<script/></a/><!"));
    v.push(rn(Cold::ScriptDataDoubleEscaped, "a", "</script/></a/><!"));
    for a in [Action::Rcdata, Action::Rawtext, Action::ScriptData] {
        for prefix in ["<a></a/><!", "<a>x</a/><!D", "<a></a/><![", "<a></a/><!DOCTYPE a PUBLI"] {
            v.push(Start {
                cold: Cold::Data,
                last: None,
                prefix,
                policy: pol(PolicyKind::Map(vec![("a".into(), a)]), CdataMode::Always),
                expect: None,
            });
        }
    }
    v
}

fn word(mut k: u64, n: usize) -> String {
    let mut s = String::with_capacity(n);
    for _ in 0..n {
        s.push(SIGMA[(k % SIGMA.len() as u64) as usize]);
        k /= SIGMA.len() as u64;
    }
    s
}

/// Number of words of length <= l
fn words_upto(l: usize) -> u64 {
    (0..=l).map(|n| (SIGMA.len() as u64).pow(n as u32)).sum()
}

fn nth_word(mut idx: u64, l: usize) -> String {
    for n in 0..=l {
        let c = (SIGMA.len() as u64).pow(n as u32);
        if idx < c {
            return word(idx, n);
        }
        idx -= c;
    }
    unreachable!()
}

pub fn decode_random(s: &mut Src) -> Case {
    let cold = if s.chance(150) { Cold::Data } else { *s.pick(ALL_COLD) };
    let last = match s.below(6) {
        0 => None,
        1 => Some("title"),
        2 => Some("script"),
        3 => Some("xmp"),
        4 => Some("a"),
        _ => Some("textarea"),
    }
    .map(|s| s.to_string());
    let kind = match s.below(4) {
        0 | 1 => PolicyKind::HtmlLike,
        2 => PolicyKind::AllContinue,
        _ => {
            let n = s.range(1, 4);
            let mut m = vec![];
            for _ in 0..n {
                let mut name = s.pick(&["a", "b", "title", "script", "svg", "p", "style", "xmp", "div", "textarea"]).to_string();
                if s.chance(70) {
                    name.insert(0, '/'); // switch in answer to the end tag
                }
                let act = *s.pick(&[
                    Action::Continue,
                    Action::Plaintext,
                    Action::Rcdata,
                    Action::Rawtext,
                    Action::ScriptData,
                    Action::Script,
                ]);
                m.push((name, act));
            }
            PolicyKind::Map(m)
        },
    };
    let cdata = *s.pick(&[CdataMode::WhileForeign, CdataMode::Always, CdataMode::Never]);
    let exact_errors = s.chance(40);
    let input = ghtml::tok_soup(s, 24);
    Case { cold, last_start_tag: last, policy: Policy { kind, cdata }, exact_errors, input }
}

pub fn run(ctx: &Ctx) -> Report {
    let mut rep = Report::new(
        "(1) bounded-exhaustive: every string of length <= L over a 27-character alphabet of the characters the tokenizer spec distinguishes (< > / ! - ? = \" ' & # ; ] [ a A x s 1 TAB LF CR FF SPACE NUL é É) appended to every start: each of the 24 token-free states cold through TokenizerOpts::initial_state, and ~100 priming prefixes from Data/RCDATA/RAWTEXT/script states reaching every other tokenizer state, partial look-ahead keywords and character-reference prefixes, plus sink policies switching to RCDATA/RAWTEXT/script data/PLAINTEXT/Script on <a>, CDATA allowed or not; (2) random token soup (dictionary of ~130 syntax fragments + arbitrary Unicode + character noise) x random cold start x last-start-tag name x sink policy (HTML-like, generated map from start and end tag names to switches, all-continue) x CDATA answer x exact_errors. Oracle: independent transcription of WHATWG 13.2.5 (refimpl::tokenizer) under the same policy; streams compared after the normalisation the property states. Non-trivial: stream has a non-character token, or the start state is not Data, or a character reference was resolved; distinct by hash of the case.",
    );
    rep.assume("reference tokenizer (harness/src/refimpl/tokenizer.rs) is a faithful transcription of WHATWG HTML 13.2.5; entity table from Python's html.entities.html5");
    rep.assume("cold starts are asserted only for token-free states; other states are entered through priming prefixes");
    report_known(ctx, &mut rep, &|v| replay(&ctx.strict_clone(), v));
    run_regressions(ctx, &mut rep, &|v| replay(&ctx.strict_clone(), v));

    // validate priming prefixes against the reference
    let sts = starts();
    for s in &sts {
        if let Some(e) = s.expect {
            let case = Case {
                cold: s.cold,
                last_start_tag: s.last.map(|x| x.to_string()),
                policy: s.policy.clone(),
                exact_errors: false,
                input: s.prefix.to_string(),
            };
            let norm = normalize_newlines(&case.input);
            let mut sink = RefSink::new(&case.policy);
            let mut t = RefTokenizer::new(&norm, &mut sink, case.cold.reference(), case.last_start_tag.clone());
            let got = t.run_until_input_end();
            if got != e {
                rep.inconclusive
                    .push(format!("priming prefix {:?} from {:?} reaches {got:?}, expected {e:?}", s.prefix, s.cold));
            }
        }
    }

    let l = ctx.tier.pick(3usize, 4usize);
    let per = words_upto(l);
    let total = per * sts.len() as u64;
    let out = run_exhaustive(total, |idx, st| {
        // shortest suffixes first across all starts
        let w = idx / sts.len() as u64;
        let s = &sts[(idx % sts.len() as u64) as usize];
        let case = Case {
            cold: s.cold,
            last_start_tag: s.last.map(|x| x.to_string()),
            policy: s.policy.clone(),
            exact_errors: false,
            input: format!("{}{}", s.prefix, nth_word(w, l)),
        };
        oracle(&case, st).map_err(|what| Failure { case: serde_json::to_value(&case).unwrap(), what })
    });
    let done = out.failures.is_empty();
    rep.absorb(out);
    rep.extra.insert(
        "exhaustive_part".into(),
        json!({"alphabet": SIGMA.len(), "max_suffix_len": l, "starts": sts.len(), "cases": total, "completed": done}),
    );
    // deeper from the six fragment-selectable states
    let l2 = ctx.tier.pick(4usize, 5usize);
    let deep: Vec<&Start> = sts
        .iter()
        .filter(|s| {
            s.prefix.is_empty()
                && matches!(s.cold, Cold::Data | Cold::Rcdata | Cold::Rawtext | Cold::ScriptData | Cold::Plaintext)
                && s.policy.kind == PolicyKind::AllContinue
        })
        .collect();
    let base = words_upto(l);
    let per2 = words_upto(l2) - base;
    let total2 = per2 * deep.len() as u64;
    let out = run_exhaustive(total2, |idx, st| {
        let w = base + idx / deep.len() as u64;
        let s = deep[(idx % deep.len() as u64) as usize];
        let case = Case {
            cold: s.cold,
            last_start_tag: s.last.map(|x| x.to_string()),
            policy: s.policy.clone(),
            exact_errors: false,
            input: nth_word(w, l2),
        };
        oracle(&case, st).map_err(|what| Failure { case: serde_json::to_value(&case).unwrap(), what })
    });
    rep.absorb(out);
    rep.extra.insert("exhaustive_deep".into(), json!({"len": l2, "starts": deep.len(), "cases": total2}));

    let out = run_random(ctx.seed, ctx.tier.pick(3_000_000, 40_000_000), 300, decode_random, oracle);
    rep.absorb(out);
    rep.need("character reference resolved", 1000);
    for s in [
        "state:ScriptDataDoubleEscapeEnd",
        "state:CommentLtBangDashDash",
        "state:AfterDoctypeSystemId",
        "state:CdataSectionEnd",
        "state:RcdataEndTagName",
        "state:BetweenDoctypePublicAndSystem",
    ] {
        rep.need(s, 100);
    }
    rep
}

pub fn replay(_ctx: &Ctx, v: &Value) -> Result<(), String> {
    let case: Case = serde_json::from_value(v.clone()).map_err(|e| format!("bad case: {e}"))?;
    let mut st = Stats::default();
    oracle(&case, &mut st)
}
