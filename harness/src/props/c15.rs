//! C15 — XML5 parse result is independent of chunking and diagnostic options.

use crate::engine::*;
use crate::gen::{chunks, xml as gxml};
use crate::sinks::canon::{first_diff, rcdom_canon, CanonOpts};
use crate::sinks::drive::{drive_xml, XmlCfg};
use crate::sinks::model::{model_canon, ModelDom, DOC};
use crate::sinks::xmlrec::{run_xml_tokens, xnorm};
use markup5ever_rcdom::RcDom;
use serde::{Deserialize, Serialize};
use serde_json::{json, Value};

#[derive(Serialize, Deserialize, Clone, Debug, Hash, PartialEq, Eq)]
pub struct Case {
    pub chunks: Vec<String>,
    pub discard_bom: bool,
}

fn normalise(s: &str) -> String {
    let mut out = String::new();
    let mut it = s.chars().peekable();
    while let Some(c) = it.next() {
        match c {
            '\r' => {
                if it.peek() == Some(&'\n') {
                    it.next();
                }
                out.push('\n');
            },
            '\0' => out.push('\u{FFFD}'),
            c => out.push(c),
        }
    }
    out
}

fn tree(cfg: &XmlCfg, ch: &[String]) -> String {
    let (dom, _) = drive_xml(ModelDom::new(), cfg, ch, |_, _| {});
    model_canon(&dom, DOC, CanonOpts::default())
}

pub fn check(case: &Case, st: &mut Stats) -> Result<(), String> {
    st.eval();
    let whole: String = case.chunks.concat();
    let one = vec![whole.clone()];
    let bom = case.discard_bom;
    let dflt = XmlCfg { exact_errors: false, discard_bom: bom, profile: false };
    let exact = XmlCfg { exact_errors: true, discard_bom: bom, profile: false };
    // token level
    let (t1, eof, after, _) = run_xml_tokens(&one, false, bom, false);
    if eof != 1 || after != 0 {
        return Err(format!("{eof} EOF tokens, {after} tokens after EOF"));
    }
    let t1 = xnorm(&t1);
    let variants: [(&str, &[String], bool); 3] =
        [("chunked", &case.chunks, false), ("exact_errors", &one, true), ("chunked+exact_errors", &case.chunks, true)];
    for (name, ch, ex) in variants {
        let (t, _, _, left) = run_xml_tokens(ch, ex, bom, false);
        if left {
            return Err(format!("{name}: input queue not empty after feed()"));
        }
        let t = xnorm(&t);
        if t != t1 {
            let n = t1.iter().zip(t.iter()).take_while(|(a, b)| a == b).count();
            return Err(format!(
                "XML tokens ({name}) differ from the one-piece default run at #{n}: {:?} vs {:?}; chunks {:?}",
                t1.get(n),
                t.get(n),
                case.chunks
            ));
        }
    }
    // normalised input gives the same tokens
    let norm = normalise(&whole);
    let (tn, _, _, _) = run_xml_tokens(&[norm.clone()], false, bom, false);
    let tn = xnorm(&tn);
    if tn != t1 {
        let n = t1.iter().zip(tn.iter()).take_while(|(a, b)| a == b).count();
        return Err(format!(
            "parse(x) differs from parse(newline/NUL-normalised x) at token #{n}: {:?} vs {:?}; x = {whole:?}",
            t1.get(n),
            tn.get(n)
        ));
    }
    // tree level
    let base = tree(&dflt, &one);
    for (name, cfg, ch) in [
        ("chunked", &dflt, &case.chunks),
        ("exact_errors", &exact, &one),
        ("chunked+exact_errors", &exact, &case.chunks),
        ("normalised input", &dflt, &vec![norm.clone()]),
    ] {
        let t = tree(cfg, ch);
        if t != base {
            return Err(format!("XML tree ({name}) differs from the one-piece default tree: {}", first_diff(&base, &t)));
        }
    }
    // the crate's own driver (xml5ever::driver::XmlParser as a TendrilSink: process() per chunk,
    // finish()) instead of the harness's feed loop
    {
        use tendril::TendrilSink;
        let via_driver = |ch: &[String]| -> String {
            let mut p = xml5ever::driver::parse_document(ModelDom::new(), Default::default());
            for c in ch {
                p.process(tendril::StrTendril::from(c.as_str()));
            }
            let dom = p.finish();
            model_canon(&dom, DOC, CanonOpts::default())
        };
        for (name, ch) in [("one piece", &one), ("chunked", &case.chunks)] {
            let t = via_driver(ch);
            if t != base {
                return Err(format!(
                    "XML tree via XmlParser::process/finish ({name}) differs from the one-piece default tree: {}",
                    first_diff(&base, &t)
                ));
            }
        }
    }
    // every chunk queued first, then one feed loop (a keyword may then span three or more buffers)
    {
        let parser = xml5ever::driver::parse_document(ModelDom::new(), Default::default());
        for c in &case.chunks {
            parser.input_buffer.push_back(tendril::StrTendril::from(c.as_str()));
        }
        let mut guard = 0;
        while let markup5ever::TokenizerResult::Script(_) = parser.tokenizer.feed(&parser.input_buffer) {
            guard += 1;
            if guard > 1_000_000 {
                return Err("feed() keeps returning Script".into());
            }
        }
        use tendril::TendrilSink;
        let dom = parser.finish();
        let t = model_canon(&dom, DOC, CanonOpts::default());
        if t != base {
            return Err(format!(
                "XML tree with all chunks queued before the first feed() differs from the one-piece default tree: {}",
                first_diff(&base, &t)
            ));
        }
    }
    // RcDom agrees with ModelDom under chunking
    let (rd, _) = drive_xml(RcDom::default(), &dflt, &case.chunks, |_, _| {});
    let (rd1, _) = drive_xml(RcDom::default(), &dflt, &one, |_, _| {});
    let (a, b) = (rcdom_canon(&rd.document, CanonOpts::default()), rcdom_canon(&rd1.document, CanonOpts::default()));
    if a != b {
        return Err(format!("RcDom XML tree (chunked) differs from one piece: {}", first_diff(&b, &a)));
    }
    // U+FEFF is dropped only as the first character of the stream
    if whole.starts_with('\u{feff}') {
        let stripped: String = whole.chars().skip(1).collect();
        let with = tree(&XmlCfg { exact_errors: false, discard_bom: true, profile: false }, &case.chunks);
        let without = tree(&XmlCfg { exact_errors: false, discard_bom: false, profile: false }, &[stripped]);
        if with != without {
            return Err(format!("discard_bom=true differs from parsing the input minus its first U+FEFF: {}", first_diff(&with, &without)));
        }
        st.label("leading U+FEFF");
    }
    let multi = case.chunks.iter().filter(|c| !c.is_empty()).count() >= 2;
    let mut nt = false;
    if whole.contains('\r') {
        st.label("CR");
        nt = true;
    }
    if whole.contains('\0') {
        st.label("NUL");
        nt = true;
    }
    if whole.contains('\u{feff}') {
        st.label("U+FEFF");
        nt = true;
    }
    if whole.contains('&') {
        st.label("character reference / ampersand");
        nt = true;
        if whole.contains("\r") {
            let b = whole.as_bytes();
            for (i, w) in b.windows(1).enumerate() {
                if w[0] == b'\r' && whole[..i].rfind('&').map(|a| i - a <= 8).unwrap_or(false) {
                    st.label("CR within 8 bytes after '&'");
                    break;
                }
            }
        }
    }
    if nt && multi {
        st.label("non-trivial and chunked");
    }
    if nt {
        st.nontrivial(hash64(case), || serde_json::to_value(case).unwrap());
    }
    Ok(())
}

const PIECES: &[&str] = &[
    "\r", "\r\n", "\n", "\0", "&amp;", "&amp", "&am", "&#65;", "&#x41", "&#", "&", "&lt;", "\u{feff}", "<a>", "</a>", "<a b='", "'>", "<a b=\"",
    "\">", "x", "<!--", "-->", "<?p ", "?>", "<![CDATA[", "]]>", "<a b=c", ">", " ", "<a/>", ";",
];

pub fn pool() -> Vec<String> {
    let mut v = vec![];
    for a in PIECES {
        for b in PIECES {
            for c in ["", "x", "\n", ">", "\r"] {
                let s = format!("{a}{b}{c}");
                if s.chars().count() <= 11 {
                    v.push(s.clone());
                    let t = format!("<a>{s}");
                    if t.chars().count() <= 11 {
                        v.push(t);
                    }
                }
            }
        }
    }
    v.sort();
    v.dedup();
    v
}

pub fn decode(s: &mut Src) -> Case {
    let mut text = if s.chance(128) { gxml::gen_xml(s, 10).text } else { gxml::gen_xml_noisy(s, 10) };
    // sprinkle CR / NUL / references
    if s.chance(150) {
        let k = s.range(1, 4);
        for _ in 0..k {
            let cs: Vec<char> = text.chars().collect();
            let at = s.below(cs.len() + 1);
            let ins = *s.pick(&["\r", "\r\n", "\0", "&amp\r", "&am\r\n", "&#13;\r", "\r&lt;", "&\r\n", "\u{feff}", "&#x\r"]);
            text = cs[..at].iter().collect::<String>() + ins + &cs[at..].iter().collect::<String>();
        }
    }
    if s.chance(40) {
        text = format!("\u{feff}{text}");
    }
    let cuts = chunks::gen_cuts(s, text.chars().count());
    Case { chunks: chunks::chunk_str(&text, &cuts), discard_bom: s.bool() }
}

pub fn run(ctx: &Ctx) -> Report {
    let mut rep = Report::new(
        "Metamorphic over xml5ever: tokens (errors dropped, characters merged) and tree (ModelDom and RcDom dumps) of the one-piece default run must equal those of any chunking, of exact_errors=true, of the crate's own driver (XmlParser::process per chunk + finish), of queueing every chunk before the first feed(), and of the newline/NUL-normalised input (CRLF/CR->LF, NUL->U+FFFD; a normalised input never arms the CR-LF skipping state, so this isolates 'a line break next to a character reference is neither lost nor doubled' and 'NUL->U+FFFD on every path'); discard_bom=true == parse of the input minus its first U+FEFF. Search: (1) every partition of every pool input (<=11 chars: pairs of pieces CR, CRLF, NUL, &amp; &amp &am &#65; &#x41 &# & U+FEFF, tags, quotes, comments, PIs, CDATA); (2) generated namespaced XML documents with noise and sprinkled CR/NUL/references, random chunkings incl. empty and one-character chunks. Non-trivial: the input contains CR, NUL, U+FEFF or '&'; distinct by hash of (chunks, discard_bom).",
    );
    report_known(ctx, &mut rep, &|v| replay(&ctx.strict_clone(), v));
    run_regressions(ctx, &mut rep, &|v| replay(&ctx.strict_clone(), v));
    let pool = pool();
    let mut offs = vec![];
    let mut total = 0u64;
    for s in &pool {
        offs.push(total);
        total += 1u64 << s.chars().count().saturating_sub(1);
    }
    let kf_charref_cr = ctx.tolerate("KF-C15-charref-cr");
    let out = run_exhaustive(total, |idx, st| {
        let e = match offs.binary_search(&idx) {
            Ok(i) => i,
            Err(i) => i - 1,
        };
        let mask = idx - offs[e];
        let cs: Vec<char> = pool[e].chars().collect();
        let ch: Vec<String> = chunks::split_mask(&cs, mask).into_iter().map(|v| v.into_iter().collect()).collect();
        let case = Case { chunks: ch, discard_bom: mask & 1 == 1 };
        if kf_charref_cr && excluded_charref_cr(&pool[e]) {
            st.exclude("KF-C15-charref-cr");
            return Ok(());
        }
        check(&case, st).map_err(|what| Failure { case: serde_json::to_value(&case).unwrap(), what })
    });
    rep.absorb(out);
    rep.extra.insert("exhaustive_part".into(), json!({"pool_inputs": pool.len(), "schedules": total}));
    let out = run_random(ctx.seed, ctx.tier.pick(400_000, 6_000_000), 1200, decode, |c, st| {
        if kf_charref_cr && excluded_charref_cr(&c.chunks.concat()) {
            st.exclude("KF-C15-charref-cr");
            return Ok(());
        }
        check(c, st)
    });
    rep.absorb(out);
    for l in ["CR", "NUL", "U+FEFF", "character reference / ampersand", "CR within 8 bytes after '&'", "non-trivial and chunked", "leading U+FEFF"] {
        rep.need(l, 200);
    }
    rep
}

/// Predicate of the known finding KF-C15-charref-cr (only used while it is listed):
/// a CR within the span a character reference may consume after '&'.
pub fn excluded_charref_cr(s: &str) -> bool {
    let b = s.as_bytes();
    for (i, c) in b.iter().enumerate() {
        if *c == b'\r' {
            if let Some(a) = s[..i].rfind('&') {
                if s[a + 1..i].chars().all(|c| c.is_ascii_alphanumeric() || c == '#') && i - a <= 40 {
                    return true;
                }
            }
        }
    }
    false
}

pub fn replay(_ctx: &Ctx, v: &Value) -> Result<(), String> {
    let case: Case = serde_json::from_value(v.clone()).map_err(|e| format!("bad case: {e}"))?;
    let mut st = Stats::default();
    check(&case, &mut st)
}
