//! C17 — XML serializer output re-parses to the same namespaced tree.

use crate::engine::*;
use crate::gen::xml as gxml;
use crate::sinks::canon::{first_diff, rcdom_canon, CanonOpts};
use markup5ever_rcdom::{Handle, NodeData, RcDom, SerializableHandle};
use serde::{Deserialize, Serialize};
use serde_json::Value;
use tendril::stream::TendrilSink;
use tendril::StrTendril;

#[derive(Serialize, Deserialize, Clone, Debug, Hash, PartialEq, Eq)]
pub struct Case {
    pub text: String,
}

fn parse(text: &str) -> RcDom {
    xml5ever::driver::parse_document(RcDom::default(), Default::default()).one(StrTendril::from(text))
}

fn dump(dom: &RcDom) -> String {
    rcdom_canon(&dom.document, CanonOpts { doctype: false, ..CanonOpts::default() })
}

struct Features {
    prefixed_attr: bool,
    default_change: bool,
    needs_escape: bool,
    unbound: bool,
}

fn features(h: &Handle, parent_ns: Option<String>, f: &mut Features) {
    let mut stack = vec![(h.clone(), parent_ns)];
    while let Some((n, pns)) = stack.pop() {
        let mut my_ns = pns.clone();
        match &n.data {
            NodeData::Element { name, attrs, .. } => {
                if name.prefix.is_none() {
                    if let Some(p) = &pns {
                        if p.as_str() != &*name.ns {
                            f.default_change = true;
                        }
                    }
                    my_ns = Some(name.ns.to_string());
                }
                for a in attrs.borrow().iter() {
                    if a.name.prefix.is_some() {
                        f.prefixed_attr = true;
                        if a.name.ns.is_empty() {
                            f.unbound = true;
                        }
                    }
                    if a.value.chars().any(|c| matches!(c, '&' | '<' | '>' | '"' | '\'' | '\r' | '\t' | '\n')) {
                        f.needs_escape = true;
                    }
                }
                if name.prefix.is_some() && name.ns.is_empty() {
                    f.unbound = true;
                }
            },
            NodeData::Text { contents } => {
                if contents.borrow().chars().any(|c| matches!(c, '&' | '<' | '>' | '\r')) {
                    f.needs_escape = true;
                }
            },
            _ => {},
        }
        for c in n.children.borrow().iter() {
            stack.push((c.clone(), my_ns.clone()));
        }
    }
}

pub fn check(case: &Case, st: &mut Stats) -> Result<(), String> {
    st.eval();
    let t = parse(&case.text);
    let mut out = Vec::new();
    let doc: SerializableHandle = t.document.clone().into();
    xml5ever::serialize::serialize(&mut out, &doc, Default::default()).map_err(|e| format!("serialize failed: {e}"))?;
    let s = String::from_utf8(out).map_err(|_| "serializer wrote invalid UTF-8".to_string())?;
    let t2 = parse(&s);
    let (a, b) = (dump(&t), dump(&t2));
    if a != b {
        return Err(format!(
            "re-parsing the serialization gives a different tree: {}\n source: {:?}\n serialized: {:?}",
            first_diff(&a, &b),
            case.text,
            s
        ));
    }
    let mut f = Features { prefixed_attr: false, default_change: false, needs_escape: false, unbound: false };
    features(&t.document, None, &mut f);
    if f.prefixed_attr {
        st.label("prefixed attribute");
    }
    if f.default_change {
        st.label("default namespace changes between parent and child");
    }
    if f.needs_escape {
        st.label("text/attribute needs escaping");
    }
    if f.unbound {
        st.label("unbound prefix in tree");
    }
    if f.prefixed_attr || f.default_change || f.needs_escape {
        st.nontrivial(hash64(&a), || serde_json::to_value(case).unwrap());
    }
    Ok(())
}

pub fn decode(s: &mut Src) -> Case {
    Case { text: gxml::gen_xml(s, 12).text }
}

pub fn run(ctx: &Ctx) -> Report {
    let mut rep = Report::new(
        "T = parse(generated XML) into RcDom (generator of C16: namespaced element AST with declarations, shadowing, un-declaration, unbound prefixes, attribute and text strings with & < > \" ' CR (via &#13;) TAB LF, comments/PIs with '-'/'?' edge shapes, CDATA, mismatched end tags); s = xml5ever::serialize::serialize(T); T' = parse(s); the canonical dumps (prefix, local name and namespace of elements and attributes, attribute values, text, comments, PIs; doctype excluded) must be equal. Non-trivial: T contains a prefixed attribute, or an unprefixed child whose namespace differs from its unprefixed parent's, or a character that needs escaping; distinct by hash of T's dump.",
    );
    rep.assume("trees are those reachable by parsing; doctype ids are outside the serializer API and excluded");
    report_known(ctx, &mut rep, &|v| replay(&ctx.strict_clone(), v));
    run_regressions(ctx, &mut rep, &|v| replay(&ctx.strict_clone(), v));
    let out = run_random(ctx.seed, ctx.tier.pick(3_000_000, 30_000_000), 1500, decode, check);
    rep.absorb(out);
    for l in ["prefixed attribute", "default namespace changes between parent and child", "text/attribute needs escaping"] {
        rep.need(l, 500);
    }
    rep
}

pub fn replay(_ctx: &Ctx, v: &Value) -> Result<(), String> {
    let case: Case = serde_json::from_value(v.clone()).map_err(|e| format!("bad case: {e}"))?;
    let mut st = Stats::default();
    check(&case, &mut st)
}
