//! C03 — output is independent of how input is chunked, paused and resumed.
//! Token level here; the tree level lives in `c03_tree` (same property id).

use crate::engine::*;
use crate::gen::chunks;
use crate::props::c01::{self, Cold};
use crate::sinks::tokrec::*;
use html5ever::tokenizer::{BufferQueue, Tokenizer, TokenizerOpts};
use markup5ever::TokenizerResult;
use serde::{Deserialize, Serialize};
use serde_json::{json, Value};
use tendril::StrTendril;

#[derive(Serialize, Deserialize, Clone, Debug, Hash, PartialEq, Eq)]
pub struct Case {
    pub tok: c01::Case,
    pub chunks: Vec<String>,
    /// (index of the Script suspension, text pushed to the front of the input there)
    pub inject: Vec<(usize, String)>,
    #[serde(default)]
    pub discard_bom: bool,
}

/// Comparable form: non-character tokens (incl. errors) with their line, and
/// between them the concatenated character data with the line of the last
/// fragment.
fn comparable(raw: &Rec) -> Rec {
    let mut out: Rec = vec![];
    for (t, n) in raw {
        push_norm(&mut out, t.clone(), *n);
    }
    out
}

pub struct Run {
    pub raw: Rec,
    pub eof_count: u32,
    /// for each Script suspension: (chars consumed so far, remainder in the queue)
    pub pauses: Vec<(usize, String)>,
    pub leftover: bool,
    pub fed: String,
}

/// Drive the tokenizer by hand over the chunks, injecting at script pauses.
pub fn run_sched(tc: &c01::Case, chunks_: &[String], inject: &[(usize, String)], discard_bom: bool) -> Run {
    let opts = TokenizerOpts {
        exact_errors: tc.exact_errors,
        discard_bom,
        profile: false,
        initial_state: Some(tc.cold.real()),
        last_start_tag_name: tc.last_start_tag.clone(),
    };
    let tok = Tokenizer::new(RealSink::new(&tc.policy), opts);
    let input = BufferQueue::default();
    let mut pauses = vec![];
    let mut leftover = false;
    // everything made available to the tokenizer so far, in stream order:
    // consumed part + what is still queued. `fed` is rebuilt on injection.
    let mut consumed_plus_queue = String::new();
    let mut pause_no = 0usize;
    for c in chunks_ {
        input.push_back(StrTendril::from(c.as_str()));
        consumed_plus_queue.push_str(c);
        loop {
            match tok.feed(&input) {
                TokenizerResult::Done => break,
                TokenizerResult::EncodingIndicator(_) => {},
                TokenizerResult::Script(_) => {
                    // unread remainder
                    let q = input.clone();
                    let mut rem = String::new();
                    while let Some(t) = q.pop_front() {
                        rem.push_str(&t);
                    }
                    let total = consumed_plus_queue.len();
                    let p_len = total - rem.len();
                    pauses.push((consumed_plus_queue[..p_len].chars().count(), rem.clone()));
                    if let Some((_, s)) = inject.iter().find(|(k, _)| *k == pause_no) {
                        input.push_front(StrTendril::from(s.as_str()));
                        consumed_plus_queue.insert_str(p_len, s);
                    }
                    pause_no += 1;
                },
            }
        }
        if !input.is_empty() {
            leftover = true;
        }
    }
    tok.end();
    let out = Run {
        raw: tok.sink.raw.borrow().clone(),
        eof_count: *tok.sink.eof_seen.borrow(),
        pauses,
        leftover,
        fed: consumed_plus_queue,
    };
    out
}

fn show(r: &Rec, at: usize) -> String {
    let lo = at.saturating_sub(2);
    let mut s = String::new();
    for (t, n) in &r[lo.min(r.len())..r.len().min(at + 3)] {
        s.push_str(&format!("[{t:?} @line {n}] "));
    }
    s
}

pub fn check(case: &Case, st: &mut Stats) -> Result<(), String> {
    st.eval();
    let tc = &case.tok;
    let run = run_sched(tc, &case.chunks, &case.inject, case.discard_bom);
    if run.eof_count != 1 {
        return Err(format!("{} EOF tokens", run.eof_count));
    }
    if run.leftover {
        return Err("input queue not empty after feed() returned Done".into());
    }
    // one-piece run over the effective stream (source with injections spliced in)
    let mut tc1 = tc.clone();
    tc1.input = run.fed.clone();
    let one = run_sched(&tc1, &[run.fed.clone()], &[], case.discard_bom);
    let a = comparable(&run.raw);
    let b = comparable(&one.raw);
    if a != b {
        let n = a.iter().zip(b.iter()).take_while(|(x, y)| x == y).count();
        return Err(format!(
            "chunked/paused run differs from the one-piece run at item #{n}:\n scheduled: {}\n one piece: {}\n chunks {:?} inject {:?} effective stream {:?}",
            show(&a, n),
            show(&b, n),
            case.chunks,
            case.inject,
            run.fed
        ));
    }
    // pause position: the consumed prefix must end with a script end tag
    for (k, (p_chars, _rem)) in run.pauses.iter().enumerate() {
        let p: String = run.fed.chars().take(*p_chars).collect();
        // (positions are in the effective stream only up to the first injection after them; recompute per pause)
        let _ = k;
        if !p.ends_with('>') {
            return Err(format!("script suspension #{k}: consumed prefix {p:?} does not end with '>'"));
        }
    }
    for (k, (p_chars, _)) in run.pauses.iter().enumerate() {
        // injections are spliced in at or after every earlier pause position, so each
        // pause's consumed prefix is a prefix of the final effective stream
        let p: String = run.fed.chars().take(*p_chars).collect();
        let mut tcp = tc.clone();
        tcp.input = p.clone();
        let pr = run_sched(&tcp, &[p.clone()], &[], case.discard_bom);
        let toks = strip_errors(&pr.raw);
        let last = toks.iter().rev().find(|(t, _)| !matches!(t, NTok::Eof)).map(|(t, _)| t.clone());
        let ok = match (&tc.policy.kind, &last) {
            (PolicyKind::HtmlLike, Some(NTok::Tag { end: true, name, .. })) => name == "script",
            (PolicyKind::Map(m), Some(NTok::Tag { end: false, name, .. })) => {
                m.iter().any(|(n, a)| n == name && *a == Action::Script)
            },
            // map keys "/name" answer end tags
            (PolicyKind::Map(m), Some(NTok::Tag { end: true, name, .. })) => {
                m.iter().any(|(n, a)| n.strip_prefix('/') == Some(name.as_str()) && *a == Action::Script)
            },
            _ => false,
        };
        if !ok {
            return Err(format!(
                "script suspension #{k}: tokenizing the consumed prefix {p:?} alone ends with {last:?}, not with the tag that caused the suspension"
            ));
        }
    }
    // classification
    let nonempty = case.chunks.iter().filter(|c| !c.is_empty()).count();
    let mut nt = false;
    if nonempty >= 2 {
        let mut pos = 0usize;
        let bytes = tc.input.as_bytes();
        for c in &case.chunks[..case.chunks.len() - 1] {
            pos += c.len();
            if pos == 0 || pos >= bytes.len() {
                continue;
            }
            let before = &tc.input[..pos];
            let after = &tc.input[pos..];
            if before.ends_with('\r') {
                st.label("cut after CR");
                nt = true;
                if after.starts_with('\n') {
                    st.label("cut between CR and LF");
                }
            }
            if after.starts_with('\u{feff}') {
                st.label("cut before U+FEFF");
                nt = true;
            }
            let lt = before.rfind('<');
            let gt = before.rfind('>');
            if lt.is_some() && (gt.is_none() || gt < lt) {
                st.label("cut inside markup (after '<', before '>')");
                nt = true;
                let tail = &before[lt.unwrap()..];
                let tl = tail.to_ascii_lowercase();
                if "</script".starts_with(&tl) && tl.len() >= 2 {
                    st.label("cut inside </script");
                }
                if "<!doctype".starts_with(&tl) || "<![cdata[".starts_with(&tl) || "<!--".starts_with(&tl) {
                    st.label("cut inside a look-ahead keyword");
                }
                if tl.ends_with("publi") || tl.ends_with("syst") || tl.ends_with("p") || tl.ends_with("sy") {
                    st.label("cut inside PUBLIC/SYSTEM");
                }
            }
            let amp = before.rfind('&');
            if let Some(a) = amp {
                if before[a + 1..].chars().all(|c| c.is_ascii_alphanumeric() || c == '#') && before.len() - a <= 10 {
                    st.label("cut inside a character reference");
                    nt = true;
                }
            }
        }
    }
    if !run.pauses.is_empty() {
        st.label("script suspension");
        if case.inject.iter().any(|(k, s)| *k < run.pauses.len() && !s.is_empty()) {
            st.label("injection at a script suspension");
            nt = true;
        }
    }
    if nt {
        st.nontrivial(hash64(case), || serde_json::to_value(case).unwrap());
    }
    Ok(())
}

// ---------------------------------------------------------------------------

const PIECES: &[&str] = &[
    "\r\n", "\r", "\n", "&amp;", "&not", "&#x41;", "&#65", "&am", "<!DOCTYPE a>", "<!--x-->", "PUBLIC", "SYSTEM 'x'", "<![CDATA[",
    "]]>", "</script>", "</title>", "<a b=c>", "\u{FEFF}", "<a b='\r\n'>", "--!>", "<a\r\nb>", "</scr", "\0", "<?x>", "</ >",
    "&#", "&#x", "é", "<b/>", "x=\r\ny",
];
const PREFIXES: &[(&str, Cold, Option<&str>)] = &[
    ("", Cold::Data, None),
    ("a", Cold::Data, None),
    ("", Cold::Rcdata, Some("title")),
    ("", Cold::ScriptData, Some("script")),
    ("<!--", Cold::ScriptData, Some("script")),
    ("<svg>", Cold::Data, None),
    ("<!DOCTYPE a ", Cold::Data, None),
    ("<a b=", Cold::Data, None),
    ("<a b=\"", Cold::Data, None),
    ("<!--", Cold::Data, None),
    ("", Cold::Rawtext, Some("style")),
    ("", Cold::Plaintext, None),
    ("<a ", Cold::Data, None),
];
const SUFFIXES: &[&str] = &["", "x", ">", "\n", "\r"];

pub fn pool() -> Vec<(String, Cold, Option<&'static str>)> {
    let mut v = vec![];
    for (pre, cold, last) in PREFIXES {
        for x in PIECES {
            for suf in SUFFIXES {
                let s = format!("{pre}{x}{suf}");
                if s.chars().count() <= 12 {
                    v.push((s, *cold, *last));
                }
            }
        }
    }
    for x in PIECES {
        for y in PIECES {
            let s = format!("{x}{y}");
            if s.chars().count() <= 12 {
                v.push((s.clone(), Cold::Data, None));
                v.push((s, Cold::ScriptData, Some("script")));
            }
        }
    }
    v
}

pub fn decode_random(s: &mut Src) -> Case {
    let mut tc = c01::decode_random(s);
    // prefer the HTML-like policy so that script pauses happen
    if s.chance(160) {
        tc.policy = Policy::html_like();
    }
    if s.chance(90) {
        // make sure there is a script element
        let at = s.below(tc.input.chars().count() + 1);
        let cs: Vec<char> = tc.input.chars().collect();
        let body = *s.pick(&["", "x", "<!--", "<!--<script>", "\r", "a\r\nb", "&amp;"]);
        let end = *s.pick(&["</script>", "</SCRIPT >", "</script/>", "</script x=y>", "</script\r\n>"]);
        tc.input = format!(
            "{}<script>{}{}{}",
            cs[..at].iter().collect::<String>(),
            body,
            end,
            cs[at..].iter().collect::<String>()
        );
    }
    let n = tc.input.chars().count();
    let cuts = chunks::gen_cuts(s, n);
    let ch = chunks::chunk_str(&tc.input, &cuts);
    let mut inject = vec![];
    let k = s.below(3);
    for _ in 0..k {
        let idx = s.below(3);
        let text = match s.below(6) {
            0 => String::new(),
            1 => "x".to_string(),
            2 => "<b>".to_string(),
            3 => "\n".to_string(),
            4 => "<script>y</script>".to_string(),
            _ => crate::gen::html::tok_soup(s, 4),
        };
        if !inject.iter().any(|(i, _)| *i == idx) {
            inject.push((idx, text));
        }
    }
    let discard_bom = s.bool();
    Case { tok: tc, chunks: ch, inject, discard_bom }
}

pub fn run_token_level(ctx: &Ctx, rep: &mut Report) {
    let pool = pool();
    // index space: for each pool entry, all partitions
    let mut offs = vec![];
    let mut total = 0u64;
    for (s, _, _) in &pool {
        offs.push(total);
        let n = s.chars().count();
        total += 1u64 << n.saturating_sub(1);
    }
    let exact_variants = 2u64;
    let out = run_exhaustive(total * exact_variants, |idx, st| {
        let exact = idx % exact_variants == 1;
        let idx = idx / exact_variants;
        let e = match offs.binary_search(&idx) {
            Ok(i) => i,
            Err(i) => i - 1,
        };
        let mask = idx - offs[e];
        let (s, cold, last) = &pool[e];
        let cs: Vec<char> = s.chars().collect();
        let ch: Vec<String> = chunks::split_mask(&cs, mask).into_iter().map(|v| v.into_iter().collect()).collect();
        let case = Case {
            tok: c01::Case {
                cold: *cold,
                last_start_tag: last.map(|x| x.to_string()),
                policy: Policy::html_like(),
                exact_errors: exact,
                input: s.clone(),
            },
            chunks: ch,
            inject: vec![],
            discard_bom: exact,
        };
        check(&case, st).map_err(|what| Failure { case: serde_json::to_value(&case).unwrap(), what })
    });
    rep.absorb(out);
    rep.extra.insert(
        "token_level_exhaustive".into(),
        json!({"pool_inputs": pool.len(), "schedules": total * exact_variants, "note": "every partition of every pool input (<=12 chars), default and exact_errors"}),
    );
    let out = run_random(ctx.seed, ctx.tier.pick(1_500_000, 20_000_000), 400, decode_random, check);
    rep.absorb(out);
}


// ---------------------------------------------------------------------------
// tree level

use crate::gen::cases::TreeCase;
use crate::sinks::canon::{first_diff, rcdom_canon, CanonOpts};
use crate::sinks::drive::{drive, quirks_name, Pause};
use crate::sinks::model::{model_canon, ModelDom, DOC};
use html5ever::tree_builder::TreeSink;
use markup5ever_rcdom::RcDom;

#[derive(Serialize, Deserialize, Clone, Debug, Hash, PartialEq, Eq)]
pub struct TreeSched {
    pub tree: TreeCase,
    pub inject: Vec<(usize, String)>,
}

/// Drive a sink over the schedule; returns (output, effective stream, pauses seen).
fn drive_sched<S: TreeSink>(sink: S, ts: &TreeSched, chunks_: &[String], inject: &[(usize, String)]) -> (S::Output, String, usize) {
    let fed = std::cell::RefCell::new(String::new());
    let pushed = std::cell::Cell::new(0usize); // bytes of chunks pushed so far
    let pause_no = std::cell::Cell::new(0usize);
    // `drive` pushes a chunk and then calls us at every suspension of that chunk
    let mut offsets = vec![];
    let mut acc = 0;
    for c in chunks_ {
        acc += c.len();
        offsets.push(acc);
    }
    let chunk_idx = std::cell::Cell::new(0usize);
    let all: String = chunks_.concat();
    let (out, _, _) = drive(sink, &ts.tree.cfg, chunks_, |parser, pause, _, _| {
        // account for the chunk that was pushed before this callback
        let upto = offsets[chunk_idx.get()];
        if pushed.get() < upto {
            fed.borrow_mut().push_str(&all[pushed.get()..upto]);
            pushed.set(upto);
        }
        match pause {
            Pause::ChunkEnd => chunk_idx.set(chunk_idx.get() + 1),
            Pause::Encoding => {},
            Pause::Script => {
                let q = parser.input_buffer.clone();
                let mut rem = String::new();
                while let Some(t) = q.pop_front() {
                    rem.push_str(&t);
                }
                if let Some((_, s)) = inject.iter().find(|(k, _)| *k == pause_no.get()) {
                    if !s.is_empty() {
                        parser.input_buffer.push_front(tendril::StrTendril::from(s.as_str()));
                        let mut f = fed.borrow_mut();
                        let at = f.len() - rem.len();
                        f.insert_str(at, s);
                    }
                }
                pause_no.set(pause_no.get() + 1);
            },
        }
    });
    let mut f = fed.into_inner();
    if pushed.get() < all.len() {
        f.push_str(&all[pushed.get()..]);
    }
    (out, f, pause_no.get())
}

pub fn check_tree(ts: &TreeSched, st: &mut Stats) -> Result<(), String> {
    st.eval();
    let (dom, fed, pauses) = drive_sched(ModelDom::for_cfg(&ts.tree.cfg), ts, &ts.tree.chunks, &ts.inject);
    let one = TreeSched { tree: ts.tree.clone(), inject: vec![] };
    let (dom1, _, _) = drive_sched(ModelDom::for_cfg(&ts.tree.cfg), &one, &[fed.clone()], &[]);
    let (a, b) = (model_canon(&dom, DOC, CanonOpts::default()), model_canon(&dom1, DOC, CanonOpts::default()));
    if a != b {
        return Err(format!(
            "final tree of the scheduled run differs from the one-piece run over the effective stream: {}\n chunks {:?} inject {:?} effective stream {:?}",
            first_diff(&b, &a),
            ts.tree.chunks,
            ts.inject,
            fed
        ));
    }
    if dom.quirks.get() != dom1.quirks.get() {
        return Err(format!("quirks mode differs: {} vs {}", quirks_name(dom.quirks.get()), quirks_name(dom1.quirks.get())));
    }
    // the crate's own driver (Parser as a TendrilSink: process() per chunk, then finish())
    if ts.inject.is_empty() {
        use tendril::TendrilSink;
        let mut p = crate::sinks::drive::make_parser(ModelDom::for_cfg(&ts.tree.cfg), &ts.tree.cfg);
        for c in &ts.tree.chunks {
            p.process(tendril::StrTendril::from(c.as_str()));
        }
        let d = p.finish();
        let c = model_canon(&d, DOC, CanonOpts::default());
        if c != b {
            return Err(format!(
                "tree via Parser::process/finish differs from the one-piece run: {}\n chunks {:?}",
                first_diff(&b, &c),
                ts.tree.chunks
            ));
        }
        st.label("tree level: driver path (process/finish)");
    }
    // every chunk queued first, then one feed loop (look-ahead keywords may span many buffers)
    if ts.inject.is_empty() {
        let p = crate::sinks::drive::make_parser(ModelDom::for_cfg(&ts.tree.cfg), &ts.tree.cfg);
        for c in &ts.tree.chunks {
            p.input_buffer.push_back(tendril::StrTendril::from(c.as_str()));
        }
        let mut guard = 0;
        while !matches!(p.tokenizer.feed(&p.input_buffer), markup5ever::TokenizerResult::Done) {
            guard += 1;
            if guard > 1_000_000 {
                return Err("feed() keeps suspending".into());
            }
        }
        use tendril::TendrilSink;
        let d = p.finish();
        let c = model_canon(&d, DOC, CanonOpts::default());
        if c != b {
            return Err(format!(
                "tree with all chunks queued before the first feed() differs from the one-piece run: {}\n chunks {:?}",
                first_diff(&b, &c),
                ts.tree.chunks
            ));
        }
    }
    // RcDom too
    let (r, _, _) = drive_sched(RcDom::default(), ts, &ts.tree.chunks, &ts.inject);
    let (r1, _, _) = drive_sched(RcDom::default(), &one, &[fed.clone()], &[]);
    let (ra, rb) = (rcdom_canon(&r.document, CanonOpts::default()), rcdom_canon(&r1.document, CanonOpts::default()));
    if ra != rb {
        return Err(format!("RcDom tree of the scheduled run differs from the one-piece run: {}", first_diff(&rb, &ra)));
    }
    let nonempty = ts.tree.chunks.iter().filter(|c| !c.is_empty()).count();
    let mut nt = false;
    if nonempty >= 2 {
        st.label("tree level: >=2 non-empty chunks");
        nt = true;
    }
    if pauses > 0 {
        st.label("tree level: script suspension");
        if ts.inject.iter().any(|(k, s)| *k < pauses && !s.is_empty()) {
            st.label("tree level: injection at a script suspension");
            nt = true;
        }
    }
    if nt {
        st.nontrivial(hash64(ts), || serde_json::to_value(ts).unwrap());
    }
    Ok(())
}

pub fn decode_tree(s: &mut Src) -> TreeSched {
    let mut tc = crate::gen::cases::gen_tree_case(s, true, 30);
    if s.chance(120) {
        let at = s.below(tc.input.chars().count() + 1);
        let cs: Vec<char> = tc.input.chars().collect();
        let body = *s.pick(&["", "x", "document.write('<b>')", "<!--", "\r\n"]);
        tc.input = format!(
            "{}<script>{}</script>{}",
            cs[..at].iter().collect::<String>(),
            body,
            cs[at..].iter().collect::<String>()
        );
    }
    if s.chance(40) {
        tc.input = format!("{}<svg><script>x</script></svg>", tc.input);
    }
    tc.cfg.discard_bom = s.bool();
    tc.cfg.tok_exact_errors = s.chance(40);
    let n = tc.input.chars().count();
    let cuts = chunks::gen_cuts(s, n);
    tc.chunks = chunks::chunk_str(&tc.input, &cuts);
    let mut inject = vec![];
    let k = s.below(3);
    for _ in 0..k {
        let idx = s.below(3);
        let text = match s.below(7) {
            0 => String::new(),
            1 => "x".to_string(),
            2 => "<b>".to_string(),
            3 => "</p><table>".to_string(),
            4 => "<script>y</script>".to_string(),
            5 => "\u{feff}z".to_string(),
            _ => crate::gen::html::gen_html(s, 5),
        };
        if !inject.iter().any(|(i, _)| *i == idx) {
            inject.push((idx, text));
        }
    }
    TreeSched { tree: tc, inject }
}

pub fn run(ctx: &Ctx) -> Report {
    let mut rep = Report::new(
        "Metamorphic: run(schedule) == run(one piece over the effective stream). Token level: html5ever's tokenizer with a recording sink (HTML-like policy: raw-text switches, Script suspension at </script>), default and exact_errors options; compared: every non-character token incl. ParseError text with its line number, and between them the concatenated character data with the line number of its last fragment; at every Script suspension the unread remainder is read off the BufferQueue, the consumed prefix must end with the suspending tag (checked by tokenizing the prefix alone), and text pushed to the front of the input there must be parsed as if written at that position (one-piece run over prefix+injected+rest). Tree level: Parser driven by hand (tokenizer.feed(&input_buffer)) over ModelDom and RcDom, grammar-generated documents/fragments with script elements, random chunkings, injections through input_buffer.push_front at Script results; final tree and quirks mode must equal the one-piece run over the effective stream. Search: every partition of every input of a pool (~3k inputs <=12 chars placing CR, LF, CRLF, U+FEFF, character references, DOCTYPE/PUBLIC/SYSTEM/--/[CDATA[ keywords, </script, raw-text end tags in each context), then random token soup x random cut multisets (incl. empty and one-character chunks) x random injections. Non-trivial: >=2 non-empty chunks with a cut after CR, before U+FEFF, inside markup, inside a look-ahead keyword, inside a character reference, or a non-empty injection at a suspension; distinct by hash of (case, chunks, injections).",
    );
    rep.assume("fragment boundaries of character data legitimately move with chunking; only the concatenation and the line of the last fragment are compared");
    report_known(ctx, &mut rep, &|v| replay(&ctx.strict_clone(), v));
    run_regressions(ctx, &mut rep, &|v| replay(&ctx.strict_clone(), v));
    run_token_level(ctx, &mut rep);
    let out = run_random(ctx.seed ^ 0x33, ctx.tier.pick(600_000, 10_000_000), 1500, decode_tree, check_tree);
    rep.absorb(out);
    for l in [
        "cut after CR",
        "cut between CR and LF",
        "cut before U+FEFF",
        "cut inside a look-ahead keyword",
        "cut inside </script",
        "cut inside a character reference",
        "injection at a script suspension",
        "tree level: >=2 non-empty chunks",
        "tree level: injection at a script suspension",
    ] {
        rep.need(l, 200);
    }
    rep
}

pub fn replay(_ctx: &Ctx, v: &Value) -> Result<(), String> {
    let mut st = Stats::default();
    if v.get("tree").is_some() {
        let ts: TreeSched = serde_json::from_value(v.clone()).map_err(|e| format!("bad case: {e}"))?;
        return check_tree(&ts, &mut st);
    }
    let case: Case = serde_json::from_value(v.clone()).map_err(|e| format!("bad case: {e}"))?;
    check(&case, &mut st)
}
