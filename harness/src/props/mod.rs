//! One module per property.
use crate::engine::{Ctx, Report};
use serde_json::Value;

pub mod c01;
pub mod c02;
pub mod c03;
pub mod c04;
pub mod c05;
pub mod c06;
pub mod c07;
pub mod c08;
pub mod c09;
pub mod c10;
pub mod c11;
pub mod c12;
pub mod c13;
pub mod c14;
pub mod c15;
pub mod c16;
pub mod c17;
pub mod c18;
pub mod c19;
pub mod c20;

pub struct Prop {
    pub id: &'static str,
    pub run: fn(&Ctx) -> Report,
    /// strict replay of one saved case (JSON `case` member of a replay file)
    pub replay: fn(&Ctx, &Value) -> Result<(), String>,
}

pub fn all() -> Vec<Prop> {
    vec![
        Prop { id: "C01", run: c01::run, replay: c01::replay },
        Prop { id: "C02", run: c02::run, replay: c02::replay },
        Prop { id: "C03", run: c03::run, replay: c03::replay },
        Prop { id: "C04", run: c04::run, replay: c04::replay },
        Prop { id: "C05", run: c05::run, replay: c05::replay },
        Prop { id: "C06", run: c06::run, replay: c06::replay },
        Prop { id: "C07", run: c07::run, replay: c07::replay },
        Prop { id: "C08", run: c08::run, replay: c08::replay },
        Prop { id: "C09", run: c09::run, replay: c09::replay },
        Prop { id: "C10", run: c10::run, replay: c10::replay },
        Prop { id: "C11", run: c11::run, replay: c11::replay },
        Prop { id: "C12", run: c12::run, replay: c12::replay },
        Prop { id: "C13", run: c13::run, replay: c13::replay },
        Prop { id: "C14", run: c14::run, replay: c14::replay },
        Prop { id: "C15", run: c15::run, replay: c15::replay },
        Prop { id: "C16", run: c16::run, replay: c16::replay },
        Prop { id: "C17", run: c17::run, replay: c17::replay },
        Prop { id: "C18", run: c18::run, replay: c18::replay },
        Prop { id: "C19", run: c19::run, replay: c19::replay },
        Prop { id: "C20", run: c20::run, replay: c20::replay },
    ]
}

// ---------------------------------------------------------------------------
// libFuzzer entry (harness/fuzz): bytes -> Src -> case -> oracle

use crate::engine::{Src, Stats};
use std::sync::OnceLock;

struct FuzzCtx {
    prop: String,
    ctx: Ctx,
    out: Option<String>,
}

fn fuzz_ctx() -> &'static FuzzCtx {
    static C: OnceLock<FuzzCtx> = OnceLock::new();
    C.get_or_init(|| {
        let prop = std::env::var("HV_FUZZ_PROP").unwrap_or_else(|_| "C01".into()).to_uppercase();
        crate::engine::install_panic_hook();
        let ctx = Ctx::new(&prop, crate::engine::Tier::Thorough, 0);
        FuzzCtx { prop, ctx, out: std::env::var("HV_FUZZ_OUT").ok() }
    })
}

fn fuzz_fail(fc: &FuzzCtx, case: Value, what: String) -> ! {
    if let Some(out) = &fc.out {
        let _ = std::fs::write(
            out,
            serde_json::to_string_pretty(&serde_json::json!({"property": fc.prop, "case": case, "what": what})).unwrap(),
        );
    }
    eprintln!("HV-FUZZ-VIOLATION property={} {}", fc.prop, what);
    std::process::abort();
}

/// Decode a choice sequence with the property's generator and run its oracle.
pub fn check_bytes(ctx: &Ctx, data: &[u8]) -> Result<(), (Value, String)> {
    let mut s = Src::new(data);
    let mut st = Stats::default();
    macro_rules! go {
        ($decode:expr, $check:expr) => {{
            let case = $decode(&mut s);
            let r = crate::engine::guarded(|| $check(&case, &mut st)).unwrap_or_else(Err);
            r.map_err(|what| (serde_json::to_value(&case).unwrap_or(Value::Null), what))
        }};
    }
    match ctx.id.as_str() {
        "C01" => go!(c01::decode_random, c01::oracle),
        "C02" => {
            let kf = c02::active_switches(ctx);
            go!(c02::decode, |c: &crate::gen::cases::TreeCase, st: &mut Stats| c02::check_with(c, &kf, st))
        },
        "C03" => {
            if data.first().map(|b| b & 1 == 0).unwrap_or(true) {
                go!(c03::decode_random, c03::check)
            } else {
                go!(c03::decode_tree, c03::check_tree)
            }
        },
        "C04" => go!(c04::decode, c04::check),
        "C05" => go!(c05::decode, c05::check),
        "C06" => {
            let tol = ctx.tolerate(c06::KF_AFE_FRAMESET);
            go!(c06::decode, |c: &crate::gen::cases::TreeCase, st: &mut Stats| c06::check_kf(c, st, tol))
        },
        "C07" => go!(c07::decode, c07::check),
        "C08" => go!(c08::decode, c08::check),
        "C09" => go!(c09::decode_random, c09::check),
        "C10" => {
            if data.first().map(|b| b & 1 == 0).unwrap_or(true) {
                go!(c10::decode_utf8_case, c10::oracle)
            } else {
                go!(c10::decode_enc_case, c10::oracle)
            }
        },
        // under libFuzzer the build carries AddressSanitizer, which is the memory-safety monitor
        // there (C12: out-of-bounds reads and writes, use after free, double free, leaks)
        "C11" | "C12" => go!(c11::decode, |c: &c11::Case, st: &mut Stats| c11::oracle(c, st, false)),
        "C13" => go!(c13::decode, c13::oracle),
        "C15" => go!(c15::decode, c15::check),
        "C16" => go!(c16::decode, c16::check),
        "C17" => go!(c17::decode, c17::check),
        "C18" => go!(c18::decode, c18::check),
        "C19" => {
            let kf = c02::active_switches(ctx);
            go!(c19::decode, |c: &crate::gen::cases::TreeCase, st: &mut Stats| c19::check_with(&kf, c, st))
        },
        "C20" => go!(c20::decode, c20::check),
        other => Err((Value::Null, format!("no byte-level dispatch for {other}"))),
    }
}

/// set by the libFuzzer entry point
pub static FUZZING: std::sync::atomic::AtomicBool = std::sync::atomic::AtomicBool::new(false);

pub const FUZZ_PROPS: &[&str] = &[
    "C01", "C02", "C03", "C04", "C05", "C06", "C07", "C08", "C09", "C10", "C11", "C12", "C13", "C15", "C16", "C17", "C18", "C19", "C20",
];

/// libFuzzer entry point.
pub fn fuzz_one(data: &[u8]) {
    FUZZING.store(true, std::sync::atomic::Ordering::Relaxed);
    let fc = fuzz_ctx();
    if let Err((case, what)) = check_bytes(&fc.ctx, data) {
        fuzz_fail(fc, case, what);
    }
}

/// Thorough tier: coverage-guided campaign (cargo-fuzz / libFuzzer, ASan on) over the
/// same decoder and oracle; a crash is re-checked in-process before it is reported.
pub fn run_fuzz(ctx: &Ctx, rep: &mut Report) {
    use std::process::Command;
    if !FUZZ_PROPS.contains(&ctx.id.as_str()) {
        return;
    }
    let root = crate::engine::verif_root();
    let harness = root.join("harness");
    let tag = format!("{}-{}-{}", ctx.id, ctx.seed, std::process::id());
    let corpus = harness.join("fuzz").join("corpus").join(&tag);
    let out = harness.join("fuzz").join(format!("out-{tag}.json"));
    let _ = std::fs::remove_dir_all(&corpus);
    let _ = std::fs::create_dir_all(&corpus);
    // seed corpus: choice sequences from the proptest RNG (so that libFuzzer starts at full length)
    {
        use proptest::test_runner::{RngAlgorithm, TestRng};
        use proptest::prelude::RngCore;
        let mut seed = [0u8; 32];
        seed[..8].copy_from_slice(&ctx.seed.to_le_bytes());
        seed[8] = 0xF2;
        let mut rng = TestRng::from_seed(RngAlgorithm::ChaCha, &seed);
        for i in 0..64 {
            let len = 16 + (rng.next_u32() as usize % 1200);
            let mut b = vec![0u8; len];
            rng.fill_bytes(&mut b);
            let _ = std::fs::write(corpus.join(format!("seed-{i}")), b);
        }
    }
    let runs: u64 = std::env::var("HV_FUZZ_RUNS").ok().and_then(|s| s.parse().ok()).unwrap_or(100_000);
    let jobs = 16;
    let mut cmd = Command::new("cargo");
    {
        use std::os::unix::process::CommandExt;
        unsafe {
            cmd.pre_exec(|| {
                // undo the checking process's address-space limit for the sanitizer build
                let mut lim: libc::rlimit = std::mem::zeroed();
                if libc::getrlimit(libc::RLIMIT_AS, &mut lim) == 0 {
                    lim.rlim_cur = lim.rlim_max;
                    libc::setrlimit(libc::RLIMIT_AS, &lim);
                }
                Ok(())
            });
        }
    }
    let status = cmd
        .current_dir(&harness)
        .args(["+nightly", "fuzz", "run", "props"])
        .arg(&corpus)
        .arg("--")
        .arg(format!("-runs={runs}"))
        .arg(format!("-seed={}", ctx.seed.max(1)))
        // the campaign is sized by -runs; the wall-clock cap only bounds a badly loaded machine
        // (reaching it shortens the campaign, it is never a verdict)
        .args(["-len_control=0", "-max_len=1500", "-print_final_stats=1", "-timeout=240", "-max_total_time=900"])
        .arg(format!("-jobs={jobs}"))
        .arg(format!("-workers={jobs}"))
        .env("HV_FUZZ_PROP", &ctx.id)
        .env("HV_FUZZ_OUT", &out)
        .env("VERIF_ROOT", &root)
        .env("CARGO_NET_OFFLINE", "true")
        .env("RUSTFLAGS", "--cfg servo_html5ever_verif")
        .stdout(std::process::Stdio::null())
        .stderr(std::process::Stdio::null())
        .status();
    // collect executions from the job logs (fuzz-<n>.log in the harness directory)
    let mut execs = 0u64;
    for j in 0..jobs {
        let lp = harness.join(format!("fuzz-{j}.log"));
        if let Ok(txt) = std::fs::read_to_string(&lp) {
            for l in txt.lines() {
                if let Some(v) = l.strip_prefix("stat::number_of_executed_units:") {
                    execs += v.trim().parse::<u64>().unwrap_or(0);
                }
            }
        }
        let _ = std::fs::remove_file(&lp);
    }
    rep.stats.evals += execs;
    rep.stats.label_n("libFuzzer executions", execs);
    rep.rule.push_str(" Thorough tier additionally: a libFuzzer campaign (cargo-fuzz, AddressSanitizer and debug assertions on, 16 jobs, fixed -runs, -seed=VERIF_SEED, -len_control=0, seed corpus of 64 random choice sequences) over the same decoder and oracle; a crash is re-checked in-process before it is reported.");
    let ok = matches!(&status, Ok(s) if s.success());
    if let Ok(txt) = std::fs::read_to_string(&out) {
        if let Ok(v) = serde_json::from_str::<Value>(&txt) {
            let case = v["case"].clone();
            let prop = all().into_iter().find(|p| p.id == ctx.id).unwrap();
            let r = crate::engine::guarded(|| (prop.replay)(ctx, &case)).unwrap_or_else(Err);
            match r {
                Err(what) => rep.failures.push(crate::engine::Failure { case, what: format!("found by libFuzzer: {what}") }),
                Ok(()) => rep.inconclusive.push("libFuzzer reported a violation that does not reproduce in-process".into()),
            }
        }
        let _ = std::fs::remove_file(&out);
    } else if !ok {
        // crash without an oracle verdict (sanitizer report, abort): look for the artifact
        let art = harness.join("fuzz").join("artifacts").join("props");
        let mut found = false;
        if let Ok(rd) = std::fs::read_dir(&art) {
            for e in rd.flatten() {
                if e.file_name().to_string_lossy().starts_with("slow-unit-") {
                    // informational (a unit took longer than libFuzzer's report threshold)
                    let _ = std::fs::remove_file(e.path());
                    continue;
                }
                if let Ok(bytes) = std::fs::read(e.path()) {
                    if let Err((case, what)) = check_bytes(ctx, &bytes) {
                        rep.failures.push(crate::engine::Failure { case, what: format!("found by libFuzzer (artifact): {what}") });
                        found = true;
                    } else if (ctx.id == "C12" || ctx.id == "C11")
                        && (e.file_name().to_string_lossy().starts_with("crash-") || e.file_name().to_string_lossy().starts_with("leak-"))
                    {
                        // the sanitizer is the oracle: the case is a tendril operation history
                        let mut src = Src::new(&bytes);
                        let case = serde_json::to_value(c11::decode(&mut src)).unwrap_or(Value::Null);
                        let keep = root.join("replays").join(format!("{}-fuzz-artifact-{}", ctx.id, e.file_name().to_string_lossy()));
                        let _ = std::fs::copy(e.path(), &keep);
                        rep.failures.push(crate::engine::Failure {
                            case,
                            what: format!(
                                "AddressSanitizer / LeakSanitizer stopped the libFuzzer run on this operation history (memory error reached through the safe API; the contents still match the model); raw input kept at {}",
                                keep.display()
                            ),
                        });
                        found = true;
                    } else {
                        let keep = root.join("replays").join(format!("{}-fuzz-artifact-{}", ctx.id, e.file_name().to_string_lossy()));
                        let _ = std::fs::copy(e.path(), &keep);
                        rep.inconclusive.push(format!(
                            "libFuzzer crashed (sanitizer/abort) on an input that passes in-process; artifact kept at {}",
                            keep.display()
                        ));
                        found = true;
                    }
                    let _ = std::fs::remove_file(e.path());
                }
            }
        }
        if !found {
            rep.inconclusive.push(format!("cargo fuzz did not run to completion ({status:?})"));
        }
    }
    let _ = std::fs::remove_dir_all(&corpus);
}
