//! C07 — HTML serializer output re-parses to the same tree; inner equals outer.

use crate::engine::*;
use crate::gen::cases::gen_tree_case;
use crate::sinks::canon::{first_diff, rcdom_canon, CanonOpts};
use crate::sinks::drive::{drive, TreeCfg};
use html5ever::serialize::{serialize, SerializeOpts, TraversalScope};
use html5ever::tree_builder::{ElementFlags, NodeOrText, TreeSink};
use html5ever::{Attribute, LocalName, Namespace, QualName};
use markup5ever_rcdom::{Handle, NodeData, RcDom, SerializableHandle};
use serde::{Deserialize, Serialize};
use serde_json::Value;
use tendril::stream::TendrilSink;
use tendril::StrTendril;

#[derive(Serialize, Deserialize, Clone, Debug, Hash, PartialEq, Eq)]
pub enum GNode {
    Elem { name: String, attrs: Vec<(String, String)>, kids: Vec<GNode> },
    Text(String),
}

#[derive(Serialize, Deserialize, Clone, Debug, Hash, PartialEq, Eq)]
pub enum Case {
    /// constructed tree over the ordinary vocabulary
    Built { kids: Vec<GNode> },
    /// parsed document: inner/outer on every element
    Parsed { input: String },
    /// parsed with the scripting flag off (noscript has element children), same checks
    ParsedNoScript { input: String },
    /// constructed tree over ANY vocabulary (raw-text elements, "svg:name" / "math:name" for
    /// foreign elements, arbitrary nesting): inner/outer and decode checks only, no re-parse
    BuiltAny { kids: Vec<GNode> },
}

pub const ORDINARY: &[&str] = &[
    "div", "span", "section", "article", "aside", "header", "footer", "main", "nav", "ul", "ol", "dl", "figure", "figcaption",
    "blockquote", "details", "summary", "fieldset", "label", "output", "abbr", "cite", "q", "sub", "sup", "var", "time", "data",
    "mark", "kbd", "samp", "dfn", "bdi", "bdo", "ins", "del", "x-custom", "my-element", "template",
];
const ATTR_NAMES: &[&str] = &["id", "class", "title", "lang", "data-x", "data-y", "href", "aria-label", "style", "onclick"];
const SPECIAL_CHARS: &[char] = &[
    '&', '<', '>', '"', '\'', '\u{A0}', '©', 'é', 'Â', '\u{C2}', '\u{80}', '¿', 'À', 'ÿ', ';', '#', '=', '/', '!', '-', ']', ' ', '\n', '\t',
    '\x0C', '\u{FEFF}', 'a', 'm', 'p', 'l', 't', 'g', 'x', '😁', '\u{2028}', '\u{FFFD}', '\u{1}', '\u{7F}', '\u{85}',
];
const SNIPPETS: &[&str] = &[
    "&amp;", "&lt;", "&nbsp", "&#38;", "&#x26;", "</div>", "</span", "<!--", "-->", "]]>", "<script>", "</", "<b>", "&copy", "&notit;",
    "\u{A0}\u{A0}", "©®", "\"'>", "' onclick='", "\"><x y=\"", "&", "<", ">",
];

fn gen_string(s: &mut Src, max: usize) -> String {
    let n = 1 + s.len(max);
    let mut out = String::new();
    for _ in 0..n {
        if s.chance(2) {
            // long plain run up to (and just past) the sizes buffers and strides use,
            // so that what follows it sits behind a length threshold
            let base = if s.chance(30) { *s.pick(&[16384usize, 65536]) } else { *s.pick(&[16usize, 32, 64, 128, 256, 1024, 4096, 8192]) };
            let len = (base + s.below(4)).saturating_sub(2);
            let fill = *s.pick(&["a", " ", "é", "b&amp;", "\u{A0}", "x"]);
            while out.len() < len {
                out.push_str(fill);
            }
            continue;
        }
        match s.below(6) {
            0 | 1 => out.push(s.char_from(SPECIAL_CHARS)),
            2 => out.push_str(*s.pick(SNIPPETS)),
            3 => {
                // every 2-byte character with lead byte 0xC2 / 0xC3
                out.push(char::from_u32(0x80 + s.below(0x80) as u32).unwrap());
            },
            _ => {
                let c = s.any_char();
                if c != '\r' && c != '\0' {
                    out.push(c);
                }
            },
        }
    }
    out.retain(|c| c != '\r' && c != '\0');
    if out.is_empty() {
        out.push('x');
    }
    out
}

fn gen_kids(s: &mut Src, depth: usize, budget: &mut usize) -> Vec<GNode> {
    let n = if depth > 4 { s.below(2) } else { s.len(5) };
    let mut out: Vec<GNode> = vec![];
    for _ in 0..n {
        if *budget == 0 {
            break;
        }
        *budget -= 1;
        let want_text = s.chance(100);
        if want_text && !matches!(out.last(), Some(GNode::Text(_))) {
            out.push(GNode::Text(gen_string(s, 12)));
        } else {
            let name = s.pick(ORDINARY).to_string();
            let na = s.below(3);
            let mut attrs: Vec<(String, String)> = vec![];
            for _ in 0..na {
                let an = s.pick(ATTR_NAMES).to_string();
                if attrs.iter().any(|(k, _)| *k == an) {
                    continue;
                }
                let v = if s.chance(40) { String::new() } else { gen_string(s, 10) };
                attrs.push((an, v));
            }
            if name == "template" && s.chance(100) && !attrs.iter().any(|(k, _)| k == "shadowrootmode") {
                // a declarative-shadow-root declaration: re-parsed by a sink that does not attach
                // shadow roots (RcDom), it must stay an ordinary template
                attrs.push(("shadowrootmode".into(), s.pick(&["open", "closed", "x", "OPEN"]).to_string()));
            }
            let kids = gen_kids(s, depth + 1, budget);
            out.push(GNode::Elem { name, attrs, kids });
        }
    }
    out
}

const ANY_NAMES: &[&str] = &[
    "div", "span", "script", "style", "xmp", "iframe", "noembed", "noframes", "plaintext", "noscript", "title", "textarea", "pre", "p", "b",
    "svg:svg", "svg:text", "svg:tspan", "svg:style", "svg:script", "svg:title", "svg:desc", "svg:foreignObject", "math:math", "math:mi",
    "math:annotation-xml", "math:mtext", "svg:xmp", "math:noscript", "template", "table", "td", "select", "option",
];

/// Trees no parser run produces (anything under anything), for the serializer's own rules.
fn gen_any(s: &mut Src, depth: usize, budget: &mut usize) -> Vec<GNode> {
    let n = if depth > 5 { s.below(2) } else { 1 + s.len(3) };
    let mut out: Vec<GNode> = vec![];
    for _ in 0..n {
        if *budget == 0 {
            break;
        }
        *budget -= 1;
        if s.chance(110) && !matches!(out.last(), Some(GNode::Text(_))) {
            out.push(GNode::Text(gen_string(s, 6)));
        } else {
            let name = s.pick(ANY_NAMES).to_string();
            let mut attrs: Vec<(String, String)> = vec![];
            if s.chance(60) {
                attrs.push((s.pick(ATTR_NAMES).to_string(), gen_string(s, 5)));
            }
            let kids = gen_any(s, depth + 1, budget);
            out.push(GNode::Elem { name, attrs, kids });
        }
    }
    out
}

pub fn decode(s: &mut Src) -> Case {
    if s.chance(90) {
        let tc = gen_tree_case(s, false, 40);
        return if s.chance(60) { Case::ParsedNoScript { input: tc.input } } else { Case::Parsed { input: tc.input } };
    }
    if s.chance(70) {
        let mut budget = 30;
        return Case::BuiltAny { kids: gen_any(s, 0, &mut budget) };
    }
    let mut budget = 40;
    let mut kids = gen_kids(s, 0, &mut budget);
    if s.chance(12) {
        // an element with many children (any count up to 400: limits of batching / paging code)
        let n = s.below(400);
        let many = (0..n)
            .map(|k| {
                if k % 7 == 3 {
                    GNode::Elem { name: "i-x".into(), attrs: vec![], kids: vec![] }
                } else {
                    GNode::Elem { name: "span".into(), attrs: vec![], kids: vec![GNode::Text(format!("{k}"))] }
                }
            })
            .collect();
        kids.push(GNode::Elem { name: "div".into(), attrs: vec![], kids: many });
    }
    Case::Built { kids }
}

fn html_name(l: &str) -> QualName {
    QualName::new(None, Namespace::from("http://www.w3.org/1999/xhtml"), LocalName::from(l))
}

fn build(dom: &RcDom, parent: &Handle, kids: &[GNode]) {
    // iterative to keep deep trees safe
    let mut work: Vec<(Handle, &[GNode])> = vec![(parent.clone(), kids)];
    while let Some((p, ks)) = work.pop() {
        for k in ks {
            match k {
                GNode::Text(t) => dom.append(&p, NodeOrText::AppendText(StrTendril::from(t.as_str()))),
                GNode::Elem { name, attrs, kids } => {
                    let a = attrs
                        .iter()
                        .map(|(k, v)| Attribute {
                            name: QualName::new(None, Namespace::from(""), LocalName::from(k.as_str())),
                            value: StrTendril::from(v.as_str()),
                        })
                        .collect();
                    let qn = match name.split_once(':') {
                        Some(("svg", l)) => QualName::new(None, Namespace::from("http://www.w3.org/2000/svg"), LocalName::from(l)),
                        Some(("math", l)) => QualName::new(None, Namespace::from("http://www.w3.org/1998/Math/MathML"), LocalName::from(l)),
                        _ => html_name(name),
                    };
                    let is_template = name == "template";
                    let mut flags = ElementFlags::default();
                    flags.template = is_template;
                    let e = dom.create_element(qn, a, flags);
                    dom.append(&p, NodeOrText::AppendNode(e.clone()));
                    // a template's children live in its template contents
                    let below = if is_template { dom.get_template_contents(&e) } else { e };
                    work.push((below, kids));
                },
            }
        }
    }
}

fn ser(h: &Handle, scope: TraversalScope, scripting: bool) -> Result<String, String> {
    let mut out = Vec::new();
    let sh: SerializableHandle = h.clone().into();
    serialize(&mut out, &sh, SerializeOpts { scripting_enabled: scripting, traversal_scope: scope, create_missing_parent: false })
        .map_err(|e| format!("serialize: {e}"))?;
    String::from_utf8(out).map_err(|e| format!("serializer wrote invalid UTF-8: {e}"))
}

fn children_dump(h: &Handle) -> String {
    let mut s = String::new();
    for c in h.children.borrow().iter() {
        s.push_str(&rcdom_canon(c, CanonOpts { dup: false, ..CanonOpts::default() }));
    }
    s
}

const VOID: &[&str] = &[
    "area", "base", "basefont", "bgsound", "br", "col", "embed", "frame", "hr", "img", "input", "keygen", "link", "meta", "param", "source",
    "track", "wbr",
];
const RAW_TEXT: &[&str] = &["style", "script", "xmp", "iframe", "noembed", "noframes", "plaintext"];

/// Inverse of the five entities the serializer may write; Err if the run
/// contains a raw character that would leave its context.
fn unescape(run: &str, attr: bool) -> Result<String, String> {
    let mut out = String::new();
    let mut rest = run;
    while let Some(c) = rest.chars().next() {
        if c == '&' {
            let mut hit = false;
            for (e, r) in [("&amp;", '&'), ("&lt;", '<'), ("&gt;", '>'), ("&quot;", '"'), ("&nbsp;", '\u{A0}')] {
                if rest.starts_with(e) {
                    out.push(r);
                    rest = &rest[e.len()..];
                    hit = true;
                    break;
                }
            }
            if !hit {
                return Err(format!("raw '&' that is not one of the five entities in {run:?}"));
            }
            continue;
        }
        if attr && c == '"' {
            return Err(format!("raw '\"' inside an attribute value: {run:?}"));
        }
        if !attr && c == '<' {
            return Err(format!("raw '<' inside escaped text: {run:?}"));
        }
        out.push(c);
        rest = &rest[c.len_utf8()..];
    }
    Ok(out)
}

/// `inner` (the children of element `n`, serialized with `n` named as parent) must be the
/// concatenation of its children's own serializations.
fn composed(n: &Handle, name: &QualName, inner: &str, scripting: bool, is_html: bool) -> Result<(), String> {
    let kids: Vec<Handle> = match &n.data {
        NodeData::Element { template_contents, .. } if template_contents.borrow().is_some() => {
            template_contents.borrow().as_ref().unwrap().children.borrow().clone()
        },
        _ => n.children.borrow().clone(),
    };
    let raw = is_html && (RAW_TEXT.contains(&&*name.local) || (&*name.local == "noscript" && scripting));
    let mut pos = 0usize;
    for (i, k) in kids.iter().enumerate() {
        let rest = &inner[pos..];
        match &k.data {
            NodeData::Element { name: kn, .. } => {
                let o = ser(k, TraversalScope::IncludeNode, scripting)?;
                if !rest.starts_with(o.as_str()) {
                    return Err(format!(
                        "child #{i} <{}> of <{}> (scripting_enabled={scripting}) is written as {:?} inside its parent, but serializes as {o:?} on its own",
                        &*kn.local,
                        &*name.local,
                        &rest[..rest.len().min(o.len() + 20)]
                    ));
                }
                pos += o.len();
            },
            NodeData::Text { contents } => {
                let t = contents.borrow().to_string();
                if raw {
                    if !rest.starts_with(t.as_str()) {
                        return Err(format!("text child #{i} {t:?} of raw-text <{}> is not written verbatim: {:?}", &*name.local, &rest[..rest.len().min(t.len() + 20)]));
                    }
                    pos += t.len();
                } else {
                    // consume the shortest prefix that decodes to the text
                    let mut want = t.chars();
                    let mut used = 0usize;
                    let mut r = rest;
                    loop {
                        let Some(w) = want.next() else { break };
                        let mut hit = None;
                        for (e, c) in [("&amp;", '&'), ("&lt;", '<'), ("&gt;", '>'), ("&quot;", '"'), ("&nbsp;", '\u{A0}')] {
                            if r.starts_with(e) && c == w {
                                hit = Some(e.len());
                                break;
                            }
                        }
                        let step = match hit {
                            Some(l) => l,
                            None => match r.chars().next() {
                                Some(c) if c == w && c != '<' && c != '&' => c.len_utf8(),
                                _ => {
                                    return Err(format!(
                                        "text child #{i} {t:?} of <{}> (namespace {:?}, scripting_enabled={scripting}) is written as {:?}, which does not decode back to it",
                                        &*name.local,
                                        &*name.ns,
                                        &rest[..rest.len().min(t.len() + 20)]
                                    ))
                                },
                            },
                        };
                        used += step;
                        r = &r[step..];
                    }
                    pos += used;
                }
            },
            NodeData::Comment { contents } => {
                let c = format!("<!--{}-->", &**contents);
                if !rest.starts_with(c.as_str()) {
                    return Err(format!("comment child #{i} of <{}> is written as {:?}", &*name.local, &rest[..rest.len().min(c.len() + 20)]));
                }
                pos += c.len();
            },
            // doctype / PI / document children do not occur below elements in these trees
            _ => return Ok(()),
        }
    }
    if pos != inner.len() {
        return Err(format!("children of <{}> serialize to {inner:?}: {} byte(s) more than the children account for", &*name.local, inner.len() - pos));
    }
    Ok(())
}

/// inner == outer for every element below `root`; plus the decode checks.
fn inner_outer(root: &Handle, st: &mut Stats) -> Result<(), String> {
    let mut stack = vec![root.clone()];
    while let Some(n) = stack.pop() {
        for c in n.children.borrow().iter() {
            stack.push(c.clone());
        }
        if let NodeData::Element { template_contents, .. } = &n.data {
            if let Some(tc) = template_contents.borrow().as_ref() {
                stack.push(tc.clone());
            }
        }
        let NodeData::Element { name, attrs, .. } = &n.data else { continue };
        let is_html = &*name.ns == "http://www.w3.org/1999/xhtml";
        if is_html && VOID.contains(&&*name.local) {
            continue; // no end tag: "between start and end tag" is not defined
        }
        for scripting in [true, false] {
            let outer = ser(&n, TraversalScope::IncludeNode, scripting)?;
            let inner = ser(&n, TraversalScope::ChildrenOnly(Some(name.clone())), scripting)?;
            let end = format!("</{}>", &*name.local);
            let Some(gt) = outer.find('>') else {
                return Err(format!("outer serialization {outer:?} has no '>'"));
            };
            let between = outer[gt + 1..].strip_suffix(end.as_str()).ok_or_else(|| {
                format!("outer serialization of <{}> does not end with {end:?}: {outer:?}", &*name.local)
            })?;
            if between != inner {
                return Err(format!(
                    "element <{}> (namespace {:?}), scripting_enabled={scripting}: children serialized with the element named as parent = {inner:?}, but its own serialization has {between:?} between the tags",
                    &*name.local,
                    &*name.ns
                ));
            }
            // compositional: the children's part is the concatenation of what each child writes on
            // its own - element children exactly as when serialized alone, text raw under an HTML
            // raw-text parent and otherwise as a run that decodes back to it, comments verbatim
            composed(&n, name, &inner, scripting, is_html)?;
            // start tag: every attribute value decodes back to the original
            let start = &outer[..gt + 1];
            // skip the tag name (it may itself contain '=' and quotes); every attribute is
            // written as SPACE name="value"
            let mut pos = if start[1..].starts_with(&*name.local) { 1 + name.local.len() } else { 0 };
            for a in attrs.borrow().iter() {
                // written as SPACE [prefix:]name="value"
                let needle = format!("{}=\"", &*a.name.local);
                let mut from = pos;
                let found = loop {
                    match start[from..].find(&needle) {
                        None => break None,
                        Some(i) => {
                            let at = from + i;
                            if at > 0 && matches!(start.as_bytes()[at - 1], b' ' | b':') {
                                break Some(at - pos);
                            }
                            from = at + 1;
                            while !start.is_char_boundary(from) {
                                from += 1;
                            }
                        },
                    }
                };
                let Some(i) = found else {
                    return Err(format!("attribute {:?} not found in start tag {start:?}", &*a.name.local));
                };
                let vs = pos + i + needle.len();
                let Some(j) = start[vs..].find('"') else {
                    return Err(format!("attribute value of {:?} not terminated in {start:?}", &*a.name.local));
                };
                let run = &start[vs..vs + j];
                let back = unescape(run, true)?;
                if back != &*a.value {
                    return Err(format!("attribute value {:?} was written as {run:?}, which decodes to {back:?}", &*a.value));
                }
                pos = vs + j + 1;
            }
            // text-only elements: raw iff HTML raw-text element
            let kids = n.children.borrow();
            if kids.len() == 1 {
                if let NodeData::Text { contents } = &kids[0].data {
                    let t = contents.borrow().to_string();
                    let raw = is_html && (RAW_TEXT.contains(&&*name.local) || (&*name.local == "noscript" && scripting));
                    if raw {
                        st.label("text under an HTML raw-text element");
                        if inner != t {
                            return Err(format!("text under HTML <{}> must be written verbatim: {t:?} became {inner:?}", &*name.local));
                        }
                    } else {
                        if !is_html && (RAW_TEXT.contains(&&*name.local) || &*name.local == "title") {
                            st.label("text under a foreign element with a raw-text name");
                        }
                        let back = unescape(&inner, false)?;
                        if back != t {
                            return Err(format!(
                                "text {t:?} under <{}> (namespace {:?}) was written as {inner:?}, which decodes to {back:?}",
                                &*name.local,
                                &*name.ns
                            ));
                        }
                    }
                }
            }
        }
    }
    Ok(())
}

pub fn check(case: &Case, st: &mut Stats) -> Result<(), String> {
    st.eval();
    match case {
        Case::Built { kids } => {
            let dom = RcDom::default();
            let root = dom.create_element(html_name("div"), vec![], ElementFlags::default());
            build(&dom, &root, kids);
            let s = ser(&root, TraversalScope::ChildrenOnly(None), true)?;
            // re-parse as a fragment with a div context
            let cfg = TreeCfg {
                ctx: Some(crate::sinks::drive::CtxElem { ns: "html".into(), local: "div".into(), attrs: vec![] }),
                ..TreeCfg::default()
            };
            let (dom2, _, _) = drive(RcDom::default(), &cfg, &[s.clone()], |_, _, _, _| {});
            let html = dom2.document.children.borrow().iter().next().cloned().ok_or("fragment has no root")?;
            let (a, b) = (children_dump(&root), children_dump(&html));
            if a != b {
                return Err(format!(
                    "serialize + parse_fragment does not reproduce the tree: {}\n serialized: {s:?}",
                    first_diff(&a, &b)
                ));
            }
            inner_outer(&root, st)?;
            let all = serde_json::to_string(kids).unwrap_or_default();
            let esc = all.contains('&') || all.contains('<') || all.contains('>') || all.contains('"') || all.contains('\u{A0}');
            let c2 = s.as_bytes().contains(&0xC2);
            if esc {
                st.label("built tree: string needs escaping");
            }
            if c2 {
                st.label("built tree: byte 0xC2 present");
            }
            if esc || c2 {
                st.nontrivial(hash64(&s), || serde_json::to_value(case).unwrap());
            }
        },
        Case::BuiltAny { kids } => {
            let dom = RcDom::default();
            let root = dom.create_element(html_name("div"), vec![], ElementFlags::default());
            build(&dom, &root, kids);
            inner_outer(&root, st)?;
            let s = ser(&root, TraversalScope::ChildrenOnly(None), true)?;
            st.label("built tree over any vocabulary: inner/outer");
            st.nontrivial(hash64(&s), || serde_json::to_value(case).unwrap());
        },
        Case::ParsedNoScript { input } => {
            let mut opts = html5ever::ParseOpts::default();
            opts.tree_builder.scripting_enabled = false;
            let dom = html5ever::parse_document(RcDom::default(), opts).one(StrTendril::from(input.as_str()));
            inner_outer(&dom.document, st)?;
            let s = ser(&dom.document, TraversalScope::ChildrenOnly(None), false)?;
            st.label("parsed tree (scripting off): inner/outer on every element");
            st.nontrivial(hash64(&s), || serde_json::to_value(case).unwrap());
        },
        Case::Parsed { input } => {
            let dom = html5ever::parse_document(RcDom::default(), Default::default()).one(StrTendril::from(input.as_str()));
            inner_outer(&dom.document, st)?;
            let s = ser(&dom.document, TraversalScope::ChildrenOnly(None), true)?;
            st.label("parsed tree: inner/outer on every element");
            st.nontrivial(hash64(&s), || serde_json::to_value(case).unwrap());
        },
    }
    Ok(())
}

pub fn run(ctx: &Ctx) -> Report {
    let mut rep = Report::new(
        "(a) Constructed trees: RcDom trees built directly (so arbitrary strings survive un-normalised) over the ordinary vocabulary (div span section article aside header footer main nav ul ol dl figure figcaption blockquote details summary fieldset label output abbr cite q sub sup var time data mark kbd samp dfn bdi bdo ins del template - with its children in the template contents - and custom names; no void, raw-text, RCDATA, implied-end-tag, formatting, table, select, heading, pre/listing/textarea elements), attribute names from a safe pool, attribute values and text arbitrary Unicode minus CR and NUL (biased to & < > \" ' U+00A0, every 2-byte character with lead byte 0xC2/0xC3, lone & before entity names, </ <!-- ]]>, attribute-breaking snippets), text non-empty and never adjacent to text: serialize(ChildrenOnly(None)) then parse_fragment(context div, discard_bom=false) must reproduce the tree exactly. (b) Inner/outer on every element of those trees and of trees parsed from grammar-generated HTML (raw-text elements, foreign style/script/title, templates, noscript), for scripting_enabled in {true,false}: serialize(IncludeNode) must equal start-tag + serialize(ChildrenOnly(Some(name))) + end-tag for every non-void element; every attribute value and every text-only element's text must decode back to the original by inverting the five entities (&amp; &lt; &gt; &quot; &nbsp;) with no raw \"/</& left in the run, and text must be verbatim iff the parent is an HTML-namespace raw-text element (noscript only with scripting). (c) the same inner/outer and decode clauses on trees parsed with the scripting flag off (noscript has element children) and on constructed trees over ANY vocabulary - raw-text elements, foreign elements and templates nested in each other in ways no parser run produces - and the round trip on elements with up to 400 children. Non-trivial: a built tree with a string that needs escaping or a 0xC2 byte, or any parsed tree; distinct by serialization hash.",
    );
    rep.assume("'arbitrary attribute values and arbitrary text free of CR and NUL' is read as: both are free of CR and NUL (the HTML syntax cannot represent a CR in an attribute value: the input stream normalises it)");
    rep.assume("void elements are exempt from inner==outer (they have no end tag)");
    report_known(ctx, &mut rep, &|v| replay(&ctx.strict_clone(), v));
    run_regressions(ctx, &mut rep, &|v| replay(&ctx.strict_clone(), v));
    let out = run_random(ctx.seed, ctx.tier.pick(1_500_000, 20_000_000), 1500, decode, check);
    rep.absorb(out);
    for l in [
        "built tree: string needs escaping",
        "built tree: byte 0xC2 present",
        "text under an HTML raw-text element",
        "text under a foreign element with a raw-text name",
        "parsed tree: inner/outer on every element",
    ] {
        rep.need(l, 200);
    }
    rep
}

pub fn replay(_ctx: &Ctx, v: &Value) -> Result<(), String> {
    let case: Case = serde_json::from_value(v.clone()).map_err(|e| format!("bad case: {e}"))?;
    let mut st = Stats::default();
    check(&case, &mut st)
}
