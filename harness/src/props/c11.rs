//! C11 — Tendrils behave as independent owned strings under every operation.
//!
//! Model-based stateful test.  One case = (format, atomicity, history of
//! operations) over a pool of `SLOTS` optional tendrils.  The model is one
//! independent `Vec<u8>` per slot; after EVERY operation every live tendril is
//! compared with its model (bytes and `len32`), which is the non-interference
//! oracle: mutating one tendril never changes another one that happens to
//! share its buffer.  Checked operations must answer `Err` exactly when the
//! model says "out of bounds" / "would break the format", the panicking
//! variants must panic exactly then.
//!
//! The interpreter (`interpret`) is reused by C12, which runs the same
//! histories under the instrumented allocator.

use crate::engine::alloc as mon;
use crate::engine::*;
use serde::{Deserialize, Serialize};
use serde_json::Value;
use tendril::fmt as tf;
use tendril::{Atomic, Atomicity, NonAtomic, SendTendril, SubtendrilError, Tendril};

pub const SLOTS: usize = 6;
pub const MAX_PARKED: usize = 4;

#[derive(Serialize, Deserialize, Clone, Copy, Debug, Hash, PartialEq, Eq)]
pub enum Fmt {
    Bytes,
    Utf8,
    Ascii,
    Latin1,
    Wtf8,
}

#[derive(Serialize, Deserialize, Clone, Debug, Hash, PartialEq, Eq)]
pub enum Op {
    /// slot := Tendril::new()
    New(usize),
    /// slot := Tendril::with_capacity(cap)
    WithCapacity(usize, u32),
    /// slot := from_slice(valid content) (try_from_byte_slice().unwrap() for formats without a slice type)
    FromSlice(usize, Vec<u8>),
    /// slot := try_from_byte_slice(arbitrary bytes)
    TryFromBytes(usize, Vec<u8>),
    /// push_slice(valid content) (try_push_bytes().unwrap() for formats without a slice type)
    PushSlice(usize, Vec<u8>),
    /// try_push_bytes(arbitrary bytes)
    TryPushBytes(usize, Vec<u8>),
    /// UTF8: push_char or try_push_char (flag); ASCII/Latin1: try_push_char
    PushChar(usize, u32, bool),
    /// dst.push_tendril(&src); dst == src pushes a clone of itself
    PushTendril(usize, usize),
    /// dst := src.subtendril(off, len) / try_subtendril
    Sub { dst: usize, src: usize, off: u32, len: u32, checked: bool },
    PopFront(usize, u32, bool),
    PopBack(usize, u32, bool),
    PopFrontChar(usize),
    /// dst := run popped from the front of src with classifier `cls`
    PopFrontCharRun { dst: usize, src: usize, cls: u8 },
    Clone(usize, usize),
    Clear(usize),
    Reserve(usize, u32),
    /// format conversions that must leave the content unchanged (see `reinterpret`)
    Reinterpret(usize, u8),
    /// into_send() then From<SendTendril>; flag: carry it through another thread
    Send(usize, bool),
    /// move the tendril into a parked SendTendril
    SendPark(usize),
    /// slot := Tendril::from(last parked SendTendril); flag: unpark on another thread and send back
    SendUnpark(usize, bool),
    /// DerefMut write. Bytes: t[idx] = byte (fill: t[idx..].fill(byte)); UTF8: make_ascii_uppercase
    Write(usize, u32, u8, bool),
    /// Bytes only
    ExtendWithByte(usize, u32, u8),
    /// Extend impls; kind selects the item type
    Extend(usize, Vec<u8>, u8),
    /// slot := FromIterator / format / From<String>
    FromIter(usize, Vec<u8>, u8),
    /// Bytes: io::Write; UTF8: fmt::Write
    IoWrite(usize, Vec<u8>, bool),
    /// ReadExt::read_to_tendril from a scripted reader (Bytes format): `data` in pieces, some
    /// reads first fail with Interrupted, the stream ends with EOF or with a hard error
    ReadFrom(usize, Vec<u8>, u8),
    /// dst.extend(srcs.iter()) : Extend<&Tendril>
    ExtendTendrils(usize, Vec<usize>),
    Drop(usize),
    Swap(usize, usize),
}

#[derive(Serialize, Deserialize, Clone, Debug, Hash)]
pub struct Case {
    pub fmt: Fmt,
    pub atomic: bool,
    pub ops: Vec<Op>,
}

/// What one operation answered.
#[derive(Clone, Debug, PartialEq, Eq)]
pub enum Out {
    Done,
    /// operation not applicable (dead slot, format without that API): not executed
    Skipped,
    ErrOob,
    ErrInvalid,
    ErrUnit,
    Panic,
    Char(Option<char>),
    Run(Option<u8>),
}

// ---------------------------------------------------------------------------
// Independent format model

fn wtf8_decode(b: &[u8]) -> Option<Vec<u32>> {
    // generalized UTF-8: like UTF-8 but U+D800..U+DFFF are allowed, except a
    // lead surrogate immediately followed by a trail surrogate.
    let mut out = Vec::new();
    let mut i = 0;
    while i < b.len() {
        let x = b[i];
        let (n, min, init) = if x < 0x80 {
            (1, 0, x as u32)
        } else if (0xC0..0xE0).contains(&x) {
            (2, 0x80, (x & 0x1F) as u32)
        } else if (0xE0..0xF0).contains(&x) {
            (3, 0x800, (x & 0x0F) as u32)
        } else if (0xF0..0xF8).contains(&x) {
            (4, 0x10000, (x & 0x07) as u32)
        } else {
            return None;
        };
        if i + n > b.len() {
            return None;
        }
        let mut cp = init;
        for k in 1..n {
            let c = b[i + k];
            if c & 0xC0 != 0x80 {
                return None;
            }
            cp = (cp << 6) | (c & 0x3F) as u32;
        }
        if cp < min || cp > 0x10FFFF {
            return None;
        }
        if let Some(&p) = out.last() {
            if (0xD800..0xDC00).contains(&p) && (0xDC00..0xE000).contains(&cp) {
                return None;
            }
        }
        out.push(cp);
        i += n;
    }
    Some(out)
}

fn cp_encode(cp: u32, out: &mut Vec<u8>) {
    if cp < 0x80 {
        out.push(cp as u8);
    } else if cp < 0x800 {
        out.push(0xC0 | (cp >> 6) as u8);
        out.push(0x80 | (cp & 0x3F) as u8);
    } else if cp < 0x10000 {
        out.push(0xE0 | (cp >> 12) as u8);
        out.push(0x80 | ((cp >> 6) & 0x3F) as u8);
        out.push(0x80 | (cp & 0x3F) as u8);
    } else {
        out.push(0xF0 | (cp >> 18) as u8);
        out.push(0x80 | ((cp >> 12) & 0x3F) as u8);
        out.push(0x80 | ((cp >> 6) & 0x3F) as u8);
        out.push(0x80 | (cp & 0x3F) as u8);
    }
}

pub fn validate(f: Fmt, b: &[u8]) -> bool {
    match f {
        Fmt::Bytes | Fmt::Latin1 => true,
        Fmt::Ascii => b.iter().all(|&x| x < 0x80),
        Fmt::Utf8 => std::str::from_utf8(b).is_ok(),
        Fmt::Wtf8 => wtf8_decode(b).is_some(),
    }
}

/// Model of concatenation.  Returns true when a surrogate pair was joined.
fn concat(f: Fmt, a: &mut Vec<u8>, b: &[u8]) -> bool {
    if f == Fmt::Wtf8 {
        // code-unit view: a lead surrogate at the end of `a` followed by a
        // trail surrogate at the start of `b` is one supplementary character
        let ca = wtf8_decode(a).expect("model wtf8 lhs");
        let cb = wtf8_decode_lenient_first(b);
        if let (Some(&hi), Some(lo)) = (ca.last(), cb) {
            if (0xD800..0xDC00).contains(&hi) && (0xDC00..0xE000).contains(&lo) {
                let cp = 0x10000 + ((hi - 0xD800) << 10) + (lo - 0xDC00);
                a.truncate(a.len() - 3);
                cp_encode(cp, a);
                a.extend_from_slice(&b[3..]);
                return true;
            }
        }
    }
    a.extend_from_slice(b);
    false
}

/// first code point of a valid WTF-8 string
fn wtf8_decode_lenient_first(b: &[u8]) -> Option<u32> {
    let n = match *b.first()? {
        x if x < 0x80 => 1,
        x if x < 0xE0 => 2,
        x if x < 0xF0 => 3,
        _ => 4,
    };
    wtf8_decode(b.get(..n)?).and_then(|v| v.first().copied())
}

pub fn is_char_fmt(f: Fmt) -> bool {
    matches!(f, Fmt::Utf8 | Fmt::Ascii | Fmt::Latin1)
}

/// characters with their byte offsets, per the format's documented meaning
fn chars_of(f: Fmt, b: &[u8]) -> Vec<(usize, char)> {
    match f {
        Fmt::Utf8 => std::str::from_utf8(b).expect("model utf8").char_indices().collect(),
        _ => b.iter().enumerate().map(|(i, &x)| (i, x as char)).collect(),
    }
}

pub fn classify(cls: u8, c: char) -> u8 {
    match cls % 4 {
        0 => c.is_ascii_alphabetic() as u8,
        1 => ((c as u32) & 1) as u8,
        2 => (c as u32 >= 0x80) as u8,
        _ => c.is_whitespace() as u8,
    }
}

#[derive(Clone, Debug)]
pub struct Model {
    pub f: Fmt,
    pub slots: Vec<Option<Vec<u8>>>,
    pub parked: Vec<Vec<u8>>,
    pub joins: u32,
}

impl Model {
    pub fn new(f: Fmt) -> Model {
        Model {
            f,
            slots: vec![None; SLOTS],
            parked: vec![],
            joins: 0,
        }
    }
    fn live(&self, i: usize) -> bool {
        i < SLOTS && self.slots[i].is_some()
    }
    pub fn len(&self, i: usize) -> usize {
        self.slots[i].as_ref().map(|v| v.len()).unwrap_or(0)
    }
    fn push(&mut self, i: usize, b: &[u8]) {
        let f = self.f;
        let mut v = self.slots[i].take().unwrap();
        if concat(f, &mut v, b) {
            self.joins += 1;
        }
        self.slots[i] = Some(v);
    }

    /// Apply `op` to the model; the answer is what the tendril must answer.
    pub fn apply(&mut self, op: &Op) -> Out {
        let f = self.f;
        let fail = |checked: bool, e: Out| if checked { e } else { Out::Panic };
        match op {
            Op::New(i) | Op::WithCapacity(i, _) => {
                if *i >= SLOTS {
                    return Out::Skipped;
                }
                self.slots[*i] = Some(vec![]);
                Out::Done
            },
            Op::FromSlice(i, b) => {
                if *i >= SLOTS || !validate(f, b) {
                    return Out::Skipped;
                }
                self.slots[*i] = Some(b.clone());
                Out::Done
            },
            Op::TryFromBytes(i, b) => {
                if *i >= SLOTS {
                    return Out::Skipped;
                }
                if !validate(f, b) {
                    return Out::ErrUnit;
                }
                self.slots[*i] = Some(b.clone());
                Out::Done
            },
            Op::PushSlice(i, b) => {
                if !self.live(*i) || !validate(f, b) {
                    return Out::Skipped;
                }
                self.push(*i, b);
                Out::Done
            },
            Op::TryPushBytes(i, b) => {
                if !self.live(*i) {
                    return Out::Skipped;
                }
                if !validate(f, b) {
                    return Out::ErrUnit;
                }
                self.push(*i, b);
                Out::Done
            },
            Op::PushChar(i, c, _) => {
                if !self.live(*i) {
                    return Out::Skipped;
                }
                let Some(ch) = char::from_u32(*c) else {
                    return Out::Skipped;
                };
                match f {
                    Fmt::Utf8 => {
                        let mut buf = [0u8; 4];
                        let s = ch.encode_utf8(&mut buf);
                        self.push(*i, s.as_bytes());
                        Out::Done
                    },
                    Fmt::Ascii | Fmt::Latin1 => {
                        let lim = if f == Fmt::Ascii { 0x7F } else { 0xFF };
                        if *c > lim {
                            return Out::ErrUnit;
                        }
                        self.push(*i, &[*c as u8]);
                        Out::Done
                    },
                    _ => Out::Skipped,
                }
            },
            Op::PushTendril(d, s) => {
                if !self.live(*d) || !self.live(*s) {
                    return Out::Skipped;
                }
                let b = self.slots[*s].clone().unwrap();
                self.push(*d, &b);
                Out::Done
            },
            Op::Sub { dst, src, off, len, checked } => {
                if *dst >= SLOTS || !self.live(*src) {
                    return Out::Skipped;
                }
                let v = self.slots[*src].as_ref().unwrap();
                let (off, len) = (*off as usize, *len as usize);
                if off > v.len() || len > v.len() - off {
                    return fail(*checked, Out::ErrOob);
                }
                let piece = v[off..off + len].to_vec();
                if !validate(f, &piece) {
                    return fail(*checked, Out::ErrInvalid);
                }
                self.slots[*dst] = Some(piece);
                Out::Done
            },
            Op::PopFront(i, n, checked) => {
                if !self.live(*i) {
                    return Out::Skipped;
                }
                let v = self.slots[*i].as_mut().unwrap();
                let n = *n as usize;
                if n == 0 {
                    return Out::Done;
                }
                if n > v.len() {
                    return fail(*checked, Out::ErrOob);
                }
                if !validate(f, &v[n..]) {
                    return fail(*checked, Out::ErrInvalid);
                }
                v.drain(..n);
                Out::Done
            },
            Op::PopBack(i, n, checked) => {
                if !self.live(*i) {
                    return Out::Skipped;
                }
                let v = self.slots[*i].as_mut().unwrap();
                let n = *n as usize;
                if n == 0 {
                    return Out::Done;
                }
                if n > v.len() {
                    return fail(*checked, Out::ErrOob);
                }
                if !validate(f, &v[..v.len() - n]) {
                    return fail(*checked, Out::ErrInvalid);
                }
                let keep = v.len() - n;
                v.truncate(keep);
                Out::Done
            },
            Op::PopFrontChar(i) => {
                if !self.live(*i) || !is_char_fmt(f) {
                    return Out::Skipped;
                }
                let v = self.slots[*i].as_mut().unwrap();
                let cs = chars_of(f, v);
                match cs.first() {
                    None => Out::Char(None),
                    Some(&(_, c)) => {
                        let n = cs.get(1).map(|x| x.0).unwrap_or(v.len());
                        v.drain(..n);
                        Out::Char(Some(c))
                    },
                }
            },
            Op::PopFrontCharRun { dst, src, cls } => {
                if *dst >= SLOTS || dst == src || !self.live(*src) || !is_char_fmt(f) {
                    return Out::Skipped;
                }
                let v = self.slots[*src].as_mut().unwrap();
                let cs = chars_of(f, v);
                let Some(&(_, first)) = cs.first() else {
                    return Out::Run(None);
                };
                let class = classify(*cls, first);
                let n = cs
                    .iter()
                    .find(|&&(_, c)| classify(*cls, c) != class)
                    .map(|x| x.0)
                    .unwrap_or(v.len());
                let run: Vec<u8> = v.drain(..n).collect();
                self.slots[*dst] = Some(run);
                Out::Run(Some(class))
            },
            Op::Clone(d, s) => {
                if *d >= SLOTS || !self.live(*s) {
                    return Out::Skipped;
                }
                self.slots[*d] = self.slots[*s].clone();
                Out::Done
            },
            Op::Clear(i) => {
                if !self.live(*i) {
                    return Out::Skipped;
                }
                self.slots[*i].as_mut().unwrap().clear();
                Out::Done
            },
            Op::Reserve(i, _) | Op::Reinterpret(i, _) | Op::Send(i, _) => {
                if !self.live(*i) {
                    return Out::Skipped;
                }
                Out::Done
            },
            Op::SendPark(i) => {
                if !self.live(*i) || self.parked.len() >= MAX_PARKED {
                    return Out::Skipped;
                }
                let v = self.slots[*i].take().unwrap();
                self.parked.push(v);
                Out::Done
            },
            Op::SendUnpark(i, _) => {
                if *i >= SLOTS || self.parked.is_empty() {
                    return Out::Skipped;
                }
                self.slots[*i] = self.parked.pop();
                Out::Done
            },
            Op::Write(i, idx, byte, fill) => {
                if !self.live(*i) {
                    return Out::Skipped;
                }
                let v = self.slots[*i].as_mut().unwrap();
                match f {
                    Fmt::Bytes => {
                        let idx = *idx as usize;
                        if idx >= v.len() {
                            return Out::Skipped;
                        }
                        if *fill {
                            v[idx..].fill(*byte);
                        } else {
                            v[idx] = *byte;
                        }
                        Out::Done
                    },
                    Fmt::Utf8 => {
                        v.make_ascii_uppercase();
                        Out::Done
                    },
                    _ => Out::Skipped,
                }
            },
            Op::ExtendWithByte(i, n, b) => {
                if !self.live(*i) || f != Fmt::Bytes {
                    return Out::Skipped;
                }
                let v = self.slots[*i].as_mut().unwrap();
                v.extend(std::iter::repeat(*b).take(*n as usize));
                Out::Done
            },
            Op::Extend(i, data, _) | Op::IoWrite(i, data, _) => {
                if !self.live(*i) || !matches!(f, Fmt::Bytes | Fmt::Utf8) || !validate(f, data) {
                    return Out::Skipped;
                }
                self.push(*i, data);
                Out::Done
            },
            Op::ReadFrom(i, data, _) => {
                // like Read::read_to_end: everything delivered before EOF / the error is appended
                if !self.live(*i) || f != Fmt::Bytes {
                    return Out::Skipped;
                }
                self.push(*i, data);
                Out::Done
            },
            Op::FromIter(i, data, _) => {
                if *i >= SLOTS || !matches!(f, Fmt::Bytes | Fmt::Utf8) || !validate(f, data) {
                    return Out::Skipped;
                }
                self.slots[*i] = Some(data.clone());
                Out::Done
            },
            Op::ExtendTendrils(d, srcs) => {
                if !self.live(*d) || srcs.iter().any(|s| s == d || !self.live(*s)) {
                    return Out::Skipped;
                }
                for s in srcs {
                    let b = self.slots[*s].clone().unwrap();
                    self.push(*d, &b);
                }
                Out::Done
            },
            Op::Drop(i) => {
                if *i >= SLOTS {
                    return Out::Skipped;
                }
                self.slots[*i] = None;
                Out::Done
            },
            Op::Swap(a, b) => {
                if *a >= SLOTS || *b >= SLOTS {
                    return Out::Skipped;
                }
                self.slots.swap(*a, *b);
                Out::Done
            },
        }
    }
}

/// The slot an operation mutates in place (for the shared-mutation and
/// inline/heap transition statistics); None for pure constructors etc.
fn mutated_slot(op: &Op) -> Option<usize> {
    match op {
        Op::PushSlice(i, _)
        | Op::TryPushBytes(i, _)
        | Op::PushChar(i, _, _)
        | Op::PushTendril(i, _)
        | Op::PopFront(i, _, _)
        | Op::PopBack(i, _, _)
        | Op::PopFrontChar(i)
        | Op::Clear(i)
        | Op::Write(i, _, _, _)
        | Op::ExtendWithByte(i, _, _)
        | Op::Extend(i, _, _)
        | Op::IoWrite(i, _, _)
        | Op::ReadFrom(i, _, _)
        | Op::ExtendTendrils(i, _)
        | Op::Reserve(i, _)
        | Op::Send(i, _) => Some(*i),
        Op::PopFrontCharRun { src, .. } => Some(*src),
        _ => None,
    }
}

/// The slot whose previous tendril is dropped / overwritten by the operation.
fn overwritten_slot(op: &Op) -> Option<usize> {
    match op {
        Op::New(i)
        | Op::WithCapacity(i, _)
        | Op::FromSlice(i, _)
        | Op::TryFromBytes(i, _)
        | Op::FromIter(i, _, _)
        | Op::Drop(i)
        | Op::SendUnpark(i, _) => Some(*i),
        Op::Sub { dst, .. } | Op::PopFrontCharRun { dst, .. } => Some(*dst),
        Op::Clone(d, _) => Some(*d),
        _ => None,
    }
}

// ---------------------------------------------------------------------------
// The real side: generic over format and atomicity

pub trait At: Atomicity + Sized + 'static {
    const ATOMIC: bool;
}
impl At for NonAtomic {
    const ATOMIC: bool = false;
}
impl At for Atomic {
    const ATOMIC: bool = true;
}

pub fn bytes_of<F: tf::Format, A: Atomicity>(t: &Tendril<F, A>) -> &[u8] {
    t.as_bytes()
}

fn show(b: &[u8]) -> String {
    if b.len() > 96 {
        format!("[{} bytes] b\"{}…\"", b.len(), b[..96].escape_ascii())
    } else {
        format!("b\"{}\"", b.escape_ascii())
    }
}

fn same(what: &str, got: &[u8], model: &[u8]) -> Result<(), String> {
    if got != model {
        return Err(format!("{what}: got {}, model {}", show(got), show(model)));
    }
    Ok(())
}

/// Format-specific API surface.  Defaults = "this format has no such API".
pub trait Fm: tf::Format + Sized + 'static {
    const K: Fmt;
    fn from_valid<A: At>(b: &[u8]) -> Tendril<Self, A>;
    fn push_valid<A: At>(t: &mut Tendril<Self, A>, b: &[u8]);
    fn push_char<A: At>(_t: &mut Tendril<Self, A>, _c: char, _checked: bool) -> Out {
        Out::Skipped
    }
    fn pop_front_char<A: At>(_t: &mut Tendril<Self, A>) -> Out {
        Out::Skipped
    }
    fn pop_front_char_run<A: At>(_t: &mut Tendril<Self, A>, _cls: u8) -> Option<(Tendril<Self, A>, u8)> {
        None
    }
    fn write<A: At>(_t: &mut Tendril<Self, A>, _idx: usize, _byte: u8, _fill: bool) {}
    fn extend_with_byte<A: At>(_t: &mut Tendril<Self, A>, _n: u32, _b: u8) {}
    fn extend<A: At>(_t: &mut Tendril<Self, A>, _data: &[u8], _kind: u8) {}
    fn from_iter<A: At>(data: &[u8], _kind: u8) -> Tendril<Self, A> {
        Self::from_valid(data)
    }
    fn io_write<A: At>(_t: &mut Tendril<Self, A>, _data: &[u8], _flag: bool) {}
    /// comparisons with / views as str, where the format has them
    fn str_views<A: At>(_t: &Tendril<Self, A>, _model: &[u8]) -> Result<(), String> {
        Ok(())
    }
    fn read_from<A: At>(_t: &mut Tendril<Self, A>, _data: &[u8], _mode: u8) -> Result<(), String> {
        Ok(())
    }
    /// as_superset / into_superset / try_as_subset / try_into_subset where they exist
    fn subset_roundtrip<A: At>(t: Tendril<Self, A>, _model: &[u8]) -> Result<Tendril<Self, A>, String> {
        Ok(t)
    }
}

fn single_byte_char<F, A>(t: &mut Tendril<F, A>, c: char) -> Out
where
    F: Fm + for<'a> tf::CharFormat<'a>,
    A: At,
{
    match t.try_push_char(c) {
        Ok(()) => Out::Done,
        Err(()) => Out::ErrUnit,
    }
}

fn char_run<F, A>(t: &mut Tendril<F, A>, cls: u8) -> Option<(Tendril<F, A>, u8)>
where
    F: Fm + for<'a> tf::CharFormat<'a>,
    A: At,
{
    t.pop_front_char_run(|c| classify(cls, c))
}

impl Fm for tf::Bytes {
    const K: Fmt = Fmt::Bytes;
    fn from_valid<A: At>(b: &[u8]) -> Tendril<Self, A> {
        if b.len() & 1 == 0 {
            Tendril::from_slice(b)
        } else {
            Tendril::from(b)
        }
    }
    fn push_valid<A: At>(t: &mut Tendril<Self, A>, b: &[u8]) {
        t.push_slice(b)
    }
    fn write<A: At>(t: &mut Tendril<Self, A>, idx: usize, byte: u8, fill: bool) {
        if fill {
            t[idx..].fill(byte);
        } else {
            t[idx] = byte;
        }
    }
    fn extend_with_byte<A: At>(t: &mut Tendril<Self, A>, n: u32, b: u8) {
        t.extend_with_byte(n, b)
    }
    fn extend<A: At>(t: &mut Tendril<Self, A>, data: &[u8], kind: u8) {
        match kind % 6 {
            0 => t.extend(data.iter().copied()),
            1 => t.extend(data.iter()),
            2 => t.extend(data.chunks(3)),
            // iterators whose size_hint is wrong (safe code may do that; it must never turn into
            // a memory error, and every yielded byte is appended): too small, fixed, too large
            k => t.extend(Lying { it: data.iter().copied(), mode: k, left: data.len() }),
        }
    }
    fn from_iter<A: At>(data: &[u8], kind: u8) -> Tendril<Self, A> {
        match kind % 6 {
            0 => data.iter().copied().collect(),
            1 => data.iter().collect(),
            2 => data.chunks(5).collect(),
            k => Lying { it: data.iter().copied(), mode: k, left: data.len() }.collect(),
        }
    }
    fn read_from<A: At>(t: &mut Tendril<Self, A>, data: &[u8], mode: u8) -> Result<(), String> {
        use tendril::ReadExt;
        struct Scripted<'a> {
            data: &'a [u8],
            step: usize,
            calls: u32,
            interrupts: bool,
            hard_error: bool,
        }
        impl std::io::Read for Scripted<'_> {
            fn read(&mut self, buf: &mut [u8]) -> std::io::Result<usize> {
                self.calls += 1;
                if self.interrupts && self.calls % 3 == 1 {
                    return Err(std::io::Error::new(std::io::ErrorKind::Interrupted, "EINTR"));
                }
                if self.data.is_empty() {
                    if self.hard_error {
                        return Err(std::io::Error::new(std::io::ErrorKind::ConnectionReset, "reset"));
                    }
                    return Ok(0);
                }
                let n = self.step.min(self.data.len()).min(buf.len());
                buf[..n].copy_from_slice(&self.data[..n]);
                self.data = &self.data[n..];
                Ok(n)
            }
        }
        let step = [1usize, 2, 7, 31, 32, 33, 4096, usize::MAX][(mode & 7) as usize];
        let hard_error = mode & 16 != 0;
        let mut r = Scripted { data, step, calls: 0, interrupts: mode & 8 != 0, hard_error };
        match r.read_to_tendril(t) {
            Ok(n) if !hard_error && n == data.len() => Ok(()),
            Ok(n) => Err(format!("read_to_tendril returned Ok({n}); the reader delivered {} bytes and ended with {}", data.len(), if hard_error { "an error" } else { "EOF" })),
            Err(_) if hard_error => Ok(()),
            Err(e) => Err(format!("read_to_tendril returned Err({e}) although the reader ended with EOF")),
        }
    }
    fn io_write<A: At>(t: &mut Tendril<Self, A>, data: &[u8], flag: bool) {
        use std::io::Write;
        if flag {
            t.write_all(data).unwrap();
        } else {
            let n = t.write(data).unwrap();
            assert_eq!(n, data.len());
            t.flush().unwrap();
        }
    }
}

/// An iterator over bytes that misreports its length.
struct Lying<I> {
    it: I,
    mode: u8,
    left: usize,
}
impl<I: Iterator<Item = u8>> Iterator for Lying<I> {
    type Item = u8;
    fn next(&mut self) -> Option<u8> {
        self.left = self.left.saturating_sub(1);
        self.it.next()
    }
    fn size_hint(&self) -> (usize, Option<usize>) {
        match self.mode {
            3 => (self.left.saturating_sub(1), Some(self.left.saturating_sub(1))), // one too few, "exact"
            4 => (4, Some(4)),                                                   // fixed
            _ => (self.left + 7, Some(self.left + 7)),                           // too many
        }
    }
}

fn str_chunks(s: &str, n: usize) -> Vec<&str> {
    let mut out = vec![];
    let mut start = 0;
    let mut count = 0;
    for (i, _) in s.char_indices() {
        if count == n {
            out.push(&s[start..i]);
            start = i;
            count = 0;
        }
        count += 1;
    }
    out.push(&s[start..]);
    out
}

impl Fm for tf::UTF8 {
    const K: Fmt = Fmt::Utf8;
    fn str_views<A: At>(t: &Tendril<Self, A>, model: &[u8]) -> Result<(), String> {
        let s = std::str::from_utf8(model).map_err(|_| "HARNESS BUG: model is not UTF-8".to_string())?;
        if !(*t == *s) {
            return Err(format!("PartialEq<str>: tendril != {s:?}, which is its model"));
        }
        let other = format!("{s}x");
        if *t == *other.as_str() {
            return Err(format!("PartialEq<str>: tendril == {other:?}, its model is {s:?}"));
        }
        if t.to_string() != s {
            return Err(format!("Display writes {:?}, the model is {s:?}", t.to_string()));
        }
        let r: &str = t.as_ref();
        if r != s {
            return Err(format!("AsRef<str> gives {r:?}, the model is {s:?}"));
        }
        Ok(())
    }
    fn from_valid<A: At>(b: &[u8]) -> Tendril<Self, A> {
        let s = std::str::from_utf8(b).expect("harness: valid utf8");
        match b.len() % 3 {
            0 => Tendril::from_slice(s),
            1 => Tendril::from(s),
            _ => s.parse().unwrap(),
        }
    }
    fn push_valid<A: At>(t: &mut Tendril<Self, A>, b: &[u8]) {
        t.push_slice(std::str::from_utf8(b).expect("harness: valid utf8"))
    }
    fn push_char<A: At>(t: &mut Tendril<Self, A>, c: char, checked: bool) -> Out {
        if checked {
            match t.try_push_char(c) {
                Ok(()) => Out::Done,
                Err(()) => Out::ErrUnit,
            }
        } else {
            t.push_char(c);
            Out::Done
        }
    }
    fn pop_front_char<A: At>(t: &mut Tendril<Self, A>) -> Out {
        Out::Char(t.pop_front_char())
    }
    fn pop_front_char_run<A: At>(t: &mut Tendril<Self, A>, cls: u8) -> Option<(Tendril<Self, A>, u8)> {
        char_run(t, cls)
    }
    fn write<A: At>(t: &mut Tendril<Self, A>, _idx: usize, _byte: u8, _fill: bool) {
        let s: &mut str = &mut *t;
        s.make_ascii_uppercase();
    }
    fn extend<A: At>(t: &mut Tendril<Self, A>, data: &[u8], kind: u8) {
        let s = std::str::from_utf8(data).expect("harness: valid utf8");
        match kind % 2 {
            0 => t.extend(s.chars()),
            _ => t.extend(str_chunks(s, 2)),
        }
    }
    fn from_iter<A: At>(data: &[u8], kind: u8) -> Tendril<Self, A> {
        let s = std::str::from_utf8(data).expect("harness: valid utf8");
        match kind % 5 {
            0 => s.chars().collect(),
            1 => str_chunks(s, 3).into_iter().collect(),
            2 => Tendril::format(format_args!("{}", s)),
            3 => Tendril::from(s.to_string()),
            _ => {
                let mut cs = s.chars();
                match (cs.next(), cs.next()) {
                    (Some(c), None) => Tendril::from_char(c),
                    _ => Tendril::from_slice(s),
                }
            },
        }
    }
    fn io_write<A: At>(t: &mut Tendril<Self, A>, data: &[u8], flag: bool) {
        use std::fmt::Write;
        let s = std::str::from_utf8(data).expect("harness: valid utf8");
        if flag {
            t.write_str(s).unwrap();
        } else {
            write!(t, "{}", s).unwrap();
        }
    }
    fn subset_roundtrip<A: At>(t: Tendril<Self, A>, model: &[u8]) -> Result<Tendril<Self, A>, String> {
        same("as_superset::<WTF8> view", bytes_of(t.as_superset::<tf::WTF8>()), model)?;
        let w: Tendril<tf::WTF8, A> = t.into_superset();
        let t: Tendril<tf::UTF8, A> = w
            .try_into_subset()
            .map_err(|_| "UTF8 -> WTF8 -> try_into_subset::<UTF8> failed".to_string())?;
        let ascii = validate(Fmt::Ascii, model);
        if t.try_as_subset::<tf::ASCII>().is_ok() != ascii {
            return Err(format!("try_as_subset::<ASCII> answered {} for {}", !ascii, show(model)));
        }
        match t.try_into_subset::<tf::ASCII>() {
            Ok(a) => {
                if !ascii {
                    return Err(format!("try_into_subset::<ASCII> accepted {}", show(model)));
                }
                same("ASCII subset", bytes_of(&a), model)?;
                Ok(a.into_superset())
            },
            Err(t) => {
                if ascii {
                    return Err(format!("try_into_subset::<ASCII> rejected {}", show(model)));
                }
                Ok(t)
            },
        }
    }
}

impl Fm for tf::ASCII {
    const K: Fmt = Fmt::Ascii;
    fn str_views<A: At>(t: &Tendril<Self, A>, model: &[u8]) -> Result<(), String> {
        let s = std::str::from_utf8(model).map_err(|_| "HARNESS BUG: non-ASCII model".to_string())?;
        if !(*t == *s) {
            return Err(format!("PartialEq<str>: tendril != {s:?}, which is its model"));
        }
        let other = format!("{s}x");
        if *t == *other.as_str() {
            return Err(format!("PartialEq<str>: tendril == {other:?}, its model is {s:?}"));
        }
        Ok(())
    }
    fn from_valid<A: At>(b: &[u8]) -> Tendril<Self, A> {
        Tendril::try_from_byte_slice(b).expect("try_from_byte_slice rejected valid ASCII")
    }
    fn push_valid<A: At>(t: &mut Tendril<Self, A>, b: &[u8]) {
        t.try_push_bytes(b).expect("try_push_bytes rejected valid ASCII")
    }
    fn push_char<A: At>(t: &mut Tendril<Self, A>, c: char, _checked: bool) -> Out {
        single_byte_char(t, c)
    }
    fn pop_front_char<A: At>(t: &mut Tendril<Self, A>) -> Out {
        Out::Char(t.pop_front_char())
    }
    fn pop_front_char_run<A: At>(t: &mut Tendril<Self, A>, cls: u8) -> Option<(Tendril<Self, A>, u8)> {
        char_run(t, cls)
    }
    fn subset_roundtrip<A: At>(t: Tendril<Self, A>, model: &[u8]) -> Result<Tendril<Self, A>, String> {
        same("as_superset::<UTF8> view", bytes_of(t.as_superset::<tf::UTF8>()), model)?;
        same("as_superset::<Latin1> view", bytes_of(t.as_superset::<tf::Latin1>()), model)?;
        let u: Tendril<tf::UTF8, A> = t.into_superset();
        let t: Tendril<tf::ASCII, A> = u
            .try_into_subset()
            .map_err(|_| "ASCII -> UTF8 -> try_into_subset::<ASCII> failed".to_string())?;
        let l: Tendril<tf::Latin1, A> = t.into_superset();
        l.try_into_subset()
            .map_err(|_| "ASCII -> Latin1 -> try_into_subset::<ASCII> failed".to_string())
    }
}

impl Fm for tf::Latin1 {
    const K: Fmt = Fmt::Latin1;
    fn from_valid<A: At>(b: &[u8]) -> Tendril<Self, A> {
        Tendril::try_from_byte_slice(b).expect("try_from_byte_slice rejected Latin1 bytes")
    }
    fn push_valid<A: At>(t: &mut Tendril<Self, A>, b: &[u8]) {
        t.try_push_bytes(b).expect("try_push_bytes rejected Latin1 bytes")
    }
    fn push_char<A: At>(t: &mut Tendril<Self, A>, c: char, _checked: bool) -> Out {
        single_byte_char(t, c)
    }
    fn pop_front_char<A: At>(t: &mut Tendril<Self, A>) -> Out {
        Out::Char(t.pop_front_char())
    }
    fn pop_front_char_run<A: At>(t: &mut Tendril<Self, A>, cls: u8) -> Option<(Tendril<Self, A>, u8)> {
        char_run(t, cls)
    }
    fn subset_roundtrip<A: At>(t: Tendril<Self, A>, model: &[u8]) -> Result<Tendril<Self, A>, String> {
        let ascii = validate(Fmt::Ascii, model);
        match t.try_into_subset::<tf::ASCII>() {
            Ok(a) => {
                if !ascii {
                    return Err(format!("Latin1 try_into_subset::<ASCII> accepted {}", show(model)));
                }
                Ok(a.into_superset())
            },
            Err(t) => {
                if ascii {
                    return Err(format!("Latin1 try_into_subset::<ASCII> rejected {}", show(model)));
                }
                Ok(t)
            },
        }
    }
}

impl Fm for tf::WTF8 {
    const K: Fmt = Fmt::Wtf8;
    fn from_valid<A: At>(b: &[u8]) -> Tendril<Self, A> {
        Tendril::try_from_byte_slice(b).expect("try_from_byte_slice rejected valid WTF-8")
    }
    fn push_valid<A: At>(t: &mut Tendril<Self, A>, b: &[u8]) {
        t.try_push_bytes(b).expect("try_push_bytes rejected valid WTF-8")
    }
    fn subset_roundtrip<A: At>(t: Tendril<Self, A>, model: &[u8]) -> Result<Tendril<Self, A>, String> {
        let utf8 = validate(Fmt::Utf8, model);
        match t.try_into_subset::<tf::UTF8>() {
            Ok(u) => {
                if !utf8 {
                    return Err(format!("WTF8 try_into_subset::<UTF8> accepted {}", show(model)));
                }
                same("UTF8 subset", bytes_of(&u), model)?;
                Ok(u.into_superset())
            },
            Err(t) => {
                if utf8 {
                    return Err(format!("WTF8 try_into_subset::<UTF8> rejected {}", show(model)));
                }
                Ok(t)
            },
        }
    }
}

/// Marker put in front of "WTF8 validation accepted what the model rejects"
/// messages, so that the known finding KF_WTF8 can be recognised.
const WTF8_MARK: &str = "[wtf8-accepts] ";
fn wtf8_mark(other: Fmt) -> &'static str {
    if other == Fmt::Wtf8 {
        WTF8_MARK
    } else {
        ""
    }
}

/// Known finding: `WTF8::validate` (through `futf::classify`) attributes a stray
/// continuation byte that follows a complete multi-byte sequence to that
/// sequence, so e.g. b"\xC3\xA9\x80" is accepted as WTF-8.
pub const KF_WTF8: &str = "KF-C11-wtf8-validate-accepts-stray-continuation";

fn back<F: Fm, A: At>(b: Tendril<tf::Bytes, A>) -> Result<Tendril<F, A>, String> {
    b.try_reinterpret::<F>()
        .map_err(|_| "try_reinterpret back into the tendril's own format failed".to_string())
}

fn via<O: tf::Format, F: Fm, A: At>(t: Tendril<F, A>, other: Fmt, model: &[u8]) -> Result<Tendril<F, A>, String> {
    let expect_ok = validate(other, model);
    let b = t.into_bytes();
    let b2 = match b.try_reinterpret::<O>() {
        Ok(o) => {
            if !expect_ok {
                return Err(format!("{}try_reinterpret::<{other:?}> accepted {}", wtf8_mark(other), show(model)));
            }
            same("reinterpreted tendril", bytes_of(&o), model)?;
            o.into_bytes()
        },
        Err(b) => {
            if expect_ok {
                return Err(format!("try_reinterpret::<{other:?}> rejected {}", show(model)));
            }
            b
        },
    };
    back(b2)
}

fn reinterpret<F: Fm, A: At>(t: Tendril<F, A>, model: &[u8], k: u8) -> Result<Tendril<F, A>, String> {
    match k % 6 {
        0 => back(t.into_bytes()),
        1 => via::<tf::UTF8, F, A>(t, Fmt::Utf8, model),
        2 => via::<tf::ASCII, F, A>(t, Fmt::Ascii, model),
        3 => via::<tf::WTF8, F, A>(t, Fmt::Wtf8, model),
        4 => {
            for (other, ok) in [
                (Fmt::Utf8, t.try_reinterpret_view::<tf::UTF8>().map(bytes_of)),
                (Fmt::Wtf8, t.try_reinterpret_view::<tf::WTF8>().map(bytes_of)),
                (Fmt::Latin1, t.try_reinterpret_view::<tf::Latin1>().map(bytes_of)),
            ] {
                let exp = validate(other, model);
                match ok {
                    Ok(b) => {
                        if !exp {
                            return Err(format!("{}try_reinterpret_view::<{other:?}> accepted {}", wtf8_mark(other), show(model)));
                        }
                        same("reinterpreted view", b, model)?;
                    },
                    Err(()) => {
                        if exp {
                            return Err(format!("try_reinterpret_view::<{other:?}> rejected {}", show(model)));
                        }
                    },
                }
            }
            Ok(t)
        },
        _ => F::subset_roundtrip(t, model),
    }
}

/// Carry a SendTendril through another thread, where it is turned into an
/// Atomic tendril, cloned, checked and sent back.
fn through_thread<F: Fm>(s: SendTendril<F>, model: &[u8]) -> Result<SendTendril<F>, String> {
    let scope = mon::current_scope();
    let tok = crash::token();
    let m = model.to_vec();
    let h = std::thread::spawn(move || {
        let _g = mon::enter(scope);
        let _c = crash::enter(tok);
        let t: Tendril<F, Atomic> = Tendril::from(s);
        let c = t.clone();
        let sub = t.try_subtendril(0, t.len32());
        let ok = bytes_of(&t) == &m[..] && bytes_of(&c) == &m[..] && sub.map(|s| bytes_of(&s) == &m[..]).unwrap_or(false);
        if m.len() & 1 == 0 {
            drop(c);
            (t.into_send(), ok)
        } else {
            let s2 = t.into_send();
            let ok2 = bytes_of(&c) == &m[..];
            (s2, ok && ok2)
        }
    });
    match h.join() {
        Ok((s2, true)) => Ok(s2),
        Ok((_, false)) => Err(format!("tendril received on another thread differs from model {}", show(model))),
        Err(_) => Err("thread carrying a SendTendril panicked".into()),
    }
}

/// Statistics the interpreter gathers (plain counters: no allocation, so the
/// C12 leak scope stays clean).
#[derive(Default, Clone, Debug)]
pub struct Obs {
    /// input: tolerate the known finding KF_WTF8 (the history stops where it is hit)
    pub tolerate_wtf8: bool,
    /// output: the known finding was hit
    pub known_hits: u32,
    pub ops: u32,
    pub shared_mut: u32,
    pub to_heap: u32,
    pub to_inline: u32,
    pub merge: u32,
    pub drop_shared: u32,
    pub heap_seen: u32,
    pub exp_err: u32,
    pub exp_panic: u32,
    pub wtf8_join: u32,
    pub threads: u32,
}

pub(crate) struct Real<F: Fm, A: At> {
    pub(crate) slots: Vec<Option<Tendril<F, A>>>,
    pub(crate) parked: Vec<SendTendril<F>>,
}

impl<F: Fm, A: At> Real<F, A> {
    pub(crate) fn new() -> Self {
        Real {
            slots: (0..SLOTS).map(|_| None).collect(),
            parked: Vec::with_capacity(MAX_PARKED),
        }
    }
    fn t(&mut self, i: usize) -> &mut Tendril<F, A> {
        self.slots[i].as_mut().expect("harness: live slot")
    }
    /// does slot i share its buffer with another live tendril?
    fn shares(&self, i: usize) -> bool {
        let Some(t) = self.slots.get(i).and_then(|x| x.as_ref()) else {
            return false;
        };
        self.slots
            .iter()
            .enumerate()
            .any(|(j, o)| j != i && o.as_ref().map(|o| t.is_shared_with(o)).unwrap_or(false))
    }
    /// src starts exactly where dst ends, inside one shared buffer
    fn adjacent(&self, d: usize, s: usize) -> bool {
        if d == s {
            return false;
        }
        let (Some(a), Some(b)) = (&self.slots[d], &self.slots[s]) else {
            return false;
        };
        let (ab, bb) = (bytes_of(a), bytes_of(b));
        a.is_shared_with(b) && ab.as_ptr().wrapping_add(ab.len()) == bb.as_ptr()
    }

    fn apply(&mut self, op: &Op, m: &Model) -> Result<Out, String> {
        let sub_err = |e: SubtendrilError| match e {
            SubtendrilError::OutOfBounds => Out::ErrOob,
            SubtendrilError::ValidationFailed => Out::ErrInvalid,
        };
        Ok(match op {
            Op::New(i) => {
                self.slots[*i] = Some(if *i & 1 == 0 { Tendril::new() } else { Default::default() });
                Out::Done
            },
            Op::WithCapacity(i, c) => {
                self.slots[*i] = Some(Tendril::with_capacity(*c));
                Out::Done
            },
            Op::FromSlice(i, b) => {
                self.slots[*i] = Some(F::from_valid(b));
                Out::Done
            },
            Op::TryFromBytes(i, b) => match Tendril::<F, A>::try_from_byte_slice(b) {
                Ok(t) => {
                    self.slots[*i] = Some(t);
                    Out::Done
                },
                Err(()) => Out::ErrUnit,
            },
            Op::PushSlice(i, b) => {
                F::push_valid(self.t(*i), b);
                Out::Done
            },
            Op::TryPushBytes(i, b) => match self.t(*i).try_push_bytes(b) {
                Ok(()) => Out::Done,
                Err(()) => Out::ErrUnit,
            },
            Op::PushChar(i, c, checked) => {
                let ch = char::from_u32(*c).expect("harness: scalar value");
                F::push_char(self.t(*i), ch, *checked)
            },
            Op::PushTendril(d, s) => {
                if d == s {
                    let c = self.t(*s).clone();
                    self.t(*d).push_tendril(&c);
                } else {
                    let mut dt = self.slots[*d].take().expect("harness: live slot");
                    dt.push_tendril(self.slots[*s].as_ref().expect("harness: live slot"));
                    self.slots[*d] = Some(dt);
                }
                Out::Done
            },
            Op::Sub { dst, src, off, len, checked } => {
                if *checked {
                    match self.t(*src).try_subtendril(*off, *len) {
                        Ok(t) => {
                            self.slots[*dst] = Some(t);
                            Out::Done
                        },
                        Err(e) => sub_err(e),
                    }
                } else {
                    let t = self.t(*src).subtendril(*off, *len);
                    self.slots[*dst] = Some(t);
                    Out::Done
                }
            },
            Op::PopFront(i, n, checked) => {
                if *checked {
                    match self.t(*i).try_pop_front(*n) {
                        Ok(()) => Out::Done,
                        Err(e) => sub_err(e),
                    }
                } else {
                    self.t(*i).pop_front(*n);
                    Out::Done
                }
            },
            Op::PopBack(i, n, checked) => {
                if *checked {
                    match self.t(*i).try_pop_back(*n) {
                        Ok(()) => Out::Done,
                        Err(e) => sub_err(e),
                    }
                } else {
                    self.t(*i).pop_back(*n);
                    Out::Done
                }
            },
            Op::PopFrontChar(i) => F::pop_front_char(self.t(*i)),
            Op::PopFrontCharRun { dst, src, cls } => match F::pop_front_char_run(self.t(*src), *cls) {
                None => Out::Run(None),
                Some((run, class)) => {
                    self.slots[*dst] = Some(run);
                    Out::Run(Some(class))
                },
            },
            Op::Clone(d, s) => {
                let c = self.t(*s).clone();
                if c != *self.t(*s) {
                    return Err("a fresh clone compares unequal to its source".into());
                }
                self.slots[*d] = Some(c);
                Out::Done
            },
            Op::Clear(i) => {
                self.t(*i).clear();
                Out::Done
            },
            Op::Reserve(i, n) => {
                self.t(*i).reserve(*n);
                Out::Done
            },
            Op::Reinterpret(i, k) => {
                let t = self.slots[*i].take().expect("harness: live slot");
                let t = reinterpret(t, m.slots[*i].as_ref().unwrap(), *k)?;
                self.slots[*i] = Some(t);
                Out::Done
            },
            Op::Send(i, thread) => {
                let t = self.slots[*i].take().expect("harness: live slot");
                let mut s: SendTendril<F> = if *i & 1 == 0 { t.into_send() } else { SendTendril::from(t) };
                if *thread {
                    s = through_thread(s, m.slots[*i].as_ref().unwrap())?;
                }
                self.slots[*i] = Some(Tendril::from(s));
                Out::Done
            },
            Op::SendPark(i) => {
                let t = self.slots[*i].take().expect("harness: live slot");
                self.parked.push(t.into_send());
                Out::Done
            },
            Op::SendUnpark(i, thread) => {
                let mut s = self.parked.pop().expect("harness: parked");
                if *thread {
                    s = through_thread(s, m.slots[*i].as_ref().unwrap())?;
                }
                self.slots[*i] = Some(Tendril::from(s));
                Out::Done
            },
            Op::Write(i, idx, byte, fill) => {
                F::write(self.t(*i), *idx as usize, *byte, *fill);
                Out::Done
            },
            Op::ExtendWithByte(i, n, b) => {
                F::extend_with_byte(self.t(*i), *n, *b);
                Out::Done
            },
            Op::Extend(i, data, kind) => {
                F::extend(self.t(*i), data, *kind);
                Out::Done
            },
            Op::FromIter(i, data, kind) => {
                self.slots[*i] = Some(F::from_iter(data, *kind));
                Out::Done
            },
            Op::IoWrite(i, data, flag) => {
                F::io_write(self.t(*i), data, *flag);
                Out::Done
            },
            Op::ReadFrom(i, data, mode) => {
                F::read_from(self.t(*i), data, *mode)?;
                Out::Done
            },
            Op::ExtendTendrils(d, srcs) => {
                let mut dt = self.slots[*d].take().expect("harness: live slot");
                dt.extend(srcs.iter().map(|s| self.slots[*s].as_ref().expect("harness: live slot")));
                self.slots[*d] = Some(dt);
                Out::Done
            },
            Op::Drop(i) => {
                self.slots[*i] = None;
                Out::Done
            },
            Op::Swap(a, b) => {
                if a != b {
                    // swap the tendril values themselves (not the Option boxes)
                    let (x, y) = if a < b {
                        let (l, r) = self.slots.split_at_mut(*b);
                        (&mut l[*a], &mut r[0])
                    } else {
                        let (l, r) = self.slots.split_at_mut(*a);
                        (&mut r[0], &mut l[*b])
                    };
                    match (x.as_mut(), y.as_mut()) {
                        (Some(x), Some(y)) => std::mem::swap(x, y),
                        _ => std::mem::swap(x, y),
                    }
                }
                Out::Done
            },
        })
    }

    fn check_all(&self, m: &Model) -> Result<(), String> {
        for i in 0..SLOTS {
            match (&self.slots[i], &m.slots[i]) {
                (None, None) => {},
                (Some(t), Some(v)) => {
                    let b = bytes_of(t);
                    if b != &v[..] {
                        return Err(format!("slot {i} holds {}, its model {}", show(b), show(v)));
                    }
                    if t.len32() as usize != v.len() {
                        return Err(format!("slot {i}: len32() = {}, model length {}", t.len32(), v.len()));
                    }
                    if F::K == Fmt::Utf8 && std::str::from_utf8(b).is_err() {
                        return Err(format!("slot {i}: UTF-8 tendril holds invalid UTF-8 {}", show(b)));
                    }
                    if !validate(F::K, v) {
                        return Err(format!("HARNESS BUG: model of slot {i} invalid for {:?}: {}", F::K, show(v)));
                    }
                    // the views through the trait impls agree with the model, too
                    if v.len() <= 4096 {
                        F::str_views(t, v).map_err(|e| format!("slot {i}: {e}"))?;
                        for j in (i + 1)..SLOTS {
                            if let (Some(u), Some(w)) = (&self.slots[j], &m.slots[j]) {
                                if w.len() > 4096 {
                                    continue;
                                }
                                if (t == u) != (v == w) {
                                    return Err(format!("slots {i} and {j}: == answers {}, the models are {}", t == u, if v == w { "equal" } else { "different" }));
                                }
                                if v == w {
                                    use std::hash::{Hash, Hasher};
                                    let h = |x: &Tendril<F, A>| {
                                        let mut s = std::collections::hash_map::DefaultHasher::new();
                                        x.hash(&mut s);
                                        s.finish()
                                    };
                                    if h(t) != h(u) {
                                        return Err(format!("slots {i} and {j} are equal but hash differently"));
                                    }
                                }
                            }
                        }
                    }
                },
                (a, b) => {
                    return Err(format!(
                        "HARNESS BUG: slot {i} liveness differs (tendril {}, model {})",
                        a.is_some(),
                        b.is_some()
                    ))
                },
            }
        }
        if self.parked.len() != m.parked.len() {
            return Err("HARNESS BUG: parked SendTendril count differs".into());
        }
        Ok(())
    }
}

fn run_ops<F: Fm, A: At>(case: &Case, obs: &mut Obs) -> Result<(), String> {
    run_seeded::<F, A>(Model::new(case.fmt), Real::new(), &case.ops, obs)
}

/// Run `ops` on a pool that may already hold tendrils (C12 seeds the pools of
/// its threads with clones of shared buffers).
pub(crate) fn run_seeded<F: Fm, A: At>(
    mut model: Model,
    mut real: Real<F, A>,
    ops: &[Op],
    obs: &mut Obs,
) -> Result<(), String> {
    let mut res = Ok(());
    for (n, op) in ops.iter().enumerate() {
        let mslot = mutated_slot(op);
        let before = mslot.filter(|&i| i < SLOTS).map(|i| model.len(i));
        let exp = model.apply(op);
        if exp == Out::Skipped {
            continue;
        }
        obs.ops += 1;
        let shared_before = mslot.map(|i| real.shares(i)).unwrap_or(false);
        let drop_shared = match op {
            Op::SendPark(_) => false,
            _ => overwritten_slot(op).map(|i| real.shares(i)).unwrap_or(false),
        };
        let merge = match op {
            Op::PushTendril(d, s) => real.adjacent(*d, *s),
            _ => false,
        };
        let got = match guarded(|| real.apply(op, &model)) {
            Ok(Ok(o)) => Ok(o),
            Ok(Err(e)) => Err(e),
            Err(p) => {
                if exp == Out::Panic {
                    Ok(Out::Panic)
                } else if matches!(op, Op::Reserve(_, n) if *n > 0x8000_0000) && p.contains("overflow") {
                    // documented "overflow in buffer arithmetic" panic of an unshared tendril;
                    // the tendril must be left intact (checked right below)
                    obs.exp_panic += 1;
                    Ok(exp.clone())
                } else {
                    Err(format!("unexpected {p}"))
                }
            },
        };
        let step = match got {
            Ok(o) if o == exp => real.check_all(&model),
            Ok(Out::Done)
                if exp == Out::ErrUnit
                    && F::K == Fmt::Wtf8
                    && matches!(op, Op::TryFromBytes(..) | Op::TryPushBytes(..)) =>
            {
                Err(format!("{WTF8_MARK}answered Done, model expects ErrUnit (bytes are not WTF-8)"))
            },
            Ok(o) => Err(format!("answered {o:?}, model expects {exp:?}")),
            Err(e) => Err(e),
        };
        if let Err(e) = &step {
            if obs.tolerate_wtf8 && e.starts_with(WTF8_MARK) {
                // known finding: the tendril now holds bytes the model rejects;
                // the rest of the history is meaningless
                obs.known_hits += 1;
                break;
            }
        }
        if let Err(e) = step {
            res = Err(format!("op #{n} {op:?} [{:?}/{}]: {e}", F::K, if A::ATOMIC { "Atomic" } else { "NonAtomic" }));
            break;
        }
        match exp {
            Out::ErrOob | Out::ErrInvalid | Out::ErrUnit => obs.exp_err += 1,
            Out::Panic => obs.exp_panic += 1,
            _ => {
                if let (Some(i), Some(b)) = (mslot, before) {
                    let after = model.len(i);
                    let changed = !matches!(op, Op::Reserve(..));
                    if shared_before && changed {
                        obs.shared_mut += 1;
                    }
                    if b <= 8 && after > 8 {
                        obs.to_heap += 1;
                    }
                    if b > 8 && after <= 8 && model.slots[i].is_some() {
                        obs.to_inline += 1;
                    }
                }
                if merge {
                    obs.merge += 1;
                }
                if drop_shared {
                    obs.drop_shared += 1;
                }
                if matches!(op, Op::Send(_, true) | Op::SendUnpark(_, true)) {
                    obs.threads += 1;
                }
            },
        }
        if model.slots.iter().flatten().any(|v| v.len() > 8) {
            obs.heap_seen += 1;
        }
    }
    obs.wtf8_join = model.joins;
    // final teardown: every tendril and SendTendril goes away
    for i in 0..SLOTS {
        if real.shares(i) {
            obs.drop_shared += 1;
        }
        real.slots[i] = None;
    }
    real.parked.clear();
    res
}

/// Execute the history against the real tendrils and the model; Err on the
/// first divergence.  Everything the history created is dropped on return.
pub fn interpret(case: &Case, obs: &mut Obs) -> Result<(), String> {
    macro_rules! go {
        ($f:ty) => {
            if case.atomic {
                run_ops::<$f, Atomic>(case, obs)
            } else {
                run_ops::<$f, NonAtomic>(case, obs)
            }
        };
    }
    match case.fmt {
        Fmt::Bytes => go!(tf::Bytes),
        Fmt::Utf8 => go!(tf::UTF8),
        Fmt::Ascii => go!(tf::ASCII),
        Fmt::Latin1 => go!(tf::Latin1),
        Fmt::Wtf8 => go!(tf::WTF8),
    }
}

// ---------------------------------------------------------------------------
// Generator (choice bytes -> history).  The generator runs the model while it
// decodes so that arguments are relative to the current lengths and contents.

const SPECIAL: [usize; 11] = [0, 1, 7, 8, 9, 15, 16, 17, 31, 32, 33];

const UCHARS: &[char] = &[
    'a', 'b', 'Z', '0', ' ', '\n', 'q', '\u{7f}', 'é', 'ß', '\u{80}', '\u{7ff}', '€', '\u{800}', '\u{ffff}', '\u{fffd}',
    '😁', '\u{10000}', '\u{10ffff}', 'x', '\t', 'M', '\0',
    // the edges of every range the UTF-8 / WTF-8 decoders distinguish
    '\u{d7ff}', '\u{e000}', '\u{e001}', '\u{fffe}', '\u{fff}', '\u{1000}', '\u{cfff}', '\u{d000}', '\u{3ffff}', '\u{40000}', '\u{fffff}', '\u{100000}',
];
/// code points for WTF-8 content: scalar values and lone surrogates
const WCPS: &[u32] = &[
    0x61, 0x62, 0xD800, 0x20, 0xDC00, 0xE9, 0xDBFF, 0x20AC, 0xDFFF, 0x1F601, 0x5A, 0xD83D, 0x7A, 0xDE01, 0x10FFFF, 0x7FF,
    0xFFFF, 0x30, 0xD7FF, 0xE000, 0xE001, 0xD840, 0xDB80, 0xDBC0, 0xDC01, 0x10000, 0x20000, 0xFFFFF, 0x100000, 0x800, 0x80,
];
const BYTES_A: &[u8] = &[b'a', 0, 0x7f, 0x80, 0xff, 0xC3, 0xA9, 0xED, 0xA0, 0x80, b'Z', b' ', 0xF0, 0x9F, 0x98, 0x81];

/// sizes around which allocators, page rounding and capacity doubling change behaviour
const BIG: [usize; 21] = [
    64, 128, 256, 512, 1024, 2048, 4096, 8192, 12288, 16384, 32768, 65536, 126976, 131072, 135168, 139264, 143360, 196608,
    262144, 524288, 1048576,
];

pub(crate) fn gen_len(s: &mut Src) -> usize {
    if s.chance(5) {
        // a size class / page boundary, up to 20 bytes below .. 19 above (under the sanitizer
        // build of the fuzz target, where every byte costs more, up to 16 KiB)
        let big = *s.pick(&BIG);
        let big = if crate::props::FUZZING.load(std::sync::atomic::Ordering::Relaxed) { big.min(16384) } else { big };
        return (big + 19).saturating_sub(s.below(40));
    }
    if s.chance(150) {
        *s.pick(&SPECIAL)
    } else {
        s.len(48)
    }
}

fn is_cont(b: u8) -> bool {
    b & 0xC0 == 0x80
}

/// Valid content for the format of (about) `target` bytes; costs 2-3 choices.
pub(crate) fn gen_content(s: &mut Src, f: Fmt, target: usize) -> Vec<u8> {
    let start = s.byte() as usize;
    let stride = if s.chance(128) { 1 + s.below(7) } else { 1 };
    let mut out = Vec::with_capacity(target + 4);
    match f {
        Fmt::Bytes | Fmt::Latin1 => {
            if s.chance(90) {
                for k in 0..target {
                    out.push(BYTES_A[(start + k * stride) % BYTES_A.len()]);
                }
            } else {
                // consecutive distinct bytes: every offset error shows
                for k in 0..target {
                    out.push((start + k * stride) as u8);
                }
            }
        },
        Fmt::Ascii => {
            for k in 0..target {
                out.push(((start + k * stride) % 128) as u8);
            }
        },
        Fmt::Utf8 => {
            let ascii_only = s.chance(60);
            let mut k = 0;
            while out.len() < target {
                let c = UCHARS[(start + k * stride) % UCHARS.len()];
                k += 1;
                let c = if ascii_only && !c.is_ascii() { 'k' } else { c };
                if out.len() + c.len_utf8() <= target {
                    let mut b = [0u8; 4];
                    out.extend_from_slice(c.encode_utf8(&mut b).as_bytes());
                } else {
                    out.push(b'a' + (k % 26) as u8);
                }
            }
        },
        Fmt::Wtf8 => {
            let mut k = 0;
            let mut prev_lead = false;
            while out.len() < target {
                let mut cp = WCPS[(start + k * stride) % WCPS.len()];
                k += 1;
                if prev_lead && (0xDC00..0xE000).contains(&cp) {
                    cp = 0x2D;
                }
                let n = if cp < 0x80 {
                    1
                } else if cp < 0x800 {
                    2
                } else if cp < 0x10000 {
                    3
                } else {
                    4
                };
                if out.len() + n <= target {
                    cp_encode(cp, &mut out);
                    prev_lead = (0xD800..0xDC00).contains(&cp);
                } else {
                    out.push(b'a' + (k % 26) as u8);
                    prev_lead = false;
                }
            }
        },
    }
    out
}

/// Possibly invalid bytes: valid content with one corruption.
fn gen_dirty(s: &mut Src, f: Fmt, target: usize) -> Vec<u8> {
    let mut v = gen_content(s, f, target);
    if !s.chance(150) {
        return v;
    }
    match f {
        Fmt::Bytes | Fmt::Latin1 => {},
        Fmt::Ascii => {
            if v.is_empty() {
                v.push(0x80);
            } else {
                let i = s.below(v.len());
                v[i] |= 0x80;
            }
        },
        Fmt::Utf8 | Fmt::Wtf8 => {
            let at = if v.is_empty() { 0 } else { s.below(v.len() + 1) };
            let junk: &[u8] = match s.below(9) {
                0 => &[0xC3],
                1 => &[0x80],
                2 => &[0xFF],
                3 => &[0xED, 0xA0, 0x80],
                4 => &[0xC0, 0x80],
                5 => &[0xF4, 0x90, 0x80, 0x80],
                6 => &[0xED, 0xA0, 0x80, 0xED, 0xB0, 0x80],
                7 => &[0xED, 0xB0, 0x80],
                _ => &[0xE2, 0x82],
            };
            if s.bool() {
                v.truncate(at);
                v.extend_from_slice(junk);
            } else {
                let tail = v.split_off(at);
                v.extend_from_slice(junk);
                v.extend_from_slice(&tail);
            }
        },
    }
    v
}

/// A position 0..=len(+few), biased to the special lengths, the ends and
/// character boundaries +-1.
pub(crate) fn gen_pos(s: &mut Src, f: Fmt, b: &[u8]) -> usize {
    let l = b.len();
    let multi = matches!(f, Fmt::Utf8 | Fmt::Wtf8);
    let boundary = |mut k: usize| {
        if multi {
            while k > 0 && k < l && is_cont(b[k]) {
                k -= 1;
            }
        }
        k
    };
    match s.below(10) {
        0 => 0,
        1 => l,
        2 => *s.pick(&SPECIAL),
        3 | 4 | 5 => boundary(s.below(l + 1)),
        6 => boundary(s.below(l + 1)) + 1,
        7 => boundary(s.below(l + 1)).saturating_sub(1),
        8 => s.below(l + 1),
        _ => l + 1 + s.below(3),
    }
}

fn live_slot(s: &mut Src, m: &Model) -> Option<usize> {
    let live: Vec<usize> = (0..SLOTS).filter(|&i| m.slots[i].is_some()).collect();
    if live.is_empty() {
        None
    } else {
        Some(*s.pick(&live))
    }
}

/// largest position <= `at` that does not split a character of the format
fn boundary_down(f: Fmt, b: &[u8], at: usize) -> usize {
    let mut at = at.min(b.len());
    if matches!(f, Fmt::Utf8 | Fmt::Wtf8) {
        while at > 0 && at < b.len() && is_cont(b[at]) {
            at -= 1;
        }
    }
    at
}

fn emit(m: &mut Model, ops: &mut Vec<Op>, op: Op) {
    if m.apply(&op) != Out::Skipped {
        ops.push(op);
    }
}

pub(crate) fn gen_op(s: &mut Src, m: &mut Model, ops: &mut Vec<Op>) {
    let f = m.f;
    let w = s.weighted(&[
        10, 12, 10, 12, 8, 8, 8, 6, 3, 3, 2, 2, 3, 4, 5, 4, 4, 3, 3, 3, 1, 2, 4, 2, 3, 2, 2, 2, 2, 2, 4,
    ]);
    let any = s.below(SLOTS);
    let Some(live) = live_slot(s, m) else {
        let n = gen_len(s);
        let c = gen_content(s, f, n);
        emit(m, ops, Op::FromSlice(any, c));
        return;
    };
    let cur: Vec<u8> = m.slots[live].clone().unwrap();
    match w {
        0 => {
            let n = gen_len(s);
            let c = gen_content(s, f, n);
            emit(m, ops, Op::FromSlice(any, c));
        },
        1 => {
            let n = gen_len(s);
            let c = gen_content(s, f, n);
            emit(m, ops, Op::PushSlice(live, c));
        },
        2 => emit(m, ops, Op::Clone(any, live)),
        3 => {
            let off = gen_pos(s, f, &cur);
            let end = gen_pos(s, f, &cur);
            let rem = cur.len().saturating_sub(off);
            let len = if s.chance(20) {
                rem + 1 + s.below(2)
            } else if end >= off {
                end - off
            } else {
                s.below(rem + 1)
            };
            let checked = !s.chance(80);
            emit(m, ops, Op::Sub { dst: any, src: live, off: off as u32, len: len as u32, checked });
        },
        4 => {
            let n = gen_pos(s, f, &cur);
            let checked = !s.chance(80);
            emit(m, ops, Op::PopFront(live, n as u32, checked));
        },
        5 => {
            let p = gen_pos(s, f, &cur);
            let n = if p <= cur.len() { cur.len() - p } else { p };
            let checked = !s.chance(80);
            emit(m, ops, Op::PopBack(live, n as u32, checked));
        },
        6 => {
            let src = live_slot(s, m).unwrap();
            emit(m, ops, Op::PushTendril(live, src));
        },
        7 => {
            // macro: split a long tendril into two adjacent views and push
            // the second onto the first (adjacent-merge fast path)
            let mut src = live;
            if cur.len() < 18 {
                let n = 18 + s.below(30);
                let c = gen_content(s, f, n);
                emit(m, ops, Op::FromSlice(any, c));
                src = any;
            }
            let b = m.slots[src].clone().unwrap();
            let a_slot = (src + 1 + s.below(SLOTS - 1)) % SLOTS;
            let mut b_slot = (a_slot + 1 + s.below(SLOTS - 1)) % SLOTS;
            if b_slot == src {
                b_slot = (b_slot + 1) % SLOTS;
                if b_slot == a_slot {
                    b_slot = (b_slot + 1) % SLOTS;
                }
            }
            if is_char_fmt(f) && s.chance(60) {
                let cls = s.below(4) as u8;
                emit(m, ops, Op::PopFrontCharRun { dst: a_slot, src, cls });
                emit(m, ops, Op::PushTendril(a_slot, src));
                return;
            }
            let mut k = 9 + s.below(b.len() - 17);
            while k > 0 && is_cont(b[k]) && matches!(f, Fmt::Utf8 | Fmt::Wtf8) {
                k -= 1;
            }
            let l = b.len();
            emit(m, ops, Op::Sub { dst: a_slot, src, off: 0, len: k as u32, checked: true });
            emit(m, ops, Op::Sub { dst: b_slot, src, off: k as u32, len: (l - k) as u32, checked: true });
            if s.chance(60) {
                emit(m, ops, Op::Drop(src));
            }
            emit(m, ops, Op::PushTendril(a_slot, b_slot));
            if s.chance(100) {
                let n = gen_len(s);
                let c = gen_content(s, f, n);
                emit(m, ops, Op::PushSlice(a_slot, c));
            }
        },
        8 => emit(m, ops, Op::Clear(live)),
        9 => emit(m, ops, Op::Drop(live)),
        10 => emit(m, ops, Op::New(any)),
        11 => {
            let n = gen_len(s);
            emit(m, ops, Op::WithCapacity(any, n as u32));
        },
        12 => {
            let n = gen_len(s);
            let c = gen_dirty(s, f, n);
            emit(m, ops, Op::TryFromBytes(any, c));
        },
        13 => {
            let n = gen_len(s);
            let c = gen_dirty(s, f, n);
            emit(m, ops, Op::TryPushBytes(live, c));
        },
        14 => {
            let c = if s.chance(128) { *s.pick(UCHARS) } else { s.any_char() };
            let checked = s.bool();
            emit(m, ops, Op::PushChar(live, c as u32, checked));
        },
        15 => emit(m, ops, Op::PopFrontChar(live)),
        16 => {
            let cls = s.below(4) as u8;
            let dst = (live + 1 + s.below(SLOTS - 1)) % SLOTS;
            emit(m, ops, Op::PopFrontCharRun { dst, src: live, cls });
        },
        17 => {
            // mostly small; sometimes beyond 2^31, where an unshared tendril must panic
            // with the documented overflow message and stay intact
            let n = if s.chance(40) { 0x8000_0001usize + s.below(0x7000_0000) } else { gen_len(s) };
            emit(m, ops, Op::Reserve(live, n as u32));
        },
        18 => {
            let k = s.below(6) as u8;
            emit(m, ops, Op::Reinterpret(live, k));
        },
        19 => {
            let th = s.chance(12);
            emit(m, ops, Op::Send(live, th));
        },
        20 => emit(m, ops, Op::SendPark(live)),
        21 => {
            let th = s.chance(12);
            emit(m, ops, Op::SendUnpark(any, th));
        },
        22 => {
            let idx = gen_pos(s, f, &cur);
            let byte = s.byte();
            let fill = s.chance(60);
            emit(m, ops, Op::Write(live, idx as u32, byte, fill));
        },
        23 => {
            let n = gen_len(s);
            let b = s.byte();
            emit(m, ops, Op::ExtendWithByte(live, n as u32, b));
        },
        24 => {
            let n = gen_len(s);
            let c = gen_content(s, f, n);
            let k = s.below(6) as u8;
            emit(m, ops, Op::Extend(live, c, k));
        },
        25 => {
            let n = gen_len(s);
            let c = gen_content(s, f, n);
            let k = s.below(30) as u8; // taken mod 6 (bytes) / mod 5 (text)
            emit(m, ops, Op::FromIter(any, c, k));
        },
        26 => {
            let n = gen_len(s);
            let c = gen_content(s, f, n);
            let fl = s.bool();
            emit(m, ops, Op::IoWrite(live, c, fl));
        },
        27 => {
            let n = 1 + s.below(3);
            let mut srcs = vec![];
            for _ in 0..n {
                if let Some(x) = live_slot(s, m) {
                    if x != live {
                        srcs.push(x);
                    }
                }
            }
            if !srcs.is_empty() {
                emit(m, ops, Op::ExtendTendrils(live, srcs));
            }
        },
        29 => {
            let n = gen_len(s);
            let c = gen_content(s, f, n);
            let mode = s.byte() & 31;
            emit(m, ops, Op::ReadFrom(live, c, mode));
        },
        30 => {
            // a short view of the tail of a (shared) buffer, then growth of that view: the view's
            // offset is large compared with its length, and the buffer has little room behind it
            // (views of <= 8 bytes are inline copies: keep most of them longer than that)
            let k = if s.chance(200) { 9 + s.below(24) } else { s.below(12) }.min(cur.len());
            let off = boundary_down(f, &cur, cur.len() - k);
            let room = cur.len() - off;
            let len = boundary_down(f, &cur[off..], if room > 9 && s.chance(200) { 9 + s.below(room - 8) } else { s.below(room + 1) });
            let dst = (live + 1 + s.below(SLOTS - 1)) % SLOTS;
            emit(m, ops, Op::Sub { dst, src: live, off: off as u32, len: len as u32, checked: true });
            let n = if s.bool() { 1 + s.below(9) } else { gen_len(s) };
            match s.below(5) {
                0 => emit(m, ops, Op::ExtendWithByte(dst, n as u32, s.byte())),
                1 => {
                    let c = gen_content(s, f, n);
                    emit(m, ops, Op::ReadFrom(dst, c, s.byte() & 31));
                },
                2 => emit(m, ops, Op::Reserve(dst, n as u32)),
                3 => {
                    let c = gen_content(s, f, n);
                    emit(m, ops, Op::Extend(dst, c, s.below(6) as u8));
                },
                _ => {
                    let c = gen_content(s, f, n);
                    emit(m, ops, Op::PushSlice(dst, c));
                },
            }
        },
        _ => {
            let b = s.below(SLOTS);
            emit(m, ops, Op::Swap(live, b));
        },
    }
}

pub fn decode_n(s: &mut Src, max_ops: usize) -> Case {
    let fmt = [Fmt::Bytes, Fmt::Utf8, Fmt::Ascii, Fmt::Latin1, Fmt::Wtf8][s.weighted(&[3, 4, 1, 1, 2])];
    let atomic = s.bool();
    let n = s.range(1, max_ops);
    let mut m = Model::new(fmt);
    let mut ops = Vec::new();
    while ops.len() < n && !s.exhausted() {
        // keep the total size bounded (self-appends double a tendril; a search engine finds the
        // sequences that do it twenty times): past 24 MiB the largest tendril is dropped
        let total: usize = m.slots.iter().flatten().map(|v| v.len()).sum::<usize>() + m.parked.iter().map(|v| v.len()).sum::<usize>();
        if total > (24 << 20) {
            if let Some((i, _)) = m.slots.iter().enumerate().filter_map(|(i, v)| v.as_ref().map(|v| (i, v.len()))).max_by_key(|(_, l)| *l) {
                emit(&mut m, &mut ops, Op::Drop(i));
                continue;
            }
        }
        gen_op(s, &mut m, &mut ops);
    }
    ops.truncate(max_ops.max(n));
    Case { fmt, atomic, ops }
}

pub fn decode(s: &mut Src) -> Case {
    decode_n(s, 60)
}

// ---------------------------------------------------------------------------

pub const L_SHARED: &str = "mutation while another tendril shares the buffer";
pub const L_HEAP: &str = "inline->heap transition";
pub const L_INLINE: &str = "heap->inline transition";
pub const L_MERGE: &str = "push_tendril adjacent-merge fast path";
pub const L_ERR: &str = "checked op answered the expected Err";
pub const L_PANIC: &str = "panicking op panicked as expected";
pub const L_JOIN: &str = "WTF-8 surrogate pair joined on push";
pub const L_THREAD: &str = "SendTendril crossed a thread";

pub fn record(case: &Case, obs: &Obs, st: &mut Stats) -> bool {
    st.label_n(L_SHARED, obs.shared_mut as u64);
    st.label_n(L_HEAP, obs.to_heap as u64);
    st.label_n(L_INLINE, obs.to_inline as u64);
    st.label_n(L_MERGE, obs.merge as u64);
    st.label_n(L_ERR, obs.exp_err as u64);
    st.label_n(L_PANIC, obs.exp_panic as u64);
    st.label_n(L_JOIN, obs.wtf8_join as u64);
    st.label_n(L_THREAD, obs.threads as u64);
    st.label_n("operations executed", obs.ops as u64);
    st.label(match (case.fmt, case.atomic) {
        (Fmt::Bytes, false) => "histories: Bytes/NonAtomic",
        (Fmt::Bytes, true) => "histories: Bytes/Atomic",
        (Fmt::Utf8, false) => "histories: UTF8/NonAtomic",
        (Fmt::Utf8, true) => "histories: UTF8/Atomic",
        (Fmt::Ascii, false) => "histories: ASCII/NonAtomic",
        (Fmt::Ascii, true) => "histories: ASCII/Atomic",
        (Fmt::Latin1, false) => "histories: Latin1/NonAtomic",
        (Fmt::Latin1, true) => "histories: Latin1/Atomic",
        (Fmt::Wtf8, false) => "histories: WTF8/NonAtomic",
        (Fmt::Wtf8, true) => "histories: WTF8/Atomic",
    });
    obs.shared_mut > 0 || obs.to_heap > 0 || obs.to_inline > 0 || obs.merge > 0
}

pub fn oracle(case: &Case, st: &mut Stats, tolerate_wtf8: bool) -> Result<(), String> {
    st.eval();
    let _running = crash::running(case);
    let mut obs = Obs { tolerate_wtf8, ..Obs::default() };
    interpret(case, &mut obs)?;
    if obs.known_hits > 0 {
        st.exclude(KF_WTF8);
    }
    if record(case, &obs, st) {
        st.nontrivial(hash64(case), || serde_json::to_value(case).unwrap());
    } else {
        st.exclude("history without shared mutation, inline/heap transition or merge");
    }
    Ok(())
}

pub const RULE: &str = "histories of 1..60 (thorough: 1..200) safe Tendril operations over a pool of 6 optional tendrils, one format in {Bytes,UTF8,ASCII,Latin1,WTF8} x {NonAtomic,Atomic} per history, decoded from proptest-generated choice bytes by a generator that runs the model (lengths/offsets relative to current lengths, biased to 0,1,7,8,9,15,16,17,31,32,33 and to character boundaries +-1; contents incl. multi-byte characters, lone surrogates for WTF-8 and deliberately invalid bytes for the try_* constructors). Ops: new, with_capacity, from_slice/From/FromStr, try_from_byte_slice, push_slice, try_push_bytes, push_char/try_push_char, push_tendril, subtendril/try_subtendril, pop_front/try_pop_front, pop_back/try_pop_back, pop_front_char, pop_front_char_run, clone, clear, reserve, into_bytes/try_reinterpret(_view), as_superset/into_superset/try_as_subset/try_into_subset, into_send->From (optionally through another thread, optionally parked), DerefMut writes (Bytes: byte/fill, UTF8: make_ascii_uppercase), extend_with_byte, Extend/FromIterator (u8,&u8,&[u8],char,&str,&Tendril), format, io::Write, fmt::Write, drop, swap. After every op every live tendril's bytes and len32 are compared with an independent Vec<u8> model (WTF-8: independent code-point decoder incl. surrogate-pair joining on push); checked variants must answer Err(OutOfBounds/ValidationFailed/()) and panicking variants must panic exactly when the model says so. Non-trivial: the history mutates a tendril while another live tendril shares its buffer (is_shared_with), or crosses the 8-byte inline/heap boundary by a mutation, or takes the adjacent-merge fast path of push_tendril (shared buffer and contiguous data pointers); distinct by hash of (format, atomicity, op list).";

pub fn run(ctx: &Ctx) -> Report {
    crash::install(&ctx.id);
    let mut rep = Report::new(RULE);
    rep.assume("a tendril bug that kills the process (SIGSEGV/SIGABRT) is reported by a signal handler: VIOLATION line, replay file of the running case, exit status 1");
    rep.assume("only the safe public API is driven; unsafe *_without_validating / push_uninitialized / unsafe_* are not called directly");
    rep.assume("lengths stay far below the 4 GB limit: the overflow panics are not exercised");
    rep.assume("which tendrils share a buffer is read from is_shared_with / data pointers (not asserted), since sharing is an undocumented optimisation");
    let q = ctx.tier == Tier::Quick;
    let scale = if q { 1 } else { 20 };
    rep.need(L_SHARED, 50_000 * scale);
    rep.need(L_HEAP, 40_000 * scale);
    rep.need(L_INLINE, 30_000 * scale);
    rep.need(L_MERGE, 20_000 * scale);
    rep.need(L_ERR, 40_000 * scale);
    rep.need(L_PANIC, 10_000 * scale);
    rep.need(L_JOIN, 200 * scale);
    rep.need(L_THREAD, 1_000 * scale);
    run_regressions(ctx, &mut rep, &|v| replay(&ctx.strict_clone(), v));
    report_known(ctx, &mut rep, &|v| replay(&ctx.strict_clone(), v));
    let tol = ctx.tolerate(KF_WTF8);
    let out = if q {
        run_random(ctx.seed, 400_000, 1000, decode, |c, st| oracle(c, st, tol))
    } else {
        run_random(ctx.seed, 5_000_000, 2400, |s: &mut Src| decode_n(s, 200), |c, st| oracle(c, st, tol))
    };
    rep.absorb(out);
    rep
}

pub fn replay(ctx: &Ctx, v: &Value) -> Result<(), String> {
    crash::install(&ctx.id);
    let case: Case = serde_json::from_value(v.clone()).map_err(|e| format!("bad case: {e}"))?;
    let _running = crash::running(&case);
    let mut obs = Obs::default();
    interpret(&case, &mut obs)
}

// ---------------------------------------------------------------------------
// Crash guard.  A memory-safety bug in tendril can kill the process (SIGSEGV,
// or SIGABRT from the allocator / a non-unwinding UB-check panic) before the
// oracle gets a chance to report.  The guard turns such a death into a normal
// verdict: the case being executed is saved as a replay file, a VIOLATION line
// is printed and the process exits with status 1.

pub mod crash {
    use std::cell::Cell;
    use std::sync::atomic::{AtomicBool, AtomicUsize, Ordering::*};

    /// (pointer to the current case, function that serialises it)
    pub type Token = (usize, usize);

    thread_local! {
        static CURRENT: Cell<Token> = const { Cell::new((0, 0)) };
    }
    static PROP_PTR: AtomicUsize = AtomicUsize::new(0);
    static PROP_LEN: AtomicUsize = AtomicUsize::new(0);
    static CRASHING: AtomicBool = AtomicBool::new(false);
    static INSTALLED: AtomicBool = AtomicBool::new(false);

    pub fn token() -> Token {
        CURRENT.try_with(|c| c.get()).unwrap_or((0, 0))
    }

    pub struct Enter(Token);
    impl Drop for Enter {
        fn drop(&mut self) {
            let _ = CURRENT.try_with(|c| c.set(self.0));
        }
    }
    /// Threads spawned by a case announce the case they work for.
    pub fn enter(t: Token) -> Enter {
        Enter(CURRENT.try_with(|c| c.replace(t)).unwrap_or((0, 0)))
    }

    fn ser<C: serde::Serialize>(p: usize) -> Option<String> {
        let c: &C = unsafe { &*(p as *const C) };
        serde_json::to_string_pretty(c).ok()
    }

    /// Announce the case the calling thread is about to execute.
    pub fn running<C: serde::Serialize>(case: &C) -> Enter {
        let f: fn(usize) -> Option<String> = ser::<C>;
        enter((case as *const C as usize, f as usize))
    }

    fn raw_print(s: &str) {
        unsafe {
            libc::write(1, s.as_ptr() as *const libc::c_void, s.len());
        }
    }

    fn prop() -> &'static str {
        let (p, l) = (PROP_PTR.load(Relaxed), PROP_LEN.load(Relaxed));
        if p == 0 {
            return "C11";
        }
        unsafe { std::str::from_utf8_unchecked(std::slice::from_raw_parts(p as *const u8, l)) }
    }

    extern "C" fn on_alarm(_sig: libc::c_int) {
        raw_print("VIOLATION property=");
        raw_print(prop());
        raw_print(" replay=none\n  what: the process crashed while executing a case and the case could not be saved\n");
        unsafe { libc::_exit(1) }
    }

    extern "C" fn on_crash(sig: libc::c_int) {
        if CRASHING.swap(true, SeqCst) {
            loop {
                unsafe { libc::pause() };
            }
        }
        unsafe {
            libc::signal(libc::SIGALRM, on_alarm as *const () as usize);
            libc::alarm(5);
            // a second fault while reporting goes straight to the fallback
            libc::signal(libc::SIGSEGV, on_alarm as *const () as usize);
            libc::signal(libc::SIGBUS, on_alarm as *const () as usize);
            libc::signal(libc::SIGABRT, on_alarm as *const () as usize);
        }
        let name = match sig {
            libc::SIGSEGV => "SIGSEGV",
            libc::SIGBUS => "SIGBUS",
            libc::SIGABRT => "SIGABRT (abort: allocator corruption check or non-unwinding panic)",
            libc::SIGILL => "SIGILL",
            _ => "a fatal signal",
        };
        let (p, f) = token();
        let tendril_prop = matches!(prop(), "C11" | "C12");
        if p == 0 && !tendril_prop {
            // outside a case: not attributable to the code under test
            raw_print("INCONCLUSIVE property=");
            raw_print(prop());
            raw_print(" the checking process was killed by ");
            raw_print(name);
            raw_print(" outside a generated case\n");
            unsafe { libc::_exit(2) }
        }
        if p == 0 {
            raw_print("VIOLATION property=");
            raw_print(prop());
            raw_print(" replay=none\n  what: the process was killed by ");
            raw_print(name);
            raw_print(" between two cases: the heap was corrupted by an earlier case (memory unsafety reached through the safe API); run C12 under vcheck_alloc to pin the case down\n");
            unsafe { libc::_exit(1) }
        }
        let mut path = String::from("none");
        if p != 0 && f != 0 {
            let f: fn(usize) -> Option<String> = unsafe { std::mem::transmute(f) };
            if let Some(json) = f(p) {
                let dir = crate::engine::verif_root().join("replays");
                let _ = std::fs::create_dir_all(&dir);
                let file = dir.join(format!("{}-crash-{:016x}.json", prop(), crate::engine::hash64(&json)));
                let txt = format!(
                    "{{\n\"property\": \"{}\",\n\"what\": \"process killed by {} while executing this case\",\n\"case\": {}\n}}\n",
                    prop(),
                    name,
                    json
                );
                if std::fs::write(&file, txt).is_ok() {
                    path = file.display().to_string();
                }
            }
        }
        if f == 0 {
            raw_print(&format!(
                "VIOLATION property={} replay=none\n  what: the process was killed by {} while executing case #{} of an enumerated part of the check (the code under test crashed, aborted, or exhausted the address-space limit)\n",
                prop(),
                name,
                p - 1
            ));
            unsafe { libc::_exit(1) }
        }
        raw_print(&format!(
            "VIOLATION property={} replay={}\n  what: the process was killed by {} while executing this case ({})\n",
            prop(),
            path,
            name,
            if tendril_prop {
                "memory unsafety reached through the safe API"
            } else {
                "the code under test crashed, aborted, or exhausted the address-space limit of the checking process"
            }
        ));
        unsafe { libc::_exit(1) }
    }

    /// Install the handlers (idempotent).
    pub fn install(property: &str) {
        if INSTALLED.swap(true, SeqCst) {
            return;
        }
        let s: &'static str = Box::leak(property.to_string().into_boxed_str());
        PROP_PTR.store(s.as_ptr() as usize, SeqCst);
        PROP_LEN.store(s.len(), SeqCst);
        unsafe {
            for sig in [libc::SIGSEGV, libc::SIGBUS, libc::SIGABRT, libc::SIGILL] {
                let mut sa: libc::sigaction = std::mem::zeroed();
                sa.sa_sigaction = on_crash as *const () as usize;
                sa.sa_flags = libc::SA_ONSTACK | libc::SA_NODEFER;
                libc::sigemptyset(&mut sa.sa_mask);
                libc::sigaction(sig, &sa, std::ptr::null_mut());
            }
        }
    }
}
