//! C09 — line numbers reported with tokens match the source.

use crate::engine::*;
use crate::gen::chunks;
use crate::props::c01::{self, Cold};
use crate::refimpl::tokenizer::RState;
use crate::sinks::tokrec::*;
use serde::{Deserialize, Serialize};
use serde_json::{json, Value};

#[derive(Serialize, Deserialize, Clone, Debug, Hash, PartialEq, Eq)]
pub struct Case {
    pub tok: c01::Case,
    pub chunks: Vec<String>,
}

pub fn check(case: &Case, st: &mut Stats) -> Result<(), String> {
    st.eval();
    let tc = &case.tok;
    debug_assert_eq!(case.chunks.concat(), tc.input);
    let real = c01::run_real(tc, &case.chunks, false);
    let rf = c01::run_ref(tc);
    let rt = strip_errors(&real.raw);
    if toks_only(&rt) != toks_only(&rf.rec) {
        // C01's business
        st.exclude("token streams disagree (decided by C01)");
        return Ok(());
    }
    let lf_upto = |p: u64| -> u64 { rf.norm[..(p as usize).min(rf.norm.len())].iter().filter(|c| **c == '\n').count() as u64 };
    let total_lf = lf_upto(rf.norm.len() as u64);
    for (i, (tok, line)) in rt.iter().enumerate() {
        let pos = rf.rec[i].1;
        match tok {
            NTok::Tag { .. } | NTok::Comment(_) | NTok::Doctype { .. } => {
                let exp = 1 + lf_upto(pos);
                if *line != exp {
                    return Err(format!(
                        "token #{i} {tok:?} reported on line {line}, but {} line break(s) were consumed when it was emitted (expected line {exp}); chunks {:?}",
                        exp - 1,
                        case.chunks
                    ));
                }
            },
            NTok::Eof => {
                if *line != 1 + total_lf {
                    return Err(format!(
                        "EOF token reported on line {line}, input has {total_lf} line break(s) (expected {}); chunks {:?}",
                        1 + total_lf,
                        case.chunks
                    ));
                }
            },
            _ => {},
        }
    }
    // monotone over everything delivered (incl. errors and character fragments)
    let mut prev = 1;
    for (i, (tok, line)) in real.raw.iter().enumerate() {
        if *line < prev {
            return Err(format!("line numbers decrease at raw token #{i} {tok:?}: {prev} -> {line}"));
        }
        if *line > 1 + total_lf {
            return Err(format!("raw token #{i} {tok:?} on line {line} > 1 + {total_lf} line breaks in the input"));
        }
        prev = *line;
    }
    let mut nontrivial = false;
    for s in &rf.lf_states {
        if *s != RState::Data {
            nontrivial = true;
            st.label(&format!("LF consumed in {s:?}"));
        }
    }
    if nontrivial {
        if case.chunks.len() > 1 {
            st.label("chunked");
        }
        st.nontrivial(hash64(case), || serde_json::to_value(case).unwrap());
    }
    Ok(())
}

// ---------------------------------------------------------------------------
// forwarding: the line the tree builder passes on through TreeSink::set_current_line

/// TokenSink between the tokenizer and html5ever's tree builder: publishes the line of the token
/// being processed, so that the sink can compare it with the last forwarded line at every call.
struct LineTap<S: html5ever::tokenizer::TokenSink> {
    inner: S,
    now: std::rc::Rc<std::cell::Cell<u64>>,
}

impl<S: html5ever::tokenizer::TokenSink> html5ever::tokenizer::TokenSink for LineTap<S> {
    type Handle = S::Handle;
    fn process_token(&self, token: html5ever::tokenizer::Token, line_number: u64) -> html5ever::tokenizer::TokenSinkResult<S::Handle> {
        self.now.set(line_number);
        self.inner.process_token(token, line_number)
    }
    fn end(&self) {
        self.inner.end()
    }
    fn adjusted_current_node_present_but_not_in_html_namespace(&self) -> bool {
        self.inner.adjusted_current_node_present_but_not_in_html_namespace()
    }
}

/// Parse a document into ModelDom through the tap; Err = a TreeSink call saw a stale line.
pub fn check_forwarding(tc: &crate::gen::cases::TreeCase, st: &mut Stats) -> Result<(), String> {
    use html5ever::tokenizer::{BufferQueue, Tokenizer};
    use html5ever::tree_builder::TreeBuilder;
    st.eval();
    let now = std::rc::Rc::new(std::cell::Cell::new(1u64));
    let mut sink = crate::sinks::model::ModelDom::new();
    sink.line_expect = Some(now.clone());
    let opts = crate::sinks::drive::opts_of(&tc.cfg);
    let tb = TreeBuilder::new(sink, opts.tree_builder);
    let tok = Tokenizer::new(LineTap { inner: tb, now: now.clone() }, opts.tokenizer);
    let q = BufferQueue::default();
    for c in &tc.chunks {
        q.push_back(tendril::StrTendril::from(c.as_str()));
        let mut guard = 0;
        while !matches!(tok.feed(&q), markup5ever::TokenizerResult::Done) {
            guard += 1;
            if guard > 100_000 {
                return Err("feed() keeps suspending".into());
            }
        }
    }
    tok.end();
    let dom = &tok.sink.inner.sink;
    if let Some(m) = dom.line_mismatch.borrow().clone() {
        return Err(format!("{m}; chunks {:?}", tc.chunks));
    }
    let breaks = tc.input.matches('\n').count() + tc.input.matches('\r').count();
    if breaks > 0 && !dom.errors.borrow().is_empty() {
        st.label("forwarding: parse errors in an input with line breaks");
        st.nontrivial(hash64(tc), || serde_json::to_value(tc).unwrap());
    }
    Ok(())
}

fn decode_forwarding(s: &mut Src) -> crate::gen::cases::TreeCase {
    let mut tc = crate::gen::cases::gen_tree_case(s, false, 24);
    tc.input = add_breaks(s, &tc.input);
    let n = tc.input.chars().count();
    let cuts = chunks::gen_cuts(s, n);
    tc.chunks = chunks::chunk_str(&tc.input, &cuts);
    tc
}

const SIGMA9: &[char] = &['<', 'a', '=', '"', '>', '&', '-', '!', '\n', '\r', ' '];
const SUFFIX9: &[char] = &['\n', '\r', 'a', '>', ' ', '"', '-', ';', '='];

fn word_over(alpha: &[char], mut k: u64, n: usize) -> String {
    let mut s = String::new();
    for _ in 0..n {
        s.push(alpha[(k % alpha.len() as u64) as usize]);
        k /= alpha.len() as u64;
    }
    s
}

fn simple_case(cold: Cold, last: Option<&str>, policy: Policy, input: String, chunks: Vec<String>) -> Case {
    Case {
        tok: c01::Case { cold, last_start_tag: last.map(|s| s.to_string()), policy, exact_errors: false, input },
        chunks,
    }
}

/// Insert line breaks all over a token-soup string.
fn add_breaks(s: &mut Src, text: &str) -> String {
    let cs: Vec<char> = text.chars().collect();
    let mut out = String::new();
    let rate = *s.pick(&[20u8, 60, 120]);
    for c in cs {
        if s.chance(rate) {
            out.push_str(*s.pick(&["\n", "\r", "\r\n", "\n\n", "\r\r", "\n\r"]));
            if s.chance(40) {
                // characters next to LF in value, or line separators elsewhere: never line breaks
                out.push_str(*s.pick(&["\u{b}", "\t", "\x0C", "\u{b}\u{b}", "\u{85}", "\u{2028}", "\u{1}", "\u{e}"]));
            }
        }
        out.push(c);
    }
    if s.chance(60) {
        out.push_str(*s.pick(&["\n", "\r", "\r\n"]));
    }
    out
}

pub fn decode_random(s: &mut Src) -> Case {
    let mut tc = c01::decode_random(s);
    tc.input = add_breaks(s, &tc.input);
    // long runs for the SIMD path
    if s.chance(40) {
        let mut run = String::new();
        let n = s.range(16, 80);
        for _ in 0..n {
            run.push(*s.pick(&['a', 'b', ' ', '\n', '\r', 'é', '<', '&', '\n', '\u{b}', '\t', '\x0C', 'c', 'd']));
        }
        let at = s.below(tc.input.chars().count() + 1);
        let cs: Vec<char> = tc.input.chars().collect();
        tc.input = cs[..at].iter().collect::<String>() + &run + &cs[at..].iter().collect::<String>();
    }
    let n = tc.input.chars().count();
    let cuts = chunks::gen_cuts(s, n);
    let ch = chunks::chunk_str(&tc.input, &cuts);
    Case { tok: tc, chunks: ch }
}

pub fn run(ctx: &Ctx) -> Report {
    let mut rep = Report::new(
        "Oracle: for inputs on which html5ever's token stream equals the reference tokenizer's (otherwise the case is C01's and is counted as excluded), every tag, comment and doctype token's line must equal 1 + the number of LF in the newline-normalised prefix the reference had consumed when it emitted that token; the EOF token's line must equal 1 + the line breaks of the whole input; lines never decrease and never exceed that maximum. Search: (1) every string of length <= L over {< a = \" > & - ! LF CR SPACE} from Data under every partition into chunks; (2) every C01 start (24 cold states, ~100 priming prefixes reaching every tokenizer state) + every suffix of length <= 3 over {LF CR a > SPACE \" - ; =}, under every placement of chunk cuts inside the suffix; (3) random token soup with line breaks (LF, CR, CRLF, doubled) inserted at random rates, >=16-byte runs for the SIMD path, random chunkings, default and exact_errors options; (4) forwarding: grammar-generated documents with line breaks parsed by html5ever's tree builder behind a tap that publishes the line of the token being processed - every TreeSink call (parse_error included) must find the last set_current_line value equal to it. Non-trivial: the reference consumed a line feed in a state other than Data; distinct by hash of (case, chunks).",
    );
    rep.assume("line-number expectation is asserted for tag/comment/doctype/EOF tokens only; character and error tokens are bracketed by monotonicity (their emission point involves look-ahead the standard leaves open)");
    report_known(ctx, &mut rep, &|v| replay(&ctx.strict_clone(), v));
    run_regressions(ctx, &mut rep, &|v| replay(&ctx.strict_clone(), v));
    let plain = Policy { kind: PolicyKind::AllContinue, cdata: CdataMode::Never };

    // (1)
    let l = ctx.tier.pick(5usize, 7usize);
    let mut offs = vec![];
    let mut total = 0u64;
    for n in 0..=l {
        offs.push(total);
        total += (SIGMA9.len() as u64).pow(n as u32) * (1u64 << n.saturating_sub(1));
    }
    let out = run_exhaustive(total, |idx, st| {
        let n = (0..=l).rev().find(|&n| idx >= offs[n]).unwrap();
        let k = idx - offs[n];
        let parts = 1u64 << n.saturating_sub(1);
        let w = word_over(SIGMA9, k / parts, n);
        let cs: Vec<char> = w.chars().collect();
        let ch: Vec<String> = chunks::split_mask(&cs, k % parts).into_iter().map(|v| v.into_iter().collect()).collect();
        let c = simple_case(Cold::Data, None, plain.clone(), w, ch);
        check(&c, st).map_err(|what| Failure { case: serde_json::to_value(&c).unwrap(), what })
    });
    rep.absorb(out);

    // (2)
    let sts = c01::starts();
    let l2 = ctx.tier.pick(3usize, 4usize);
    let mut per = 0u64;
    let mut offs2 = vec![];
    for n in 0..=l2 {
        offs2.push(per);
        per += (SUFFIX9.len() as u64).pow(n as u32) * (1u64 << n);
    }
    let total2 = per * sts.len() as u64;
    let out = run_exhaustive(total2, |idx, st| {
        let s = &sts[(idx % sts.len() as u64) as usize];
        let j = idx / sts.len() as u64;
        let n = (0..=l2).rev().find(|&n| j >= offs2[n]).unwrap();
        let k = j - offs2[n];
        let parts = 1u64 << n;
        let suffix = word_over(SUFFIX9, k / parts, n);
        let mask = k % parts;
        // cut before suffix char i iff bit i (bit 0 = the prefix/suffix boundary)
        let mut ch = vec![s.prefix.to_string()];
        for (i, c) in suffix.chars().enumerate() {
            if (mask >> i) & 1 == 1 {
                ch.push(String::new());
            }
            ch.last_mut().unwrap().push(c);
        }
        let input = format!("{}{}", s.prefix, suffix);
        let c = simple_case(s.cold, s.last, s.policy.clone(), input, ch);
        check(&c, st).map_err(|what| Failure { case: serde_json::to_value(&c).unwrap(), what })
    });
    rep.absorb(out);
    rep.extra.insert(
        "exhaustive_parts".into(),
        json!({"from_data": {"alphabet": SIGMA9.len(), "max_len": l, "cases": total},
               "from_every_state": {"starts": sts.len(), "suffix_alphabet": SUFFIX9.len(), "max_suffix": l2, "cases": total2}}),
    );

    // (3)
    let out = run_random(ctx.seed, ctx.tier.pick(2_000_000, 30_000_000), 400, decode_random, check);
    rep.absorb(out);
    // (4) forwarding through the tree builder
    let out = run_random(ctx.seed ^ 0x94, ctx.tier.pick(400_000, 6_000_000), 1500, decode_forwarding, check_forwarding);
    rep.absorb(out);
    rep.need("forwarding: parse errors in an input with line breaks", 1000);
    for s in [
        "LF consumed in BeforeAttrValue",
        "LF consumed in AttrValueDq",
        "LF consumed in Comment",
        "LF consumed in DoctypeName",
        "LF consumed in AfterDoctypeName",
        "LF consumed in Rcdata",
        "LF consumed in ScriptDataEscaped",
        "LF consumed in BeforeAttrName",
        "LF consumed in TagName",
        "LF consumed in CdataSection",
        "chunked",
    ] {
        rep.need(s, 200);
    }
    rep
}

pub fn replay(_ctx: &Ctx, v: &Value) -> Result<(), String> {
    let mut st = Stats::default();
    if v.get("cfg").is_some() {
        // a forwarding case (TreeCase)
        let tc: crate::gen::cases::TreeCase = serde_json::from_value(v.clone()).map_err(|e| format!("bad case: {e}"))?;
        return check_forwarding(&tc, &mut st);
    }
    let case: Case = serde_json::from_value(v.clone()).map_err(|e| format!("bad case: {e}"))?;
    check(&case, &mut st)
}
