//! C13 — BufferQueue behaves as one flat character stream.
//! Model-based stateful test: two queues, each modelled by a flat `String`
//! plus the byte offsets at which a new buffer starts.

use crate::engine::*;
use markup5ever::buffer_queue::{BufferQueue, SetResult};
use markup5ever::SmallCharSet;
use serde::{Deserialize, Serialize};
use serde_json::{json, Value};
use tendril::StrTendril;

#[derive(Serialize, Deserialize, Clone, Debug, Hash)]
pub enum Op {
    PushBack(usize, String),
    PushFront(usize, String),
    Next(usize),
    Peek(usize),
    PopExcept(usize, u64),
    Eat(usize, String, bool),
    /// eat with a caller-supplied comparison: 2 = loose (ASCII case-insensitive and '-', '_', ' '
    /// interchangeable), 3 = letters equal letters and digits equal digits, 4 = nothing equal
    EatWith(usize, String, u8),
    PopFront(usize),
    IsEmpty(usize),
    PeekChunk(usize),
    Swap,
    Replace(usize),
    CloneCheck(usize),
}

#[derive(Serialize, Deserialize, Clone, Debug, Hash)]
pub struct Case {
    pub ops: Vec<Op>,
}

const CHARS: &[char] = &[
    'a', 'b', 'A', 'B', 'x', '<', '>', '&', '/', ' ', '\n', '\r', '\t', '\0', '-', '!', '=', '"', '\'', ';', '#', '?', '@',
    '0', '9', 'é', 'ß', '€', '\u{FEFF}', '😁', '\u{3f}', '\u{40}', '\u{7f}', '\u{80}',
    // byte-value boundaries of UTF-8 (0xBF / 0xC0 / 0xFF tails) next to the bitmap's edge (63, 64)
    '¿', 'ÿ', 'À', '\u{13F}', '\u{7FF}', '\u{800}', '\u{FFF}', '\u{FFFF}', '\u{3FFFF}', '\u{10FFFF}', '>', '?', '@', '\u{1}', '\u{3e}',
];
/// characters whose bytes are all >= 64 (never in a SmallCharSet)
const HIGH: &[char] = &['a', 'z', 'A', '@', '_', '~', '\u{7f}', 'é', '¿', 'ÿ', '漢', '\u{FFFF}', '😁', '\u{13F}'];
const LENS: &[usize] = &[
    7, 8, 9, 15, 16, 17, 23, 24, 31, 32, 33, 47, 63, 64, 65, 71, 72, 73, 79, 80, 127, 128, 129, 255, 256, 257, 1022, 1023, 1024, 4093, 4094, 4095,
    4096, 4097, 8190, 8191, 8192, 16383, 65534, 65535, 65536,
];

fn gen_string(s: &mut Src, maxlen: usize) -> String {
    // sometimes a fragment of a keyword so that eat() can match across buffers
    if s.chance(70) {
        let pat: Vec<char> = s.pick(PATS).chars().collect();
        let a = s.below(pat.len() + 1);
        let b = s.range(a, pat.len());
        let mut out: String = pat[a..b].iter().collect();
        if s.chance(60) {
            out = out.to_ascii_uppercase();
        }
        if s.chance(60) {
            out.push(s.char_from(CHARS));
        }
        return out;
    }
    if s.chance(24) {
        // a long run (byte length at / around a stride or threshold) of characters that are in no
        // set, with 0-2 arbitrary characters placed anywhere (usually near the end)
        let target = *s.pick(LENS) + s.below(3);
        let fill = s.char_from(HIGH);
        let mixed = s.bool();
        let mut out = String::new();
        while out.len() < target {
            out.push(if mixed { s.char_from(HIGH) } else { fill });
        }
        for _ in 0..s.below(3) {
            let c = s.char_from(CHARS);
            let cs: Vec<char> = out.chars().collect();
            let at = if s.chance(180) { cs.len() - s.below(cs.len().min(9)) } else { s.below(cs.len() + 1) };
            out = cs[..at].iter().chain(std::iter::once(&c)).chain(cs[at..].iter()).collect();
        }
        return out;
    }
    let n = s.len(maxlen);
    let mut out = String::new();
    for _ in 0..n {
        out.push(s.char_from(CHARS));
    }
    out
}

const PATS: &[&str] = &[
    "--", "doctype", "DOCTYPE", "[CDATA[", "public", "system", "ab", "a", "aB", "é", "ßa", "a€", "<a", "\n", "-", "x😁",
];

fn gen_set(s: &mut Src) -> u64 {
    // the sets the tokenizers use, or random bits
    match s.below(8) {
        6 => (1 << b'?') | (1 << b'&') | (1 << b'<'),
        7 => (1u64 << 63) | 1 | ((s.u32() as u64) << 16),
        0 => (1 << b'\r') | (1 << 0) | (1 << b'&') | (1 << b'<') | (1 << b'\n'),
        1 => (1 << b'\r') | (1 << 0) | (1 << b'-') | (1 << b'<') | (1 << b'\n'),
        2 => (1 << b'\r') | (1 << 0) | (1 << b'"') | (1 << b'&') | (1 << b'\n'),
        3 => 0,
        4 => u64::MAX,
        _ => (s.u32() as u64) | ((s.u32() as u64) << 32),
    }
}

pub fn decode(s: &mut Src) -> Case {
    let n = s.range(1, 40);
    let mut ops = vec![];
    for _ in 0..n {
        let q = if s.chance(40) { 1 } else { 0 };
        let w = s.weighted(&[20, 8, 12, 6, 16, 16, 3, 3, 3, 2, 2, 3, 6]);
        if w == 12 {
            // macro: place a keyword at the front of the queue in 2-3 pieces, then eat it
            let pat: Vec<char> = s.pick(PATS).chars().collect();
            let ci = s.bool();
            let a = s.below(pat.len() + 1);
            let b = s.range(a, pat.len());
            let keep = s.range(b, pat.len()); // possibly truncated -> need-more
            let conv = |cs: &[char], up: bool| -> String {
                let t: String = cs.iter().collect();
                if up { t.to_ascii_uppercase() } else { t }
            };
            let up = ci && s.bool();
            ops.push(Op::PushFront(q, conv(&pat[b..keep], up)));
            ops.push(Op::PushFront(q, conv(&pat[a..b], false)));
            ops.push(Op::PushFront(q, conv(&pat[..a], up)));
            ops.push(Op::Eat(q, pat.iter().collect(), ci));
            continue;
        }
        if w == 0 && s.chance(12) {
            // many buffers queued at once (the queue's container grows), most of them read again
            let k = *s.pick(&[15usize, 16, 17, 18, 31, 32, 33, 40]);
            for _ in 0..k {
                ops.push(Op::PushBack(q, gen_string(s, 2)));
            }
            for _ in 0..s.below(k + 3) {
                ops.push(if s.bool() { Op::Next(q) } else { Op::PopFront(q) });
            }
            ops.push(s.pick(&[Op::Replace(q), Op::Replace(1 - q), Op::Swap, Op::CloneCheck(q)]).clone());
            continue;
        }
        let op = match w {
            0 => Op::PushBack(q, gen_string(s, 20)),
            1 => Op::PushFront(q, gen_string(s, 12)),
            2 => Op::Next(q),
            3 => Op::Peek(q),
            4 => Op::PopExcept(q, gen_set(s)),
            5 => {
                let pat = if s.chance(160) {
                    s.pick(PATS).to_string()
                } else {
                    let mut p = gen_string(s, 5);
                    if p.is_empty() {
                        p.push('a');
                    }
                    p
                };
                if s.chance(60) {
                    let pat = pat.replace('-', if s.bool() { "_" } else { " " });
                    Op::EatWith(q, pat, 2 + s.below(3) as u8)
                } else {
                    Op::Eat(q, pat, s.bool())
                }
            },
            6 => Op::PopFront(q),
            7 => Op::IsEmpty(q),
            8 => Op::PeekChunk(q),
            9 => Op::Swap,
            10 => Op::Replace(q),
            _ => Op::CloneCheck(q),
        };
        ops.push(op);
    }
    Case { ops }
}

fn eq_loose(a: &u8, b: &u8) -> bool {
    let n = |c: u8| if matches!(c, b'-' | b'_' | b' ') { b'-' } else { c.to_ascii_lowercase() };
    n(*a) == n(*b)
}
/// any two ASCII letters are equal, any two ASCII digits are equal (a comparison must not equate
/// bytes of different UTF-8 roles, or a match would end inside a character)
fn eq_class(a: &u8, b: &u8) -> bool {
    (a.is_ascii_alphabetic() && b.is_ascii_alphabetic()) || (a.is_ascii_digit() && b.is_ascii_digit()) || a == b
}
fn eq_none(_: &u8, _: &u8) -> bool {
    false
}
fn eq_of(kind: u8) -> fn(&u8, &u8) -> bool {
    match kind {
        0 => u8::eq,
        1 => u8::eq_ignore_ascii_case,
        2 => eq_loose,
        3 => eq_class,
        _ => eq_none,
    }
}

#[derive(Default, Clone)]
struct Model {
    flat: String,
    /// byte offsets (0 < o < flat.len()) at which a new buffer starts
    joins: Vec<usize>,
}

impl Model {
    fn consume(&mut self, n: usize) {
        self.flat.drain(..n);
        self.joins = self
            .joins
            .iter()
            .filter(|&&j| j > n)
            .map(|&j| j - n)
            .collect();
    }
    fn first_buf_len(&self) -> usize {
        self.joins.first().copied().unwrap_or(self.flat.len())
    }
    fn push_back(&mut self, s: &str) {
        if s.is_empty() {
            return;
        }
        if !self.flat.is_empty() {
            self.joins.push(self.flat.len());
        }
        self.flat.push_str(s);
    }
    fn push_front(&mut self, s: &str) {
        if s.is_empty() {
            return;
        }
        let had = !self.flat.is_empty();
        for j in self.joins.iter_mut() {
            *j += s.len();
        }
        if had {
            self.joins.insert(0, s.len());
        }
        self.flat.insert_str(0, s);
    }
}

fn member(bits: u64, c: char) -> bool {
    (c as u32) < 64 && (bits >> (c as u32)) & 1 == 1
}

/// Execute the history; Err on the first divergence.
pub fn oracle(case: &Case, st: &mut Stats) -> Result<(), String> {
    st.eval();
    let qs = [BufferQueue::default(), BufferQueue::default()];
    let mut ms = [Model::default(), Model::default()];
    let mut eat_span = false;
    let mut stop_at_join = false;
    let mut eat_none = false;
    for (i, op) in case.ops.iter().enumerate() {
        let fail = |m: String| Err(format!("op #{i} {op:?}: {m}"));
        match op {
            Op::PushBack(q, s) => {
                qs[*q].push_back(StrTendril::from(s.as_str()));
                ms[*q].push_back(s);
            },
            Op::PushFront(q, s) => {
                qs[*q].push_front(StrTendril::from(s.as_str()));
                ms[*q].push_front(s);
            },
            Op::Next(q) => {
                let got = qs[*q].next();
                let exp = ms[*q].flat.chars().next();
                if got != exp {
                    return fail(format!("next() = {got:?}, model {exp:?}"));
                }
                if let Some(c) = exp {
                    ms[*q].consume(c.len_utf8());
                }
            },
            Op::Peek(q) => {
                let got = qs[*q].peek();
                let exp = ms[*q].flat.chars().next();
                if got != exp {
                    return fail(format!("peek() = {got:?}, model {exp:?}"));
                }
            },
            Op::PopExcept(q, bits) => {
                let got = qs[*q].pop_except_from(SmallCharSet { bits: *bits });
                let m = &mut ms[*q];
                match m.flat.chars().next() {
                    None => {
                        if got.is_some() {
                            return fail(format!("pop_except_from on empty queue = {got:?}"));
                        }
                    },
                    Some(c) if member(*bits, c) => {
                        if got != Some(SetResult::FromSet(c)) {
                            return fail(format!("expected FromSet({c:?}), got {got:?}"));
                        }
                        m.consume(c.len_utf8());
                    },
                    Some(_) => {
                        // maximal run of non-members within the first buffer
                        let fb = m.first_buf_len();
                        let mut n = 0;
                        for c in m.flat[..fb].chars() {
                            if member(*bits, c) {
                                break;
                            }
                            n += c.len_utf8();
                        }
                        let exp = m.flat[..n].to_string();
                        match got {
                            Some(SetResult::NotFromSet(t)) if &*t == exp.as_str() => {},
                            other => {
                                return fail(format!("expected NotFromSet({exp:?}), got {other:?}"))
                            },
                        }
                        if n == fb && m.flat.len() > fb {
                            stop_at_join = true;
                        }
                        m.consume(n);
                    },
                }
            },
            Op::Eat(..) | Op::EatWith(..) => {
                let (q, pat, kind) = match op {
                    Op::Eat(q, pat, ci) => (q, pat, if *ci { 1u8 } else { 0u8 }),
                    Op::EatWith(q, pat, k) => (q, pat, *k),
                    _ => unreachable!(),
                };
                let eqf = eq_of(kind);
                let got = qs[*q].eat(pat, eqf);
                let m = &mut ms[*q];
                let fb = m.first_buf_len();
                let mb = m.flat.as_bytes();
                let pb = pat.as_bytes();
                let mut exp = None;
                let mut matched = true;
                for k in 0..pb.len() {
                    if k >= mb.len() {
                        matched = false;
                        exp = None;
                        break;
                    }
                    let eq = eqf(&mb[k], &pb[k]);
                    if !eq {
                        matched = false;
                        exp = Some(false);
                        break;
                    }
                }
                if matched {
                    exp = Some(true);
                }
                if m.flat.is_empty() {
                    exp = None;
                }
                if got != exp {
                    return fail(format!("eat = {got:?}, model {exp:?} (queue {:?})", m.flat));
                }
                if exp == Some(true) {
                    if pb.len() > fb {
                        eat_span = true;
                    }
                    m.consume(pb.len());
                } else if exp.is_none() && !m.flat.is_empty() {
                    eat_none = true;
                }
            },
            Op::PopFront(q) => {
                let got = qs[*q].pop_front().map(|t| t.to_string());
                let m = &mut ms[*q];
                let exp = if m.flat.is_empty() {
                    None
                } else {
                    Some(m.flat[..m.first_buf_len()].to_string())
                };
                if got != exp {
                    return fail(format!("pop_front = {got:?}, model {exp:?}"));
                }
                if let Some(e) = exp {
                    m.consume(e.len());
                }
            },
            Op::IsEmpty(q) => {
                if qs[*q].is_empty() != ms[*q].flat.is_empty() {
                    return fail(format!("is_empty = {}", qs[*q].is_empty()));
                }
            },
            Op::PeekChunk(q) => {
                let got = qs[*q].peek_front_chunk_mut().map(|t| t.to_string());
                let m = &ms[*q];
                let exp = if m.flat.is_empty() {
                    None
                } else {
                    Some(m.flat[..m.first_buf_len()].to_string())
                };
                if got != exp {
                    return fail(format!("peek_front_chunk_mut = {got:?}, model {exp:?}"));
                }
            },
            Op::Swap => {
                qs[0].swap_with(&qs[1]);
                ms.swap(0, 1);
            },
            Op::Replace(q) => {
                // qs[q] takes the contents of the other queue, which becomes empty
                let o = 1 - *q;
                let taken = BufferQueue::default();
                taken.swap_with(&qs[o]);
                qs[*q].replace_with(taken);
                ms[*q] = std::mem::take(&mut ms[o]);
            },
            Op::CloneCheck(q) => {
                // draining a clone yields the model and leaves the original untouched
                let c = qs[*q].clone();
                let mut s = String::new();
                while let Some(ch) = c.next() {
                    s.push(ch);
                }
                if s != ms[*q].flat {
                    return fail(format!("drained clone {s:?} != model {:?}", ms[*q].flat));
                }
            },
        }
    }
    // final drain of both queues
    for q in 0..2 {
        let mut s = String::new();
        while let Some(t) = qs[q].pop_front() {
            s.push_str(&t);
        }
        if s != ms[q].flat {
            return Err(format!("final drain of queue {q}: {s:?} != model {:?}", ms[q].flat));
        }
    }
    if eat_span {
        st.label("eat matched across >=2 buffers");
    }
    if stop_at_join {
        st.label("pop_except_from stopped at a buffer join");
    }
    if eat_none {
        st.label("eat answered need-more on a non-empty queue");
    }
    if eat_span || stop_at_join {
        st.nontrivial(hash64(case), || serde_json::to_value(case).unwrap());
    }
    Ok(())
}

pub fn run(ctx: &Ctx) -> Report {
    let mut rep = Report::new(
        "histories of 1..40 BufferQueue operations on two queues (push_back/push_front/next/peek/pop_except_from/eat/pop_front/is_empty/peek_front_chunk_mut/swap_with/replace_with/clone) decoded from proptest-generated choice bytes; strings over 34 characters incl. multi-byte and <64 set members; each call's return value compared with a flat-String model that tracks buffer joins. Non-trivial: the history contains an eat() matching across >=2 buffers or a pop_except_from() run that stops at a buffer join; distinct by hash of the op list.",
    );
    rep.assume("empty eat() patterns are outside the documented use and are not generated");
    rep.need("eat matched across >=2 buffers", 50);
    rep.need("pop_except_from stopped at a buffer join", 50);
    run_regressions(ctx, &mut rep, &|v| replay(&ctx.strict_clone(), v));
    let cases = ctx.tier.pick(20_000_000, 200_000_000);
    let out = run_random(ctx.seed, cases, 600, decode, oracle);
    rep.absorb(out);
    rep
}

pub fn replay(_ctx: &Ctx, v: &Value) -> Result<(), String> {
    let case: Case = serde_json::from_value(v.clone()).map_err(|e| format!("bad case: {e}"))?;
    let mut st = Stats::default();
    oracle(&case, &mut st)
}

#[allow(dead_code)]
fn _unused() -> Value {
    json!(null)
}
