//! C08 — diagnostic and housekeeping options never change what is parsed.

use crate::engine::*;
use crate::gen::cases::TreeCase;
use crate::gen::{chunks, html as ghtml, xml as gxml};
use crate::sinks::canon::{first_diff, CanonOpts};
use crate::sinks::drive::{drive, drive_xml, quirks_name, TreeCfg, XmlCfg};
use crate::sinks::model::{model_canon, ModelDom, DOC};
use crate::sinks::tokrec::*;
use crate::sinks::xmlrec::{run_xml_tokens, xnorm};
use html5ever::tokenizer::{BufferQueue, Tokenizer, TokenizerOpts};
use markup5ever::TokenizerResult;
use serde::{Deserialize, Serialize};
use serde_json::Value;
use tendril::StrTendril;

#[derive(Serialize, Deserialize, Clone, Debug, Hash, PartialEq, Eq)]
pub enum Case {
    /// HTML tokenizer + tree builder
    Html(TreeCase),
    Xml { chunks: Vec<String> },
}

fn html_tokens(chunks_: &[String], exact: bool, bom: bool, profile: bool) -> Vec<NTok> {
    let opts = TokenizerOpts { exact_errors: exact, discard_bom: bom, profile, initial_state: None, last_start_tag_name: None };
    let tok = Tokenizer::new(RealSink::new(&Policy::html_like()), opts);
    let q = BufferQueue::default();
    for c in chunks_ {
        q.push_back(StrTendril::from(c.as_str()));
        while !matches!(tok.feed(&q), TokenizerResult::Done) {}
    }
    tok.end();
    let r = toks_only(&strip_errors(&tok.sink.raw.borrow()));
    r
}

thread_local! {
    /// feed() results (Done / Script / Encoding:label) of the latest html_tree() run
    static LAST_RESULTS: std::cell::RefCell<Vec<String>> = const { std::cell::RefCell::new(Vec::new()) };
}

fn html_tree(cfg: &TreeCfg, chunks_: &[String]) -> (String, String, &'static str) {
    let (dom, results, _) = drive(ModelDom::for_cfg(cfg), cfg, chunks_, |_, _, _, _| {});
    LAST_RESULTS.with(|r| *r.borrow_mut() = results);
    let with_dt = model_canon(&dom, DOC, CanonOpts::default());
    let without = model_canon(&dom, DOC, CanonOpts { doctype: false, ..CanonOpts::default() });
    (with_dt, without, quirks_name(dom.quirks.get()))
}

fn strip_one_bom(chunks_: &[String]) -> Vec<String> {
    // remove the very first character of the stream if it is U+FEFF
    let mut out = chunks_.to_vec();
    for c in out.iter_mut() {
        if c.is_empty() {
            continue;
        }
        if c.starts_with('\u{feff}') {
            *c = c['\u{feff}'.len_utf8()..].to_string();
        }
        break;
    }
    out
}

pub fn check(case: &Case, st: &mut Stats) -> Result<(), String> {
    st.eval();
    match case {
        Case::Html(tc) => {
            let ch = &tc.chunks;
            // token level
            let base = html_tokens(ch, false, false, false);
            for (exact, profile) in [(true, false), (false, true), (true, true)] {
                let v = html_tokens(ch, exact, false, profile);
                if v != base {
                    let n = base.iter().zip(v.iter()).take_while(|(a, b)| a == b).count();
                    return Err(format!(
                        "HTML tokens change with exact_errors={exact} profile={profile} at token #{n}: default {:?} vs {:?}",
                        base.get(n),
                        v.get(n)
                    ));
                }
            }
            let with_bom_opt = html_tokens(ch, false, true, false);
            let stripped = html_tokens(&strip_one_bom(ch), false, false, false);
            if with_bom_opt != stripped {
                return Err("discard_bom=true differs from discard_bom=false on the input minus one leading U+FEFF (tokens)".into());
            }
            // tree level
            let mut cfg = tc.cfg.clone();
            cfg.tok_exact_errors = false;
            cfg.tb_exact_errors = false;
            cfg.profile = false;
            cfg.drop_doctype = false;
            cfg.discard_bom = false;
            let (t0, t0_nodt, q0) = html_tree(&cfg, ch);
            let r0 = LAST_RESULTS.with(|r| r.borrow().clone());
            if r0.iter().any(|r| r != "Done") {
                st.label("feed() suspended (script / encoding indicator)");
            }
            for (te, be, pr) in [(true, false, false), (false, true, false), (true, true, true), (false, false, true)] {
                let mut c2 = cfg.clone();
                c2.tok_exact_errors = te;
                c2.tb_exact_errors = be;
                c2.profile = pr;
                let (t, _, q) = html_tree(&c2, ch);
                let r = LAST_RESULTS.with(|r| r.borrow().clone());
                if r != r0 {
                    return Err(format!(
                        "the sequence of feed() results changes with tokenizer.exact_errors={te} tree_builder.exact_errors={be} profile={pr}: {r0:?} vs {r:?}"
                    ));
                }
                if t != t0 || q != q0 {
                    return Err(format!(
                        "HTML tree changes with tokenizer.exact_errors={te} tree_builder.exact_errors={be} profile={pr}: {} (quirks {q0} vs {q})",
                        first_diff(&t0, &t)
                    ));
                }
            }
            let mut c3 = cfg.clone();
            c3.drop_doctype = true;
            let (t3, t3_nodt, q3) = html_tree(&c3, ch);
            if t3_nodt != t0_nodt || q3 != q0 {
                return Err(format!(
                    "drop_doctype changes more than the doctype node: {} (quirks {q0} vs {q3})",
                    first_diff(&t0_nodt, &t3_nodt)
                ));
            }
            let has_doctype = |t: &str| t.lines().any(|l| l.split_once('|').map(|(_, r)| r.starts_with("<!DOCTYPE ")).unwrap_or(false));
            if has_doctype(&t3) {
                return Err("drop_doctype=true still appended a doctype".into());
            }
            let mut c4 = cfg.clone();
            c4.discard_bom = true;
            let (t4, _, q4) = html_tree(&c4, ch);
            let (t5, _, q5) = html_tree(&cfg, &strip_one_bom(ch));
            if t4 != t5 || q4 != q5 {
                return Err(format!(
                    "discard_bom=true differs from discard_bom=false on the input minus one leading U+FEFF (tree): {}",
                    first_diff(&t4, &t5)
                ));
            }
            // classes
            let mut nt = false;
            // a run of >=16 bytes without a special character, starting at a chunk's front buffer
            for c in ch {
                let mut run = 0;
                for b in c.bytes() {
                    if matches!(b, b'<' | b'&' | b'\r' | b'\0') {
                        run = 0;
                    } else {
                        run += 1;
                        if run >= 16 {
                            break;
                        }
                    }
                }
                if run >= 16 {
                    st.label("text run >= 16 bytes (SIMD path vs scalar path)");
                    nt = true;
                    break;
                }
            }
            if tc.input.contains('\u{feff}') {
                st.label("input contains U+FEFF");
                nt = true;
                if tc.input.starts_with('\u{feff}') {
                    st.label("input starts with U+FEFF");
                }
            }
            if has_doctype(&t0) {
                st.label("doctype in tree");
                nt = true;
            }
            if nt {
                st.nontrivial(hash64(case), || serde_json::to_value(case).unwrap());
            }
        },
        Case::Xml { chunks: ch } => {
            let (b, eof, after, _) = run_xml_tokens(ch, false, false, false);
            let base = xnorm(&b);
            if eof != 1 || after != 0 {
                return Err(format!("xml tokenizer delivered {eof} EOF tokens, {after} tokens after EOF"));
            }
            for (exact, profile) in [(true, false), (false, true)] {
                let (v, _, _, _) = run_xml_tokens(ch, exact, false, profile);
                let v = xnorm(&v);
                if v != base {
                    let n = base.iter().zip(v.iter()).take_while(|(a, b)| a == b).count();
                    return Err(format!(
                        "XML tokens change with exact_errors={exact} profile={profile} at token #{n}: default {:?} vs {:?}",
                        base.get(n),
                        v.get(n)
                    ));
                }
            }
            let (v, _, _, _) = run_xml_tokens(ch, false, true, false);
            let (w, _, _, _) = run_xml_tokens(&strip_one_bom(ch), false, false, false);
            if xnorm(&v) != xnorm(&w) {
                return Err("xml: discard_bom=true differs from discard_bom=false on the input minus one leading U+FEFF".into());
            }
            // tree level
            let tree = |cfg: &XmlCfg, ch: &[String]| {
                let (dom, _) = drive_xml(ModelDom::new(), cfg, ch, |_, _| {});
                model_canon(&dom, DOC, CanonOpts::default())
            };
            let t0 = tree(&XmlCfg { exact_errors: false, discard_bom: false, profile: false }, ch);
            let t1 = tree(&XmlCfg { exact_errors: true, discard_bom: false, profile: true }, ch);
            if t0 != t1 {
                return Err(format!("XML tree changes with exact_errors/profile: {}", first_diff(&t0, &t1)));
            }
            let all: String = ch.concat();
            if all.contains('\r') || all.contains('\0') || all.contains('\u{feff}') || all.contains('&') {
                st.label("xml: CR/NUL/BOM/reference present");
                st.nontrivial(hash64(case), || serde_json::to_value(case).unwrap());
            }
        },
    }
    Ok(())
}

/// text run with a special character at a chosen offset (mod 16)
fn simd_text(s: &mut Src) -> String {
    let n = s.range(1, 80);
    let mut out = String::new();
    let special_at = s.below(n);
    for i in 0..n {
        if i == special_at && s.chance(200) {
            out.push(*s.pick(&['<', '&', '\r', '\0', '\n', 'é', '😁']));
        } else if s.chance(20) {
            out.push(*s.pick(&['\n', 'é', ' ', '\r', '\0']));
        } else {
            out.push(*s.pick(&['a', 'b', ' ', 'x']));
        }
    }
    out
}

pub fn decode(s: &mut Src) -> Case {
    if s.chance(64) {
        let text = if s.chance(128) { gxml::gen_xml(s, 10).text } else { gxml::gen_xml_noisy(s, 10) };
        let text = if s.chance(40) { format!("\u{feff}{text}") } else { text };
        let cuts = chunks::gen_cuts(s, text.chars().count());
        return Case::Xml { chunks: chunks::chunk_str(&text, &cuts) };
    }
    let mut tc = crate::gen::cases::gen_tree_case(s, true, 24);
    let mut input = String::new();
    if s.chance(60) {
        input.push('\u{feff}');
        if s.chance(60) {
            input.push('\u{feff}');
        }
    }
    if s.chance(128) {
        input.push_str(&simd_text(s));
    }
    input.push_str(&tc.input);
    if s.chance(128) {
        input.push_str(&simd_text(s));
        input.push_str(*s.pick(&["", "<b>", "&amp;", "</p>"]));
        input.push_str(&simd_text(s));
    }
    let _ = ghtml::TOK_FRAGMENTS;
    // U+FEFF right after a tag (anywhere in the stream, in particular where the parser resumes
    // after a suspension): must never be dropped
    for _ in 0..s.below(3) {
        let gts: Vec<usize> = input.char_indices().filter(|(_, c)| *c == '>').map(|(i, _)| i + 1).collect();
        if gts.is_empty() {
            break;
        }
        let at = gts[s.below(gts.len())];
        input.insert(at, '\u{feff}');
    }
    if s.chance(40) {
        // declarations that suspend the parser, followed by U+FEFF
        let m = *s.pick(&["<meta charset=utf-8>\u{feff}", "<meta http-equiv=content-type content='text/html; charset=x'>\u{feff}y", "<script></script>\u{feff}"]);
        let at = s.below(input.chars().count() + 1);
        let cs: Vec<char> = input.chars().collect();
        input = cs[..at].iter().collect::<String>() + m + &cs[at..].iter().collect::<String>();
    }
    tc.input = input;
    let n = tc.input.chars().count();
    let cuts = chunks::gen_cuts(s, n);
    tc.chunks = chunks::chunk_str(&tc.input, &cuts);
    Case::Html(tc)
}

pub fn run(ctx: &Ctx) -> Report {
    let mut rep = Report::new(
        "Metamorphic, same input and feed schedule: HTML tokens (minus ParseError) and trees (ModelDom dump + quirks mode) under tokenizer.exact_errors x tree_builder.exact_errors x profile are identical; XML tokens and trees under exact_errors x profile are identical; discard_bom: run(true, x) == run(false, x minus one leading U+FEFF) at token and tree level; drop_doctype: tree equals the other tree minus the doctype node, same quirks mode. exact_errors=true forces the scalar path of the data state, the default takes the SSE2 loop, so this is also the SIMD==scalar oracle: inputs carry text runs of 1..80 bytes with < & CR NUL LF and multi-byte characters at every offset. Inputs: grammar-generated HTML documents/fragments (+BOM prefixes, +text runs) and generated XML, random chunkings. profile=true output is kept off stdout by redirecting fd 1 for the duration of the run. Non-trivial: a text run >= 16 bytes without a special character (the two runs took different code paths), or U+FEFF in the input, or a doctype in the tree (HTML); CR/NUL/BOM/reference present (XML); distinct by case hash.",
    );
    report_known(ctx, &mut rep, &|v| replay(&ctx.strict_clone(), v));
    run_regressions(ctx, &mut rep, &|v| replay(&ctx.strict_clone(), v));
    let out = with_stdout_silenced(|| run_random(ctx.seed, ctx.tier.pick(300_000, 5_000_000), 1500, decode, check));
    rep.absorb(out);
    for l in [
        "text run >= 16 bytes (SIMD path vs scalar path)",
        "input starts with U+FEFF",
        "doctype in tree",
        "xml: CR/NUL/BOM/reference present",
    ] {
        rep.need(l, 200);
    }
    rep
}

pub fn replay(_ctx: &Ctx, v: &Value) -> Result<(), String> {
    let case: Case = serde_json::from_value(v.clone()).map_err(|e| format!("bad case: {e}"))?;
    let mut st = Stats::default();
    with_stdout_silenced(|| check(&case, &mut st))
}
