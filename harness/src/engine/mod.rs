//! Common machinery: seeds, runners (random via proptest byte strategies,
//! bounded-exhaustive), statistics, known findings, replay files, evidence.

use std::collections::{BTreeMap, HashSet};
use std::hash::{Hash, Hasher};
use std::path::PathBuf;
use std::sync::atomic::{AtomicBool, AtomicU64, Ordering};
use std::sync::Mutex;
use std::time::Instant;

use serde_json::{json, Value};

pub mod alloc;
pub mod src;
pub use src::Src;

pub const THREADS: usize = 16;

#[derive(Clone, Copy, PartialEq, Eq, Debug)]
pub enum Tier {
    Quick,
    Thorough,
}

impl Tier {
    pub fn name(self) -> &'static str {
        match self {
            Tier::Quick => "quick",
            Tier::Thorough => "thorough",
        }
    }
    /// Pick a work size by tier.
    pub fn pick<T>(self, q: T, t: T) -> T {
        match self {
            Tier::Quick => q,
            Tier::Thorough => t,
        }
    }
}

pub fn verif_root() -> PathBuf {
    if let Ok(r) = std::env::var("VERIF_ROOT") {
        return PathBuf::from(r);
    }
    let mut p = PathBuf::from(env!("CARGO_MANIFEST_DIR"));
    p.pop();
    p
}

pub fn hash64<T: Hash + ?Sized>(t: &T) -> u64 {
    // FNV-1a through the std Hasher interface; stable across runs (no RandomState).
    struct Fnv(u64);
    impl Hasher for Fnv {
        fn finish(&self) -> u64 {
            self.0
        }
        fn write(&mut self, bytes: &[u8]) {
            for b in bytes {
                self.0 ^= *b as u64;
                self.0 = self.0.wrapping_mul(0x100000001b3);
            }
        }
    }
    let mut h = Fnv(0xcbf29ce484222325);
    t.hash(&mut h);
    h.finish()
}

// ---------------------------------------------------------------------------
// Statistics

const MAX_SAMPLES: usize = 6;

#[derive(Default)]
pub struct Stats {
    pub evals: u64,
    pub nontrivial: HashSet<u64>,
    pub labels: BTreeMap<String, u64>,
    pub excluded: BTreeMap<String, u64>,
    pub samples: Vec<Value>,
    /// set while proptest is shrinking a failure: stop counting
    pub frozen: bool,
}

impl Stats {
    pub fn eval(&mut self) {
        if !self.frozen {
            self.evals += 1;
        }
    }
    pub fn label(&mut self, l: &str) {
        if !self.frozen {
            *self.labels.entry(l.to_string()).or_insert(0) += 1;
        }
    }
    pub fn label_n(&mut self, l: &str, n: u64) {
        if !self.frozen && n > 0 {
            *self.labels.entry(l.to_string()).or_insert(0) += n;
        }
    }
    pub fn exclude(&mut self, l: &str) {
        if !self.frozen {
            *self.excluded.entry(l.to_string()).or_insert(0) += 1;
        }
    }
    /// Record a non-trivial case by its hash; `sample` is only evaluated for the
    /// first few.
    pub fn nontrivial(&mut self, h: u64, sample: impl FnOnce() -> Value) {
        if self.frozen {
            return;
        }
        if self.nontrivial.insert(h) {
            let n = self.nontrivial.len();
            // keep the 1st, 2nd, then exponentially spaced ones
            if self.samples.len() < MAX_SAMPLES && (n <= 2 || n.is_power_of_two() && n >= 64) {
                self.samples.push(sample());
            }
        }
    }
    pub fn merge(&mut self, o: Stats) {
        self.evals += o.evals;
        self.nontrivial.extend(o.nontrivial);
        for (k, v) in o.labels {
            *self.labels.entry(k).or_insert(0) += v;
        }
        for (k, v) in o.excluded {
            *self.excluded.entry(k).or_insert(0) += v;
        }
        for s in o.samples {
            if self.samples.len() < MAX_SAMPLES * 2 {
                self.samples.push(s);
            }
        }
    }
}

#[derive(Clone, Debug)]
pub struct Failure {
    pub case: Value,
    pub what: String,
}

// ---------------------------------------------------------------------------
// Panic capture

/// Property id of the running check (for the watchdog's INCONCLUSIVE line).
pub static CURRENT_PROP: std::sync::OnceLock<String> = std::sync::OnceLock::new();

/// Seconds a single generated case may run before the watchdog gives up (exit 2, never a
/// violation: only C04 decides non-termination, and it does so with a step budget).
fn hang_secs() -> u64 {
    std::env::var("HV_HANG_SECS").ok().and_then(|v| v.parse().ok()).unwrap_or(300)
}

thread_local! {
    static LAST_PANIC: std::cell::RefCell<Option<String>> = const { std::cell::RefCell::new(None) };
    static QUIET: std::cell::Cell<bool> = const { std::cell::Cell::new(false) };
}

pub fn install_panic_hook() {
    let default = std::panic::take_hook();
    std::panic::set_hook(Box::new(move |info| {
        let msg = if let Some(s) = info.payload().downcast_ref::<&str>() {
            s.to_string()
        } else if let Some(s) = info.payload().downcast_ref::<String>() {
            s.clone()
        } else {
            "<non-string panic>".to_string()
        };
        let loc = info
            .location()
            .map(|l| format!("{}:{}", l.file(), l.line()))
            .unwrap_or_default();
        if QUIET.with(|q| q.get()) {
            let bt = if std::env::var_os("HV_BT").is_some() {
                // triage aid: HV_BT=1 appends the frames inside the repository crates
                let b = std::backtrace::Backtrace::force_capture().to_string();
                let keep: Vec<&str> = b.lines().filter(|l| l.contains("/repo/")).take(14).collect();
                format!("\n{}", keep.join("\n"))
            } else {
                String::new()
            };
            LAST_PANIC.with(|p| *p.borrow_mut() = Some(format!("{msg} @ {loc}{bt}")));
        } else {
            default(info);
        }
    }));
}

/// Run `f`, turning a panic into `Err("panic: ...")`.
pub fn guarded<T>(f: impl FnOnce() -> T) -> Result<T, String> {
    let prev = QUIET.with(|q| q.replace(true));
    let r = std::panic::catch_unwind(std::panic::AssertUnwindSafe(f));
    QUIET.with(|q| q.set(prev));
    match r {
        Ok(v) => Ok(v),
        Err(_) => {
            let m = LAST_PANIC
                .with(|p| p.borrow_mut().take())
                .unwrap_or_else(|| "<unknown>".into());
            Err(format!("panic: {m}"))
        },
    }
}

// ---------------------------------------------------------------------------
// Known findings

#[derive(Clone, Debug)]
pub struct Finding {
    pub id: String,
    pub property: String,
    pub summary: String,
    pub replay: Option<String>,
}

#[derive(Clone, Debug, Default)]
pub struct KnownFindings {
    pub known: Vec<Finding>,
    pub fixed: Vec<String>,
}

impl KnownFindings {
    pub fn load() -> KnownFindings {
        let p = verif_root().join("known_findings.json");
        let mut kf = KnownFindings::default();
        let Ok(txt) = std::fs::read_to_string(&p) else {
            return kf;
        };
        let v: Value = serde_json::from_str(&txt).expect("known_findings.json must be valid JSON");
        for f in v["findings"].as_array().cloned().unwrap_or_default() {
            kf.known.push(Finding {
                id: f["id"].as_str().unwrap_or("").to_string(),
                property: f["property"].as_str().unwrap_or("").to_string(),
                summary: f["summary"].as_str().unwrap_or("").to_string(),
                replay: f["replay"].as_str().map(|s| s.to_string()),
            });
        }
        for f in v["fixed"].as_array().cloned().unwrap_or_default() {
            if let Some(s) = f.as_str() {
                kf.fixed.push(s.to_string());
            }
        }
        kf
    }
    pub fn has(&self, id: &str) -> bool {
        self.known.iter().any(|f| f.id == id)
    }
    pub fn for_property(&self, prop: &str) -> Vec<Finding> {
        self.known
            .iter()
            .filter(|f| f.property == prop)
            .cloned()
            .collect()
    }
}

// ---------------------------------------------------------------------------
// Context and report

pub struct Ctx {
    pub id: String,
    pub tier: Tier,
    pub seed: u64,
    pub kf: KnownFindings,
    pub start: Instant,
    /// strict: tolerate no known finding (used when replaying)
    pub strict: bool,
}

impl Ctx {
    pub fn new(id: &str, tier: Tier, seed: u64) -> Ctx {
        let _ = CURRENT_PROP.set(id.to_string());
        Ctx {
            id: id.to_string(),
            tier,
            seed,
            kf: KnownFindings::load(),
            start: Instant::now(),
            strict: false,
        }
    }
    /// Same context, but tolerating no known finding (strict replay).
    pub fn strict_clone(&self) -> Ctx {
        Ctx { id: self.id.clone(), tier: self.tier, seed: self.seed, kf: self.kf.clone(), start: self.start, strict: true }
    }
    /// Is the known finding `id` listed (and tolerance allowed)?
    pub fn tolerate(&self, id: &str) -> bool {
        !self.strict && self.kf.has(id)
    }
}

pub struct Report {
    pub stats: Stats,
    pub failures: Vec<Failure>,
    pub known_lines: Vec<String>,
    pub rule: String,
    pub exhaustive: bool,
    pub assumptions: Vec<String>,
    /// (label, minimum hits) — a run that does not reach them is inconclusive
    pub min_hits: Vec<(String, u64)>,
    pub extra: BTreeMap<String, Value>,
    pub inconclusive: Vec<String>,
}

impl Report {
    pub fn new(rule: &str) -> Report {
        Report {
            stats: Stats::default(),
            failures: vec![],
            known_lines: vec![],
            rule: rule.to_string(),
            exhaustive: false,
            assumptions: vec![],
            min_hits: vec![],
            extra: BTreeMap::new(),
            inconclusive: vec![],
        }
    }
    pub fn absorb(&mut self, out: RunOut) {
        self.stats.merge(out.stats);
        self.failures.extend(out.failures);
    }
    pub fn need(&mut self, label: &str, min: u64) {
        self.min_hits.push((label.to_string(), min));
    }
    pub fn assume(&mut self, s: &str) {
        self.assumptions.push(s.to_string());
    }
}

pub struct RunOut {
    pub stats: Stats,
    pub failures: Vec<Failure>,
}

/// Write replay file, return its path.
pub fn write_replay(prop: &str, f: &Failure) -> PathBuf {
    let dir = verif_root().join("replays");
    let _ = std::fs::create_dir_all(&dir);
    let txt = serde_json::to_string_pretty(&json!({
        "property": prop,
        "case": f.case,
        "what": f.what,
    }))
    .unwrap();
    let h = hash64(&serde_json::to_string(&f.case).unwrap());
    let p = dir.join(format!("{prop}-{h:016x}.json"));
    std::fs::write(&p, txt).expect("write replay");
    p
}

pub fn read_replay(path: &std::path::Path) -> Result<Value, String> {
    let txt = std::fs::read_to_string(path).map_err(|e| format!("{}: {e}", path.display()))?;
    let v: Value = serde_json::from_str(&txt).map_err(|e| format!("{}: {e}", path.display()))?;
    Ok(v)
}

/// Finish a run: write the evidence file, print verdict lines, return exit code.
pub fn finish(ctx: &Ctx, mut rep: Report) -> i32 {
    let wall = ctx.start.elapsed().as_secs_f64();
    for l in &rep.known_lines {
        println!("{l}");
    }
    // deduplicate failures by message+case, keep the smallest few
    rep.failures
        .sort_by_key(|f| serde_json::to_string(&f.case).map(|s| s.len()).unwrap_or(0));
    let mut seen = HashSet::new();
    rep.failures
        .retain(|f| seen.insert(hash64(&serde_json::to_string(&f.case).unwrap())));
    let mut code = 0;
    for (label, min) in &rep.min_hits {
        let got = rep.stats.labels.get(label).copied().unwrap_or(0);
        if got < *min {
            rep.inconclusive
                .push(format!("generator class '{label}' hit {got} < {min} times"));
        }
    }
    let nviol = rep.failures.len();
    let mut vio_json = vec![];
    for f in rep.failures.iter().take(5) {
        let p = write_replay(&ctx.id, f);
        println!("VIOLATION property={} replay={}", ctx.id, p.display());
        let mut w = f.what.clone();
        if w.len() > 2000 {
            let mut cut = 2000;
            while !w.is_char_boundary(cut) {
                cut -= 1;
            }
            w.truncate(cut);
            w.push_str("…");
        }
        println!("  what: {}", w.replace('\n', "\n        "));
        vio_json.push(json!({"replay": p.display().to_string(), "what": w}));
        code = 1;
    }
    if code == 0 && !rep.inconclusive.is_empty() {
        for m in &rep.inconclusive {
            println!("INCONCLUSIVE property={} {}", ctx.id, m);
        }
        code = 2;
    }
    let mut cov = serde_json::Map::new();
    cov.insert("evaluations".into(), json!(rep.stats.evals));
    cov.insert(
        "distinct_nontrivial".into(),
        json!(rep.stats.nontrivial.len()),
    );
    cov.insert("rule".into(), json!(rep.rule));
    let mut samples = rep.stats.samples.clone();
    samples.truncate(8);
    // a sample is documentation, not a replay file: a very large case (megabyte buffers, long
    // inputs) is kept as the head of its JSON text
    let samples: Vec<Value> = samples
        .into_iter()
        .map(|v| {
            let txt = v.to_string();
            if txt.len() <= 4000 {
                v
            } else {
                let mut cut = 4000;
                while !txt.is_char_boundary(cut) {
                    cut -= 1;
                }
                json!({"truncated_json_text": format!("{}…", &txt[..cut]), "full_length": txt.len()})
            }
        })
        .collect();
    cov.insert("samples".into(), json!(samples));
    cov.insert("exhaustive".into(), json!(rep.exhaustive));
    cov.insert("labels".into(), json!(rep.stats.labels));
    cov.insert("excluded".into(), json!(rep.stats.excluded));
    cov.insert(
        "min_class_hits".into(),
        json!(rep
            .min_hits
            .iter()
            .map(|(l, m)| json!({"label": l, "min": m}))
            .collect::<Vec<_>>()),
    );
    cov.insert("known_findings_reported".into(), json!(rep.known_lines));
    cov.insert("violation_details".into(), json!(vio_json));
    cov.insert("inconclusive".into(), json!(rep.inconclusive));
    for (k, v) in rep.extra {
        cov.insert(k, v);
    }
    let ev = json!({
        "property_id": ctx.id,
        "tier": ctx.tier.name(),
        "seed": ctx.seed,
        "level": "exploration",
        "coverage": Value::Object(cov),
        "assumptions": rep.assumptions,
        "wall_s": (wall * 100.0).round() / 100.0,
        "violations": nviol,
    });
    let dir = verif_root().join("evidence");
    let _ = std::fs::create_dir_all(&dir);
    std::fs::write(
        dir.join(format!("{}.json", ctx.id)),
        serde_json::to_string_pretty(&ev).unwrap(),
    )
    .expect("write evidence");
    println!(
        "{} {} seed={} evaluations={} distinct_nontrivial={} violations={} wall={:.1}s exit={}",
        ctx.id,
        ctx.tier.name(),
        ctx.seed,
        rep.stats.evals,
        rep.stats.nontrivial.len(),
        nviol,
        wall,
        code
    );
    code
}

// ---------------------------------------------------------------------------
// Runners

/// Random search. Each of THREADS workers owns a proptest `TestRunner` seeded
/// from (seed, worker index); the generated value is a byte vector which
/// `decode` turns into a structured case through `Src` (so proptest shrinks the
/// choice sequence, Hypothesis-style, and the same decoder serves libFuzzer).
/// `oracle` returns Err(description) on a property violation.
pub fn run_random<C, D, O>(seed: u64, cases_total: u64, max_bytes: usize, decode: D, oracle: O) -> RunOut
where
    C: serde::Serialize,
    D: Fn(&mut Src) -> C + Sync,
    O: Fn(&C, &mut Stats) -> Result<(), String> + Sync,
{
    use proptest::strategy::{Strategy, ValueTree};
    use proptest::test_runner::{Config, RngAlgorithm, TestRng, TestRunner};

    let per = cases_total.div_ceil(THREADS as u64);
    let merged = Mutex::new((Stats::default(), Vec::<Failure>::new()));
    // watchdog state: per worker, (start of the running case in ms since t_base, its bytes)
    let t_base = Instant::now();
    let running: Vec<Mutex<Option<(u64, Vec<u8>)>>> = (0..THREADS).map(|_| Mutex::new(None)).collect();
    let live = std::sync::atomic::AtomicUsize::new(THREADS);
    std::thread::scope(|s| {
        {
            let running = &running;
            let live = &live;
            s.spawn(move || {
                let limit = hang_secs() * 1000;
                while live.load(std::sync::atomic::Ordering::SeqCst) > 0 {
                    std::thread::sleep(std::time::Duration::from_millis(500));
                    let now = t_base.elapsed().as_millis() as u64;
                    for slot in running.iter() {
                        let g = slot.lock().unwrap();
                        if let Some((t0, bytes)) = g.as_ref() {
                            if now.saturating_sub(*t0) > limit {
                                let id = CURRENT_PROP.get().cloned().unwrap_or_else(|| "?".into());
                                let dir = verif_root().join("replays");
                                let _ = std::fs::create_dir_all(&dir);
                                let path = dir.join(format!("hang-{id}-{:016x}.bytes", hash64(bytes)));
                                let _ = std::fs::write(&path, bytes);
                                println!(
                                    "INCONCLUSIVE property={id} a generated case did not finish within {} s (possible non-termination in the code under test; not a verdict on this property); generator bytes saved to {}",
                                    limit / 1000,
                                    path.display()
                                );
                                std::process::exit(2);
                            }
                        }
                    }
                }
            });
        }
        for w in 0..THREADS {
            let merged = &merged;
            let running = &running;
            let live = &live;
            let decode = &decode;
            let oracle = &oracle;
            std::thread::Builder::new()
                .stack_size(256 << 20)
                .spawn_scoped(s, move || {
                    struct Alive<'a>(&'a std::sync::atomic::AtomicUsize);
                    impl Drop for Alive<'_> {
                        fn drop(&mut self) {
                            self.0.fetch_sub(1, std::sync::atomic::Ordering::SeqCst);
                        }
                    }
                    let _alive = Alive(live);
                    let mut seed_bytes = [0u8; 32];
                    seed_bytes[..8].copy_from_slice(&seed.to_le_bytes());
                    seed_bytes[8..16].copy_from_slice(&(w as u64).to_le_bytes());
                    seed_bytes[16..24].copy_from_slice(&0x9e3779b97f4a7c15u64.to_le_bytes());
                    let rng = TestRng::from_seed(RngAlgorithm::ChaCha, &seed_bytes);
                    let cfg = Config {
                        cases: 1,
                        failure_persistence: None,
                        max_shrink_iters: 4000,
                        ..Config::default()
                    };
                    let mut runner = TestRunner::new_with_rng(cfg, rng);
                    let strat = byte_strategy(max_bytes);
                    let mut stats = Stats::default();
                    let mut fails = vec![];
                    for _ in 0..per {
                        let mut tree = match strat.new_tree(&mut runner) {
                            Ok(t) => t,
                            Err(_) => continue,
                        };
                        let run_one = |bytes: &Vec<u8>, stats: &mut Stats| -> (Value, Result<(), String>) {
                            *running[w].lock().unwrap() = Some((t_base.elapsed().as_millis() as u64, bytes.clone()));
                            let mut src = Src::new(bytes);
                            let case = decode(&mut src);
                            // (a fatal signal while this case runs is reported with the case)
                            let _running = crate::props::c11::crash::running(&case);
                            let r = match guarded(|| oracle(&case, stats)) {
                                Ok(r) => r,
                                Err(p) => Err(p),
                            };
                            *running[w].lock().unwrap() = None;
                            let v = if r.is_err() {
                                serde_json::to_value(&case).unwrap_or(Value::Null)
                            } else {
                                Value::Null
                            };
                            (v, r)
                        };
                        let (v, r) = run_one(&tree.current(), &mut stats);
                        if let Err(what) = r {
                            // shrink: standard simplify/complicate loop
                            stats.frozen = true;
                            let mut best = (v, what);
                            let mut iters = 0;
                            let t0 = Instant::now();
                            'outer: loop {
                                if !tree.simplify() {
                                    break;
                                }
                                loop {
                                    iters += 1;
                                    if iters > 3000 || t0.elapsed().as_secs() > 60 {
                                        break 'outer;
                                    }
                                    let (v, r) = run_one(&tree.current(), &mut stats);
                                    match r {
                                        Err(what) => {
                                            best = (v, what);
                                            break;
                                        },
                                        Ok(()) => {
                                            if !tree.complicate() {
                                                break 'outer;
                                            }
                                        },
                                    }
                                }
                            }
                            stats.frozen = false;
                            fails.push(Failure {
                                case: best.0,
                                what: best.1,
                            });
                            break; // this worker stops at its first failure
                        }
                    }
                    drop(_alive);
                    let mut m = merged.lock().unwrap();
                    m.0.merge(stats);
                    m.1.extend(fails);
                })
                .unwrap();
        }
    });
    let (stats, failures) = merged.into_inner().unwrap();
    RunOut { stats, failures }
}

fn byte_strategy(max_bytes: usize) -> impl proptest::strategy::Strategy<Value = Vec<u8>> {
    use proptest::prelude::*;
    // length skewed towards small; bytes skewed towards small values so that
    // `Src::below(n)` with small n is well spread and defaults are common.
    (0usize..=4).prop_flat_map(move |k| {
        let hi = match k {
            0 => max_bytes / 16,
            1 => max_bytes / 8,
            2 => max_bytes / 4,
            3 => max_bytes / 2,
            _ => max_bytes,
        }
        .max(4);
        proptest::collection::vec(any::<u8>(), 0..=hi)
    })
}

/// Bounded-exhaustive search over indices 0..total, sharded over THREADS
/// workers in blocks. The failure with the smallest index is reported (the
/// enumerations are ordered shortest-first, so it is already minimal).
pub fn run_exhaustive<O>(total: u64, oracle: O) -> RunOut
where
    O: Fn(u64, &mut Stats) -> Result<(), Failure> + Sync,
{
    let next = AtomicU64::new(0);
    let stop = AtomicBool::new(false);
    let block = (total / (THREADS as u64 * 64)).clamp(1, 4096);
    let merged = Mutex::new((Stats::default(), Vec::<(u64, Failure)>::new()));
    std::thread::scope(|s| {
        for _ in 0..THREADS {
            let (next, stop, merged, oracle) = (&next, &stop, &merged, &oracle);
            std::thread::Builder::new()
                .stack_size(256 << 20)
                .spawn_scoped(s, move || {
                    let mut stats = Stats::default();
                    let mut fails = vec![];
                    'w: loop {
                        if stop.load(Ordering::Relaxed) {
                            break;
                        }
                        let lo = next.fetch_add(block, Ordering::Relaxed);
                        if lo >= total {
                            break;
                        }
                        for i in lo..(lo + block).min(total) {
                            // (enumerated cases are rebuilt from their index: a fatal signal is
                            // reported with the index, there is no case value to save)
                            let _running = crate::props::c11::crash::enter((i as usize + 1, 0));
                            let r = match guarded(|| oracle(i, &mut stats)) {
                                Ok(r) => r,
                                Err(p) => Err(Failure {
                                    case: json!({"index": i}),
                                    what: p,
                                }),
                            };
                            if let Err(f) = r {
                                fails.push((i, f));
                                stop.store(true, Ordering::Relaxed);
                                break 'w;
                            }
                        }
                    }
                    let mut m = merged.lock().unwrap();
                    m.0.merge(stats);
                    m.1.extend(fails);
                })
                .unwrap();
        }
    });
    let (stats, mut fails) = merged.into_inner().unwrap();
    fails.sort_by_key(|f| f.0);
    RunOut {
        stats,
        failures: fails.into_iter().map(|f| f.1).take(3).collect(),
    }
}

/// Replay every pinned known finding of this property in strict mode through
/// `replay`; a finding that still fails gives a KNOWN-FINDING line.
pub fn report_known(ctx: &Ctx, rep: &mut Report, replay: &dyn Fn(&Value) -> Result<(), String>) {
    for f in ctx.kf.for_property(&ctx.id) {
        let Some(path) = &f.replay else { continue };
        let p = verif_root().join(path);
        match read_replay(&p) {
            Ok(v) => {
                let r = guarded(|| replay(&v["case"])).unwrap_or_else(Err);
                if r.is_err() {
                    rep.known_lines.push(format!(
                        "KNOWN-FINDING: property={} {} [{}]",
                        ctx.id, f.summary, f.id
                    ));
                }
            },
            Err(e) => rep
                .inconclusive
                .push(format!("known finding {} replay unreadable: {e}", f.id)),
        }
    }
}

/// Replay the regression files replays/regress/<ID>-*.json strictly; failures
/// are violations.
pub fn run_regressions(ctx: &Ctx, rep: &mut Report, replay: &dyn Fn(&Value) -> Result<(), String>) {
    let dir = verif_root().join("replays").join("regress");
    let Ok(rd) = std::fs::read_dir(&dir) else {
        return;
    };
    let mut files: Vec<_> = rd
        .filter_map(|e| e.ok())
        .map(|e| e.path())
        .filter(|p| {
            p.file_name()
                .and_then(|n| n.to_str())
                .map(|n| n.starts_with(&format!("{}-", ctx.id)) && n.ends_with(".json"))
                .unwrap_or(false)
        })
        .collect();
    files.sort();
    for p in files {
        match read_replay(&p) {
            Ok(v) => {
                rep.stats.label("regression replay");
                let r = guarded(|| replay(&v["case"])).unwrap_or_else(Err);
                if let Err(what) = r {
                    rep.failures.push(Failure {
                        case: v["case"].clone(),
                        what: format!("regression {}: {what}", p.display()),
                    });
                }
            },
            Err(e) => rep.inconclusive.push(e),
        }
    }
}

/// Run `f` with the process's stdout (fd 1) pointed at /dev/null: html5ever's
/// `profile: true` option prints timing tables with println!, which must stay
/// out of the VIOLATION-line channel.  Nothing else prints while checks run.
pub fn with_stdout_silenced<T>(f: impl FnOnce() -> T) -> T {
    use std::io::Write;
    let _ = std::io::stdout().flush();
    unsafe {
        let saved = libc::dup(1);
        let devnull = libc::open(b"/dev/null\0".as_ptr() as *const libc::c_char, libc::O_WRONLY);
        if saved >= 0 && devnull >= 0 {
            libc::dup2(devnull, 1);
        }
        let r = f();
        let _ = std::io::stdout().flush();
        if saved >= 0 {
            libc::dup2(saved, 1);
            libc::close(saved);
        }
        if devnull >= 0 {
            libc::close(devnull);
        }
        r
    }
}
