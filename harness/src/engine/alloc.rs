//! Instrumented global allocator (execution monitor for property C12).
//!
//! `Monitor` wraps `System`.  It is only installed by the `vcheck_alloc`
//! binary (`#[global_allocator]`); the plain `vcheck` binary links this module
//! too, but then `installed()` is false and every function here is a cheap
//! no-op.
//!
//! While *armed* every allocation
//!   * gets `RZ`-byte red zones before and after the user block, filled with a
//!     pattern that is checked when the block is freed (out-of-bounds write),
//!   * is entered in a live-block table (open addressing, sharded spin locks,
//!     memory obtained directly from `System`: the monitor never allocates
//!     through itself and never panics),
//!   * is tagged with the *scope* of the allocating thread.  A scope is one
//!     test case; threads spawned by the case inherit the id explicitly
//!     (`current_scope` / `enter`).
//! On free the block is looked up: a pointer that is not live is either in the
//! quarantine (=> double free, recorded, NOT executed), or unknown; an unknown
//! pointer freed by a thread inside a scope is recorded as invalid free and
//! NOT executed (outside scopes it is a block from before arming and goes to
//! `System`).  Freed scoped blocks are poisoned and parked in a bounded
//! quarantine; the poison is re-checked when they leave it (write after free).
//! Blocks of a scope that are still live when the scope ends are leaks.
//!
//! Every other scope (odd ids) is served by a guard-page path instead (mmap, block placed
//! against a PROT_NONE page; mappings are pooled by size): there an out-of-bounds *read* past
//! the end of a block faults as well, which the crash guard of the C11/C12 runner
//! turns into a violation with the running case.

use std::alloc::{GlobalAlloc, Layout, System};
use std::cell::{Cell, UnsafeCell};
use std::sync::atomic::{AtomicBool, AtomicI64, AtomicPtr, AtomicU32, AtomicU64, AtomicUsize, Ordering::*};

pub const RZ: usize = 32;
const RZ_BYTE: u8 = 0xA5;
const POISON: u8 = 0xDE;

pub const F_DOUBLE_FREE: u32 = 1;
pub const F_INVALID_FREE: u32 = 2;
pub const F_REDZONE_BEFORE: u32 = 4;
pub const F_REDZONE_AFTER: u32 = 8;
pub const F_WRITE_AFTER_FREE: u32 = 16;
pub const F_SIZE_MISMATCH: u32 = 32;

static INSTALLED: AtomicBool = AtomicBool::new(false);
static ARMED: AtomicBool = AtomicBool::new(false);
static EVER_ARMED: AtomicBool = AtomicBool::new(false);
static OVERFLOW: AtomicBool = AtomicBool::new(false);
static STATE: AtomicPtr<State> = AtomicPtr::new(std::ptr::null_mut());
static INIT_LOCK: AtomicBool = AtomicBool::new(false);
static NEXT_ID: AtomicU64 = AtomicU64::new(1);
/// violations that could not be attributed to an active scope
static GLOBAL_FLAGS: AtomicU32 = AtomicU32::new(0);

thread_local! {
    static SCOPE: Cell<u64> = const { Cell::new(0) };
    /// 0: guard-page path for scopes with an odd id; 1: never; 2: always (self-tests)
    static GUARD_MODE: Cell<u8> = const { Cell::new(0) };
}

/// Force the allocation scheme of scopes on this thread (0 = by scope id, 1 = red zones, 2 = guard pages).
pub fn set_guard_mode(m: u8) {
    let _ = GUARD_MODE.try_with(|c| c.set(m));
}

#[inline]
fn use_guard(scope: u64) -> bool {
    match GUARD_MODE.try_with(|c| c.get()).unwrap_or(1) {
        1 => false,
        2 => scope != 0,
        _ => scope & 1 == 1,
    }
}

// ---------------------------------------------------------------------------
// spin lock

#[inline]
fn lock(l: &AtomicBool) {
    let mut spins = 0u32;
    while l.compare_exchange_weak(false, true, Acquire, Relaxed).is_err() {
        while l.load(Relaxed) {
            std::hint::spin_loop();
            spins += 1;
            if spins > 200 {
                std::thread::yield_now();
                spins = 0;
            }
        }
    }
}
#[inline]
fn unlock(l: &AtomicBool) {
    l.store(false, Release);
}

// ---------------------------------------------------------------------------
// state (all-zero is the valid initial state; obtained from System, zeroed)

const SHARDS: usize = 256;
const SHARD_SLOTS: usize = 4096;
const NSLOT: usize = 64;
const QLEN: usize = 256;

#[derive(Clone, Copy)]
#[repr(C)]
struct Ent {
    ptr: usize,
    size: usize,
    scope: u64,
    align: usize,
}

#[repr(C)]
struct Shard {
    lock: AtomicBool,
    n: UnsafeCell<usize>,
    ents: UnsafeCell<[Ent; SHARD_SLOTS]>,
}

#[derive(Clone, Copy)]
#[repr(C)]
struct QEnt {
    user: usize,
    size: usize,
    align: usize,
    scope: u64,
}

#[repr(C)]
struct QShard {
    lock: AtomicBool,
    head: UnsafeCell<usize>,
    ents: UnsafeCell<[QEnt; QLEN]>,
}

#[repr(C)]
struct ScopeSlot {
    id: AtomicU64,
    live: AtomicI64,
    allocs: AtomicU64,
    frees: AtomicU64,
    flags: AtomicU32,
    ptr: AtomicUsize,
    size: AtomicUsize,
}

#[repr(C)]
struct State {
    table: [Shard; SHARDS],
    quar: [QShard; NSLOT],
    slots: [ScopeSlot; NSLOT],
    /// recycled guard-page mappings, by number of accessible pages (1..=POOL_CLASSES)
    pools: [Pool; POOL_CLASSES],
}

const POOL_CLASSES: usize = 8;
const POOL_LEN: usize = 2048;

#[repr(C)]
struct Pool {
    lock: AtomicBool,
    n: UnsafeCell<usize>,
    bases: UnsafeCell<[usize; POOL_LEN]>,
}

impl State {
    /// A mapping of `data` accessible bytes followed by one inaccessible page.
    unsafe fn guard_map(&self, data: usize) -> *mut u8 {
        let class = data / PAGE;
        if (1..=POOL_CLASSES).contains(&class) {
            let p = &self.pools[class - 1];
            lock(&p.lock);
            let n = &mut *p.n.get();
            let got = if *n > 0 {
                *n -= 1;
                (*p.bases.get())[*n]
            } else {
                0
            };
            unlock(&p.lock);
            if got != 0 {
                return got as *mut u8;
            }
        }
        let base = libc::mmap(
            std::ptr::null_mut(),
            data + PAGE,
            libc::PROT_READ | libc::PROT_WRITE,
            libc::MAP_PRIVATE | libc::MAP_ANONYMOUS,
            -1,
            0,
        );
        if base == libc::MAP_FAILED {
            return std::ptr::null_mut();
        }
        let base = base as *mut u8;
        libc::mprotect(base.add(data) as *mut libc::c_void, PAGE, libc::PROT_NONE);
        base
    }

    unsafe fn guard_unmap(&self, base: *mut u8, data: usize) {
        let class = data / PAGE;
        if (1..=POOL_CLASSES).contains(&class) {
            let p = &self.pools[class - 1];
            lock(&p.lock);
            let n = &mut *p.n.get();
            let kept = *n < POOL_LEN;
            if kept {
                (*p.bases.get())[*n] = base as usize;
                *n += 1;
            }
            unlock(&p.lock);
            if kept {
                return;
            }
        }
        libc::munmap(base as *mut libc::c_void, data + PAGE);
    }
}

unsafe impl Sync for State {}

fn state() -> Option<&'static State> {
    let p = STATE.load(Acquire);
    if p.is_null() {
        None
    } else {
        Some(unsafe { &*p })
    }
}

/// Marks (in `Ent::align` / `QEnt::align`) a block served by the guard-page path: the user block
/// ends (up to alignment slack) at an inaccessible page, so that an out-of-bounds *read* faults
/// too; freed blocks are poisoned and quarantined like the others, their mappings are recycled.  Used for the scopes
/// with an odd id (every other test case); the others keep the red-zone / poison scheme, which
/// also sees small overruns into the alignment slack and writes after free without a fault.
const GUARD: usize = 1 << 62;
const PAGE: usize = 4096;
const GUARD_MAX: usize = 8 << 20;

#[inline]
fn round_up(n: usize, a: usize) -> usize {
    n.div_ceil(a) * a
}

/// (offset of the user block in the mapping, length of the accessible part)
#[inline]
fn guard_geometry(size: usize, align: usize) -> (usize, usize) {
    let a = align.max(16);
    let body = round_up(size.max(1), a);
    let data = round_up(pad_for(a) + body, PAGE);
    (data - body, data)
}

#[inline]
fn pad_for(align: usize) -> usize {
    let a = align.max(1);
    (RZ + a - 1) / a * a
}

#[inline]
fn hash(ptr: usize) -> (usize, usize) {
    let h = ((ptr >> 4) as u64).wrapping_mul(0x9E37_79B9_7F4A_7C15);
    ((h >> 56) as usize, ((h >> 32) as usize) & (SHARD_SLOTS - 1))
}

impl State {
    fn insert(&self, e: Ent) -> bool {
        let (s, mut i) = hash(e.ptr);
        let sh = &self.table[s];
        lock(&sh.lock);
        let ok = unsafe {
            let n = &mut *sh.n.get();
            let ents = &mut *sh.ents.get();
            if *n >= SHARD_SLOTS / 4 * 3 {
                false
            } else {
                while ents[i].ptr != 0 {
                    i = (i + 1) & (SHARD_SLOTS - 1);
                }
                ents[i] = e;
                *n += 1;
                true
            }
        };
        unlock(&sh.lock);
        ok
    }

    fn remove(&self, ptr: usize) -> Option<Ent> {
        let (s, mut i) = hash(ptr);
        let sh = &self.table[s];
        let mask = SHARD_SLOTS - 1;
        lock(&sh.lock);
        let r = unsafe {
            let n = &mut *sh.n.get();
            let ents = &mut *sh.ents.get();
            loop {
                if ents[i].ptr == 0 {
                    break None;
                }
                if ents[i].ptr == ptr {
                    let found = ents[i];
                    // backward-shift deletion
                    loop {
                        ents[i].ptr = 0;
                        let mut j = i;
                        let moved = loop {
                            j = (j + 1) & mask;
                            if ents[j].ptr == 0 {
                                break false;
                            }
                            let k = hash(ents[j].ptr).1;
                            let stays = if i <= j { i < k && k <= j } else { i < k || k <= j };
                            if !stays {
                                break true;
                            }
                        };
                        if !moved {
                            break;
                        }
                        ents[i] = ents[j];
                        i = j;
                    }
                    *n -= 1;
                    break Some(found);
                }
                i = (i + 1) & mask;
            }
        };
        unlock(&sh.lock);
        r
    }

    fn slot_of(&self, scope: u64) -> Option<&ScopeSlot> {
        if scope == 0 {
            return None;
        }
        let sl = &self.slots[(scope as usize) & (NSLOT - 1)];
        if sl.id.load(Relaxed) == scope {
            Some(sl)
        } else {
            None
        }
    }

    fn flag(&self, scope: u64, kind: u32, ptr: usize, size: usize) {
        let here = current_scope();
        match self.slot_of(scope).or_else(|| self.slot_of(here)) {
            Some(sl) => {
                if sl.flags.fetch_or(kind, Relaxed) == 0 {
                    sl.ptr.store(ptr, Relaxed);
                    sl.size.store(size, Relaxed);
                }
            },
            None => {
                GLOBAL_FLAGS.fetch_or(kind, Relaxed);
            },
        }
    }

    /// Really release a quarantined block (poison check first).
    unsafe fn release(&self, q: QEnt) {
        let p = q.user as *const u8;
        let mut ok = true;
        for k in 0..q.size {
            if *p.add(k) != POISON {
                ok = false;
                break;
            }
        }
        if !ok {
            self.flag(q.scope, F_WRITE_AFTER_FREE, q.user, q.size);
        }
        if q.align & GUARD != 0 {
            let (off, data) = guard_geometry(q.size, q.align & !GUARD);
            self.guard_unmap((q.user - off) as *mut u8, data);
            return;
        }
        let pad = pad_for(q.align);
        System.dealloc(
            (q.user - pad) as *mut u8,
            Layout::from_size_align_unchecked(pad + q.size + RZ, q.align),
        );
    }

    unsafe fn quarantine(&self, q: QEnt) {
        let qs = &self.quar[(q.scope as usize) & (NSLOT - 1)];
        lock(&qs.lock);
        let head = &mut *qs.head.get();
        let ents = &mut *qs.ents.get();
        let old = ents[*head];
        ents[*head] = q;
        *head = (*head + 1) % QLEN;
        unlock(&qs.lock);
        if old.user != 0 {
            self.release(old);
        }
    }

    fn in_quarantine(&self, ptr: usize) -> Option<QEnt> {
        for qs in self.quar.iter() {
            lock(&qs.lock);
            let ents = unsafe { &*qs.ents.get() };
            let r = ents.iter().find(|e| e.user == ptr).copied();
            unlock(&qs.lock);
            if r.is_some() {
                return r;
            }
        }
        None
    }

    unsafe fn flush(&self, shard: usize) {
        let qs = &self.quar[shard];
        for k in 0..QLEN {
            lock(&qs.lock);
            let ents = &mut *qs.ents.get();
            let e = ents[k];
            ents[k].user = 0;
            unlock(&qs.lock);
            if e.user != 0 {
                self.release(e);
            }
        }
    }
}

// ---------------------------------------------------------------------------
// the allocator

pub struct Monitor;

unsafe impl GlobalAlloc for Monitor {
    unsafe fn alloc(&self, layout: Layout) -> *mut u8 {
        if !INSTALLED.load(Relaxed) {
            INSTALLED.store(true, Relaxed);
        }
        if !ARMED.load(Relaxed) {
            return System.alloc(layout);
        }
        let Some(st) = state() else {
            return System.alloc(layout);
        };
        let align = layout.align();
        let size = layout.size();
        let scope = current_scope();
        if use_guard(scope) && size <= GUARD_MAX && align <= PAGE {
            let (off, data) = guard_geometry(size, align);
            let base = st.guard_map(data);
            if !base.is_null() {
                let user = base.add(off);
                if st.insert(Ent { ptr: user as usize, size, scope, align: align | GUARD }) {
                    // everything accessible around the user block is red zone
                    std::ptr::write_bytes(base, RZ_BYTE, off);
                    std::ptr::write_bytes(user.add(size), RZ_BYTE, data - off - size);
                    if let Some(sl) = st.slot_of(scope) {
                        sl.live.fetch_add(1, Relaxed);
                        sl.allocs.fetch_add(1, Relaxed);
                    }
                    return user;
                }
                OVERFLOW.store(true, Relaxed);
                st.guard_unmap(base, data);
            }
            // fall through to the red-zone scheme
        }
        let pad = pad_for(align);
        let Some(total) = pad.checked_add(size).and_then(|x| x.checked_add(RZ)) else {
            return std::ptr::null_mut();
        };
        let base = System.alloc(Layout::from_size_align_unchecked(total, align));
        if base.is_null() {
            return base;
        }
        let user = base.add(pad);
        if !st.insert(Ent { ptr: user as usize, size, scope, align }) {
            // table full: give the block back and serve untracked
            OVERFLOW.store(true, Relaxed);
            System.dealloc(base, Layout::from_size_align_unchecked(total, align));
            return System.alloc(layout);
        }
        std::ptr::write_bytes(base, RZ_BYTE, pad);
        std::ptr::write_bytes(user.add(size), RZ_BYTE, RZ);
        if let Some(sl) = st.slot_of(scope) {
            sl.live.fetch_add(1, Relaxed);
            sl.allocs.fetch_add(1, Relaxed);
        }
        user
    }

    unsafe fn dealloc(&self, ptr: *mut u8, layout: Layout) {
        if !EVER_ARMED.load(Relaxed) {
            return System.dealloc(ptr, layout);
        }
        let Some(st) = state() else {
            return System.dealloc(ptr, layout);
        };
        match st.remove(ptr as usize) {
            Some(e) if e.align & GUARD != 0 => {
                let align = e.align & !GUARD;
                if e.size != layout.size() || align != layout.align() {
                    st.flag(e.scope, F_SIZE_MISMATCH, ptr as usize, layout.size());
                }
                let (off, data) = guard_geometry(e.size, align);
                let base = ptr.sub(off);
                if (0..off.min(4 * RZ)).any(|k| *ptr.sub(k + 1) != RZ_BYTE) {
                    st.flag(e.scope, F_REDZONE_BEFORE, ptr as usize, e.size);
                }
                if (e.size..data - off).any(|k| *ptr.add(k) != RZ_BYTE) {
                    st.flag(e.scope, F_REDZONE_AFTER, ptr as usize, e.size);
                }
                if let Some(sl) = st.slot_of(e.scope) {
                    sl.live.fetch_sub(1, Relaxed);
                    sl.frees.fetch_add(1, Relaxed);
                }
                let _ = (base, data);
                std::ptr::write_bytes(ptr, POISON, e.size);
                st.quarantine(QEnt { user: ptr as usize, size: e.size, align: e.align, scope: e.scope });
            },
            Some(e) => {
                if e.size != layout.size() || e.align != layout.align() {
                    st.flag(e.scope, F_SIZE_MISMATCH, ptr as usize, layout.size());
                }
                let pad = pad_for(e.align);
                let base = ptr.sub(pad);
                let mut ok = true;
                for k in 0..pad {
                    if *base.add(k) != RZ_BYTE {
                        ok = false;
                        break;
                    }
                }
                if !ok {
                    st.flag(e.scope, F_REDZONE_BEFORE, ptr as usize, e.size);
                }
                ok = true;
                for k in 0..RZ {
                    if *ptr.add(e.size + k) != RZ_BYTE {
                        ok = false;
                        break;
                    }
                }
                if !ok {
                    st.flag(e.scope, F_REDZONE_AFTER, ptr as usize, e.size);
                }
                if let Some(sl) = st.slot_of(e.scope) {
                    sl.live.fetch_sub(1, Relaxed);
                    sl.frees.fetch_add(1, Relaxed);
                }
                if e.scope != 0 {
                    std::ptr::write_bytes(ptr, POISON, e.size);
                    st.quarantine(QEnt { user: ptr as usize, size: e.size, align: e.align, scope: e.scope });
                } else {
                    System.dealloc(base, Layout::from_size_align_unchecked(pad + e.size + RZ, e.align));
                }
            },
            None => {
                if let Some(q) = st.in_quarantine(ptr as usize) {
                    st.flag(q.scope, F_DOUBLE_FREE, ptr as usize, q.size);
                    return; // not executed
                }
                let here = current_scope();
                if here != 0 && !OVERFLOW.load(Relaxed) {
                    st.flag(here, F_INVALID_FREE, ptr as usize, layout.size());
                    return; // not executed
                }
                System.dealloc(ptr, layout)
            },
        }
    }
}

// ---------------------------------------------------------------------------
// control API (all cheap no-ops when the monitor is not installed)

/// Is `Monitor` the global allocator of this process?
pub fn installed() -> bool {
    let b = std::hint::black_box(Box::new(0u8));
    drop(b);
    INSTALLED.load(Relaxed)
}

/// Start tracking allocations (idempotent).  Returns false when the monitor
/// is not installed.
pub fn arm() -> bool {
    if !installed() {
        return false;
    }
    lock(&INIT_LOCK);
    if STATE.load(Acquire).is_null() {
        let p = unsafe { System.alloc_zeroed(Layout::new::<State>()) } as *mut State;
        if !p.is_null() {
            STATE.store(p, Release);
        }
    }
    unlock(&INIT_LOCK);
    if STATE.load(Acquire).is_null() {
        return false;
    }
    EVER_ARMED.store(true, SeqCst);
    ARMED.store(true, SeqCst);
    true
}

/// Stop tracking new allocations (frees of tracked blocks stay monitored).
pub fn disarm() {
    ARMED.store(false, SeqCst);
}

pub fn overflowed() -> bool {
    OVERFLOW.load(Relaxed)
}

/// Violations that could not be attributed to an active scope.
pub fn global_flags() -> u32 {
    GLOBAL_FLAGS.load(Relaxed)
}

#[inline]
pub fn current_scope() -> u64 {
    SCOPE.try_with(|c| c.get()).unwrap_or(0)
}

pub struct Enter(u64);

/// Make the calling thread a member of scope `id` (used by threads a case
/// spawns); restored when the guard drops.
pub fn enter(id: u64) -> Enter {
    let prev = SCOPE.try_with(|c| c.replace(id)).unwrap_or(0);
    Enter(prev)
}

impl Drop for Enter {
    fn drop(&mut self) {
        let _ = SCOPE.try_with(|c| c.set(self.0));
    }
}

#[derive(Clone, Debug, Default)]
pub struct ScopeOut {
    pub flags: u32,
    /// blocks allocated in the scope and still live at its end
    pub leaked: i64,
    pub leak_sizes: [usize; 4],
    pub allocs: u64,
    pub frees: u64,
    pub ptr: usize,
    pub size: usize,
}

impl ScopeOut {
    pub fn clean(&self) -> bool {
        self.flags == 0 && self.leaked == 0
    }
    pub fn describe(&self) -> String {
        let mut v = vec![];
        for (f, n) in [
            (F_DOUBLE_FREE, "double free (not executed)"),
            (F_INVALID_FREE, "free of a pointer that is not a live block (not executed)"),
            (F_REDZONE_BEFORE, "red zone before a block overwritten (out-of-bounds write)"),
            (F_REDZONE_AFTER, "red zone after a block overwritten (out-of-bounds write)"),
            (F_WRITE_AFTER_FREE, "freed block modified while in quarantine (write after free)"),
            (F_SIZE_MISMATCH, "block freed with a layout different from its allocation"),
        ] {
            if self.flags & f != 0 {
                v.push(format!("{n} [first: block {:#x}, {} bytes]", self.ptr, self.size));
            }
        }
        if self.leaked != 0 {
            let sizes: Vec<usize> = self.leak_sizes.iter().copied().filter(|&s| s != usize::MAX).collect();
            v.push(format!(
                "{} block(s) allocated by the case still live after every tendril was dropped (leak; sizes {:?})",
                self.leaked, sizes
            ));
        }
        v.join("; ")
    }
}

/// One test case's allocation scope on the calling thread.
pub struct Scope {
    id: u64,
    prev: u64,
    done: bool,
}

impl Scope {
    /// Returns None when the monitor is not armed.
    pub fn begin() -> Option<Scope> {
        if !ARMED.load(Relaxed) {
            return None;
        }
        let st = state()?;
        loop {
            let n = NEXT_ID.fetch_add(1, Relaxed);
            for probe in 0..NSLOT {
                let slot = (n as usize + probe) & (NSLOT - 1);
                let id = (n << 6) | slot as u64;
                let sl = &st.slots[slot];
                if sl.id.load(Relaxed) == 0 && sl.id.compare_exchange(0, id, AcqRel, Relaxed).is_ok() {
                    sl.live.store(0, Relaxed);
                    sl.allocs.store(0, Relaxed);
                    sl.frees.store(0, Relaxed);
                    sl.flags.store(0, Relaxed);
                    let prev = SCOPE.with(|c| c.replace(id));
                    return Some(Scope { id, prev, done: false });
                }
            }
            std::thread::yield_now();
        }
    }

    pub fn id(&self) -> u64 {
        self.id
    }

    fn finish(&mut self) -> ScopeOut {
        self.done = true;
        SCOPE.with(|c| c.set(self.prev));
        let Some(st) = state() else {
            return ScopeOut::default();
        };
        let slot = (self.id as usize) & (NSLOT - 1);
        unsafe { st.flush(slot) };
        let sl = &st.slots[slot];
        let mut out = ScopeOut {
            flags: sl.flags.load(Relaxed),
            leaked: sl.live.load(Relaxed),
            leak_sizes: [usize::MAX; 4],
            allocs: sl.allocs.load(Relaxed),
            frees: sl.frees.load(Relaxed),
            ptr: sl.ptr.load(Relaxed),
            size: sl.size.load(Relaxed),
        };
        if out.leaked != 0 {
            let mut k = 0;
            'scan: for sh in st.table.iter() {
                lock(&sh.lock);
                let ents = unsafe { &*sh.ents.get() };
                for e in ents.iter() {
                    if e.ptr != 0 && e.scope == self.id && k < 4 {
                        out.leak_sizes[k] = e.size;
                        k += 1;
                    }
                }
                unlock(&sh.lock);
                if k >= 4 {
                    break 'scan;
                }
            }
        }
        sl.id.store(0, Release);
        out
    }

    /// End the scope: everything the case allocated must be gone by now.
    pub fn end(mut self) -> ScopeOut {
        self.finish()
    }
}

impl Drop for Scope {
    fn drop(&mut self) {
        if !self.done {
            let _ = self.finish();
        }
    }
}
