//! `Src`: a finite source of choices decoded from a byte string (the value
//! proptest generates and shrinks, or the input libFuzzer mutates).  All
//! decoders map the all-zero / exhausted source to the simplest value, so
//! shrinking bytes towards zero and deleting bytes simplifies the case.

pub struct Src<'a> {
    data: &'a [u8],
    pos: usize,
}

impl<'a> Src<'a> {
    pub fn new(data: &'a [u8]) -> Src<'a> {
        Src { data, pos: 0 }
    }
    pub fn exhausted(&self) -> bool {
        self.pos >= self.data.len()
    }
    pub fn remaining(&self) -> usize {
        self.data.len().saturating_sub(self.pos)
    }
    pub fn byte(&mut self) -> u8 {
        let b = self.data.get(self.pos).copied().unwrap_or(0);
        self.pos += 1;
        b
    }
    pub fn u16(&mut self) -> u16 {
        (self.byte() as u16) | ((self.byte() as u16) << 8)
    }
    pub fn u32(&mut self) -> u32 {
        (self.u16() as u32) | ((self.u16() as u32) << 16)
    }
    /// Uniform-ish value in 0..n (n ≥ 1); monotone in the underlying bytes.
    pub fn below(&mut self, n: usize) -> usize {
        if n <= 1 {
            return 0;
        }
        if n <= 256 {
            (self.byte() as usize * n) >> 8
        } else if n <= 65536 {
            (self.u16() as usize * n) >> 16
        } else {
            ((self.u32() as u64 * n as u64) >> 32) as usize
        }
    }
    /// inclusive range
    pub fn range(&mut self, lo: usize, hi: usize) -> usize {
        lo + self.below(hi - lo + 1)
    }
    pub fn bool(&mut self) -> bool {
        self.byte() & 1 == 1
    }
    /// true with probability num/256
    pub fn chance(&mut self, num: u8) -> bool {
        // 0 → false (simplest)
        let b = self.byte();
        b != 0 && (256 - b as u16) <= num as u16
    }
    pub fn pick<'b, T>(&mut self, xs: &'b [T]) -> &'b T {
        &xs[self.below(xs.len())]
    }
    /// index chosen by integer weights
    pub fn weighted(&mut self, ws: &[u32]) -> usize {
        let total: u32 = ws.iter().sum();
        let mut x = ((self.u16() as u64 * total as u64) >> 16) as u32;
        for (i, w) in ws.iter().enumerate() {
            if x < *w {
                return i;
            }
            x -= *w;
        }
        ws.len() - 1
    }
    /// length: small values likely, up to max
    pub fn len(&mut self, max: usize) -> usize {
        let b = self.byte() as usize;
        // 3/4 of the mass on 0..max/4
        if b < 192 {
            (b * (max / 4 + 1)) / 192
        } else {
            ((b - 192) * (max + 1)) / 64
        }
        .min(max)
    }
    pub fn char_from(&mut self, alphabet: &[char]) -> char {
        *self.pick(alphabet)
    }
    /// arbitrary unicode scalar value, biased to ASCII
    pub fn any_char(&mut self) -> char {
        match self.below(8) {
            0..=4 => (self.below(0x80) as u8) as char,
            5 => char::from_u32(0x80 + self.below(0x780) as u32).unwrap_or('é'),
            6 => char::from_u32(0x800 + self.below(0xF800) as u32).unwrap_or('\u{FFFD}'),
            _ => char::from_u32(0x10000 + self.below(0x100000) as u32).unwrap_or('\u{10000}'),
        }
    }
}
