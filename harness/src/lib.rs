pub fn x(){}
