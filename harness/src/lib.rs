//! Verification harness for servo/html5ever (property-based testing + fuzzing).
#![allow(clippy::all)]
pub mod engine;
pub mod gen;
pub mod props;
pub mod refimpl;
pub mod sinks;

use engine::{Ctx, Tier};


fn usage() -> ! {
    eprintln!("usage: vcheck <ID> <quick|thorough> [--seed N] [--replay FILE]");
    std::process::exit(2)
}

/// The command line shared by the `vcheck` and `vcheck_alloc` binaries.
pub fn cli_main() {
    let args: Vec<String> = std::env::args().skip(1).collect();
    if args.is_empty() {
        usage();
    }
    let id = args[0].to_uppercase();
    if id == "C04" && args.get(1).map(|s| s.as_str()) == Some("--child") {
        engine::install_panic_hook();
        std::process::exit(props::c04::child_main());
    }
    let mut tier = match std::env::var("VERIF_TIER").as_deref() {
        Ok("thorough") => Tier::Thorough,
        _ => Tier::Quick,
    };
    let mut seed: u64 = std::env::var("VERIF_SEED")
        .ok()
        .and_then(|s| s.trim().parse::<i64>().ok())
        .map(|v| v as u64)
        .unwrap_or(0);
    let mut replay: Option<String> = None;
    let mut i = 1;
    while i < args.len() {
        match args[i].as_str() {
            "quick" => tier = Tier::Quick,
            "thorough" => tier = Tier::Thorough,
            "--seed" => {
                i += 1;
                seed = args.get(i).and_then(|s| s.parse().ok()).unwrap_or_else(|| usage());
            },
            "--replay" => {
                i += 1;
                replay = Some(args.get(i).cloned().unwrap_or_else(|| usage()));
            },
            _ => usage(),
        }
        i += 1;
    }
    engine::install_panic_hook();
    let props = props::all();
    let Some(p) = props.iter().find(|p| p.id == id) else {
        eprintln!("unknown property {id}");
        std::process::exit(2);
    };
    let mut ctx = Ctx::new(p.id, tier, seed);
    // a fatal signal while a generated case runs becomes a VIOLATION line naming the case; a run-away
    // allocation (an endless loop that keeps allocating) hits the address-space limit instead of the
    // machine's memory
    props::c11::crash::install(p.id);
    unsafe {
        // soft limit only: the libFuzzer child of the thorough tier lifts it again
        // (AddressSanitizer reserves terabytes of address space for its shadow memory)
        let mut lim: libc::rlimit = std::mem::zeroed();
        if libc::getrlimit(libc::RLIMIT_AS, &mut lim) == 0 {
            lim.rlim_cur = (40u64 << 30).min(lim.rlim_max);
            libc::setrlimit(libc::RLIMIT_AS, &lim);
        }
    }
    if let Some(path) = replay {
        ctx.strict = true;
        let v = match engine::read_replay(std::path::Path::new(&path)) {
            Ok(v) => v,
            Err(e) => {
                println!("INCONCLUSIVE property={id} {e}");
                std::process::exit(2);
            },
        };
        let r = engine::guarded(|| (p.replay)(&ctx, &v["case"])).unwrap_or_else(Err);
        match r {
            Ok(()) => {
                println!("replay {path}: property {id} holds on this case");
                std::process::exit(0);
            },
            Err(what) => {
                println!("VIOLATION property={id} replay={path}");
                println!("  what: {}", what.replace('\n', "\n        "));
                std::process::exit(1);
            },
        }
    }
    let mut rep = (p.run)(&ctx);
    if tier == Tier::Thorough && std::env::var("HV_NO_FUZZ").is_err() {
        props::run_fuzz(&ctx, &mut rep);
    }
    let code = engine::finish(&ctx, rep);
    std::process::exit(code);
}
