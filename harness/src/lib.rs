//! Verification harness for servo/html5ever (property-based testing + fuzzing).
#![allow(clippy::all)]
pub mod engine;
pub mod gen;
pub mod props;
pub mod refimpl;
pub mod sinks;
