//! Reference HTML tree builder: WHATWG HTML §13.2.6 over an arena DOM,
//! coupled to `refimpl::tokenizer` exactly as the standard couples them.
//! Infrastructure here; the insertion modes are in `tb_modes.rs`.

use super::dom::*;
use super::tokenizer::{RResult, RSink, RTag, RTok, RawKind, RDoctype};
use std::collections::BTreeMap;

#[derive(Clone, Copy, PartialEq, Eq, Debug)]
pub enum Mode {
    Initial,
    BeforeHtml,
    BeforeHead,
    InHead,
    InHeadNoscript,
    AfterHead,
    InBody,
    Text,
    InTable,
    InTableText,
    InCaption,
    InColumnGroup,
    InTableBody,
    InRow,
    InCell,
    InTemplate,
    AfterBody,
    InFrameset,
    AfterFrameset,
    AfterAfterBody,
    AfterAfterFrameset,
}

#[derive(Clone, Copy, PartialEq, Eq, Debug)]
pub enum Quirks {
    No,
    Limited,
    Full,
}

#[derive(Clone, Debug)]
pub enum Afe {
    Marker,
    Elem(Id, RTag),
}

/// Deviation switches: each makes the reference reproduce one listed known
/// finding of html5ever at exactly that rule (DESIGN.md §2.6).
#[derive(Clone, Debug, Default)]
pub struct Switches {
    pub on: Vec<String>,
}
impl Switches {
    pub fn has(&self, s: &str) -> bool {
        self.on.iter().any(|x| x == s)
    }
}

pub struct Builder {
    pub dom: RefDom,
    pub mode: Mode,
    pub orig_mode: Mode,
    pub tmpl_modes: Vec<Mode>,
    pub open: Vec<Id>,
    pub afe: Vec<Afe>,
    pub head: Option<Id>,
    pub form: Option<Id>,
    pub frameset_ok: bool,
    pub scripting: bool,
    pub foster: bool,
    pub pending_table_text: Vec<char>,
    pub quirks: Quirks,
    /// quirks mode as reported to the document (set only when the algorithm sets it)
    pub quirks_reported: Option<Quirks>,
    pub context: Option<Id>,
    pub srcdoc: bool,
    pub skip_lf: bool,
    pub stopped: bool,
    pub switch: Option<RResult>,
    pub counters: BTreeMap<&'static str, u64>,
    pub kf: Switches,
    /// ids of HTML meta elements in the order they were inserted (for C19)
    pub metas_inserted: Vec<Id>,
    /// the document allows declarative shadow roots / attaching one succeeds (the sink's answers)
    pub dsd_allow: bool,
    pub dsd_succeed: bool,
}

pub const SPECIAL_HTML: &[&str] = &[
    "address", "applet", "area", "article", "aside", "base", "basefont", "bgsound", "blockquote", "body", "br", "button", "caption",
    "center", "col", "colgroup", "dd", "details", "dir", "div", "dl", "dt", "embed", "fieldset", "figcaption", "figure", "footer",
    "form", "frame", "frameset", "h1", "h2", "h3", "h4", "h5", "h6", "head", "header", "hgroup", "hr", "html", "iframe", "img",
    "input", "keygen", "li", "link", "listing", "main", "marquee", "menu", "meta", "nav", "noembed", "noframes", "noscript",
    "object", "ol", "p", "param", "plaintext", "pre", "script", "search", "section", "select", "source", "style", "summary", "table",
    "tbody", "td", "template", "textarea", "tfoot", "th", "thead", "title", "tr", "track", "ul", "wbr", "xmp",
];
pub const MATHML_TEXT_IP: &[&str] = &["mi", "mo", "mn", "ms", "mtext"];
pub const SVG_HTML_IP: &[&str] = &["foreignObject", "desc", "title"];
pub const HEADINGS: &[&str] = &["h1", "h2", "h3", "h4", "h5", "h6"];
pub const IMPLIED: &[&str] = &["dd", "dt", "li", "optgroup", "option", "p", "rb", "rp", "rt", "rtc"];
pub const IMPLIED_THOROUGH: &[&str] = &[
    "dd", "dt", "li", "optgroup", "option", "p", "rb", "rp", "rt", "rtc", "caption", "colgroup", "tbody", "td", "tfoot", "th", "thead", "tr",
];
pub const FORMATTING: &[&str] = &["a", "b", "big", "code", "em", "font", "i", "nobr", "s", "small", "strike", "strong", "tt", "u"];

#[derive(Clone, Copy, PartialEq, Eq)]
pub enum Scope {
    Default,
    ListItem,
    Button,
    Table,
}

pub fn ws(c: char) -> bool {
    matches!(c, '\t' | '\n' | '\x0C' | '\r' | ' ')
}

impl Builder {
    pub fn new(scripting: bool, srcdoc: bool, quirks0: Quirks, kf: Switches) -> Builder {
        Builder {
            dom: RefDom::new(),
            mode: Mode::Initial,
            orig_mode: Mode::Initial,
            tmpl_modes: vec![],
            open: vec![],
            afe: vec![],
            head: None,
            form: None,
            frameset_ok: true,
            scripting,
            foster: false,
            pending_table_text: vec![],
            quirks: quirks0,
            quirks_reported: None,
            context: None,
            srcdoc,
            skip_lf: false,
            stopped: false,
            switch: None,
            counters: BTreeMap::new(),
            kf,
            metas_inserted: vec![],
            dsd_allow: false,
            dsd_succeed: false,
        }
    }

    /// Fragment set-up (§13.4): returns the tokenizer start state request.
    pub fn new_fragment(
        scripting: bool,
        quirks0: Quirks,
        kf: Switches,
        ctx_ns: &'static str,
        ctx_local: &str,
        ctx_attrs: Vec<(String, String)>,
        with_form_ptr: bool,
    ) -> (Builder, Option<RResult>) {
        let mut b = Builder::new(scripting, false, quirks0, kf);
        let attrs = ctx_attrs.into_iter().map(|(k, v)| RAttr { ns: "", prefix: None, local: k, value: v }).collect();
        let ctx = b.dom.new_element(ctx_ns, ctx_local, attrs, false);
        b.context = Some(ctx);
        let root = b.dom.new_element(HTML, "html", vec![], false);
        b.dom.append(DOC, root);
        b.open.push(root);
        if ctx_ns == HTML && ctx_local == "template" {
            b.tmpl_modes.push(Mode::InTemplate);
        }
        b.reset_insertion_mode();
        // form pointer: nearest ancestor-or-self form of the context element
        if with_form_ptr {
            let f = b.dom.new_element(HTML, "form", vec![], false);
            b.form = Some(f);
        } else if ctx_ns == HTML && ctx_local == "form" && !b.kf.has("kf_fragment_form_ptr") {
            b.form = Some(ctx);
        }
        let st = if ctx_ns == HTML {
            match ctx_local {
                "title" | "textarea" => Some(RResult::Raw(RawKind::Rcdata)),
                "style" | "xmp" | "iframe" | "noembed" | "noframes" => Some(RResult::Raw(RawKind::Rawtext)),
                "script" => Some(RResult::Raw(RawKind::ScriptData)),
                "noscript" if scripting => Some(RResult::Raw(RawKind::Rawtext)),
                "plaintext" => Some(RResult::Plaintext),
                _ => None,
            }
        } else {
            None
        };
        (b, st)
    }

    pub fn count(&mut self, what: &'static str) {
        *self.counters.entry(what).or_insert(0) += 1;
    }

    // ---- stack helpers ------------------------------------------------------

    pub fn current(&self) -> Id {
        *self.open.last().expect("stack of open elements is empty")
    }
    pub fn adjusted_current(&self) -> Id {
        if self.open.len() == 1 {
            if let Some(c) = self.context {
                return c;
            }
        }
        self.current()
    }
    pub fn pop(&mut self) -> Id {
        self.open.pop().expect("pop on empty stack")
    }
    pub fn cur_is(&self, local: &str) -> bool {
        !self.open.is_empty() && self.dom.is_html(self.current(), local)
    }
    pub fn cur_is_any(&self, locals: &[&str]) -> bool {
        !self.open.is_empty() && self.dom.is_html_any(self.current(), locals)
    }
    pub fn on_stack(&self, local: &str) -> bool {
        self.open.iter().any(|e| self.dom.is_html(*e, local))
    }
    pub fn pop_until(&mut self, locals: &[&str]) {
        while let Some(e) = self.open.pop() {
            if self.dom.is_html_any(e, locals) {
                break;
            }
        }
    }
    pub fn pop_until_node(&mut self, node: Id) {
        while let Some(e) = self.open.pop() {
            if e == node {
                break;
            }
        }
    }

    fn scope_marker(&self, id: Id, scope: Scope) -> bool {
        let ns = self.dom.ns_of(id);
        let l = self.dom.local_of(id);
        if scope == Scope::Table {
            return ns == HTML && matches!(l, "html" | "table" | "template");
        }
        let base = match ns {
            HTML => matches!(l, "applet" | "caption" | "html" | "table" | "td" | "th" | "marquee" | "object" | "select" | "template"),
            MATHML => {
                MATHML_TEXT_IP.contains(&l) || (l == "annotation-xml" && !self.kf.has("kf_annotation_xml_scope"))
            },
            SVG => SVG_HTML_IP.contains(&l),
            _ => false,
        };
        if base {
            return true;
        }
        match scope {
            Scope::ListItem => ns == HTML && matches!(l, "ol" | "ul"),
            Scope::Button => ns == HTML && l == "button",
            _ => false,
        }
    }

    pub fn in_scope(&self, locals: &[&str], scope: Scope) -> bool {
        for &e in self.open.iter().rev() {
            if self.dom.is_html_any(e, locals) {
                return true;
            }
            if self.scope_marker(e, scope) {
                return false;
            }
        }
        false
    }
    pub fn node_in_scope(&self, node: Id, scope: Scope) -> bool {
        for &e in self.open.iter().rev() {
            if e == node {
                return true;
            }
            if self.scope_marker(e, scope) {
                return false;
            }
        }
        false
    }

    pub fn is_special(&self, id: Id) -> bool {
        let ns = self.dom.ns_of(id);
        let l = self.dom.local_of(id);
        match ns {
            HTML => {
                if l == "search" && self.kf.has("kf_search_not_special") {
                    return false;
                }
                if l == "isindex" && self.kf.has("kf_isindex_special") {
                    return true;
                }
                if l == "keygen" && self.kf.has("kf_keygen_not_special") {
                    return false;
                }
                SPECIAL_HTML.contains(&l)
            },
            MATHML => !self.kf.has("kf_foreign_not_special") && (MATHML_TEXT_IP.contains(&l) || l == "annotation-xml"),
            SVG => !self.kf.has("kf_foreign_not_special") && SVG_HTML_IP.contains(&l),
            _ => false,
        }
    }

    pub fn generate_implied_end_tags(&mut self, except: Option<&str>) {
        while !self.open.is_empty() {
            let c = self.current();
            if self.dom.ns_of(c) == HTML && IMPLIED.contains(&self.dom.local_of(c)) && Some(self.dom.local_of(c)) != except {
                self.pop();
            } else {
                break;
            }
        }
    }
    pub fn generate_implied_end_tags_thoroughly(&mut self) {
        while !self.open.is_empty() && self.cur_is_any(IMPLIED_THOROUGH) {
            self.pop();
        }
    }
    pub fn close_p(&mut self) {
        self.generate_implied_end_tags(Some("p"));
        self.pop_until(&["p"]);
    }
    pub fn close_p_if_in_button_scope(&mut self) {
        if self.in_scope(&["p"], Scope::Button) {
            self.close_p();
        }
    }

    // ---- element creation and insertion ---------------------------------------

    pub fn html_attrs(tag: &RTag) -> Vec<RAttr> {
        tag.attrs.iter().map(|(k, v)| RAttr { ns: "", prefix: None, local: k.clone(), value: v.clone() }).collect()
    }

    /// (parent, before) of the appropriate place for inserting a node
    pub fn appropriate_place(&mut self, override_target: Option<Id>) -> (Id, Option<Id>) {
        let target = override_target.unwrap_or_else(|| self.current());
        let (mut parent, mut before) = (target, None);
        if self.foster && self.dom.is_html_any(target, &["table", "tbody", "tfoot", "thead", "tr"]) {
            self.count("foster parenting");
            let last_template = self.open.iter().rposition(|e| self.dom.is_html(*e, "template"));
            let last_table = self.open.iter().rposition(|e| self.dom.is_html(*e, "table"));
            match (last_template, last_table) {
                (Some(t), lt) if lt.map(|x| t > x).unwrap_or(true) => {
                    parent = self.open[t];
                },
                (_, None) => {
                    parent = self.open[0];
                },
                (_, Some(tb)) => {
                    let table = self.open[tb];
                    if let Some(p) = self.dom.nodes[table].parent {
                        parent = p;
                        before = Some(table);
                    } else {
                        parent = self.open[tb - 1];
                    }
                },
            }
        }
        if before.is_none() {
            if let Some(tc) = self.dom.nodes[parent].tmpl {
                parent = tc;
            }
        }
        (parent, before)
    }

    pub fn insert_at(&mut self, place: (Id, Option<Id>), node: Id) {
        match place.1 {
            None => self.dom.append(place.0, node),
            Some(b) => self.dom.insert_before(place.0, b, node),
        }
    }

    /// "insert an HTML element" for a token
    pub fn insert_html(&mut self, tag: &RTag) -> Id {
        let e = self.dom.new_element(HTML, &tag.name, Self::html_attrs(tag), tag.dup);
        let place = self.appropriate_place(None);
        self.insert_at(place, e);
        self.open.push(e);
        if tag.name == "meta" {
            self.metas_inserted.push(e);
        }
        e
    }

    pub fn insert_phantom(&mut self, name: &str) -> Id {
        let t = RTag { name: name.to_string(), ..RTag::default() };
        self.insert_html(&t)
    }

    pub fn insert_foreign(&mut self, ns: &'static str, name: &str, attrs: Vec<RAttr>, dup: bool) -> Id {
        let e = self.dom.new_element(ns, name, attrs, dup);
        let place = self.appropriate_place(None);
        self.insert_at(place, e);
        self.open.push(e);
        e
    }

    pub fn insert_char(&mut self, c: char) {
        let (p, b) = self.appropriate_place(None);
        self.dom.insert_char(p, b, c);
    }

    pub fn insert_comment(&mut self, text: &str) {
        let c = self.dom.add(RKind::Comment(text.to_string()));
        let place = self.appropriate_place(None);
        self.insert_at(place, c);
    }
    pub fn insert_comment_in(&mut self, parent: Id, text: &str) {
        let c = self.dom.add(RKind::Comment(text.to_string()));
        self.dom.append(parent, c);
    }

    // ---- active formatting elements -------------------------------------------

    pub fn push_afe(&mut self, node: Id, tag: &RTag) {
        // Noah's Ark clause
        let mut same: Vec<usize> = vec![];
        for (i, e) in self.afe.iter().enumerate().rev() {
            match e {
                Afe::Marker => break,
                Afe::Elem(n, t) => {
                    if t.name == tag.name && self.dom.ns_of(*n) == self.dom.ns_of(node) {
                        let mut a = t.attrs.clone();
                        let mut b = tag.attrs.clone();
                        a.sort();
                        b.sort();
                        if a == b {
                            same.push(i);
                        }
                    }
                },
            }
        }
        if same.len() >= 3 {
            self.count("noah's ark removal");
            let earliest = *same.last().unwrap();
            self.afe.remove(earliest);
        }
        self.afe.push(Afe::Elem(node, tag.clone()));
    }

    pub fn clear_afe_to_marker(&mut self) {
        while let Some(e) = self.afe.pop() {
            if matches!(e, Afe::Marker) {
                break;
            }
        }
    }

    pub fn afe_pos(&self, node: Id) -> Option<usize> {
        self.afe.iter().position(|e| matches!(e, Afe::Elem(n, _) if *n == node))
    }

    pub fn reconstruct_afe(&mut self) {
        if self.afe.is_empty() {
            return;
        }
        let is_open_or_marker = |me: &Builder, i: usize| match &me.afe[i] {
            Afe::Marker => true,
            Afe::Elem(n, _) => me.open.contains(n),
        };
        let last = self.afe.len() - 1;
        if is_open_or_marker(self, last) {
            return;
        }
        let mut i = last;
        // rewind
        loop {
            if i == 0 {
                break;
            }
            i -= 1;
            if is_open_or_marker(self, i) {
                i += 1;
                break;
            }
        }
        // advance / create
        loop {
            let tag = match &self.afe[i] {
                Afe::Elem(_, t) => t.clone(),
                Afe::Marker => unreachable!(),
            };
            let e = self.insert_html(&tag);
            self.count("reconstruct created an element");
            self.afe[i] = Afe::Elem(e, tag);
            if i == self.afe.len() - 1 {
                break;
            }
            i += 1;
        }
    }

    /// The adoption agency algorithm; returns false when the caller must act
    /// as "any other end tag".
    pub fn adoption_agency(&mut self, subject: &str) -> bool {
        // step 2
        if self.cur_is(subject) && self.afe_pos(self.current()).is_none() {
            self.pop();
            return true;
        }
        let mut outer = 0;
        loop {
            if outer >= 8 {
                return true;
            }
            outer += 1;
            // formatting element
            let mut fe_idx = None;
            for (i, e) in self.afe.iter().enumerate().rev() {
                match e {
                    Afe::Marker => break,
                    Afe::Elem(n, _) => {
                        if self.dom.is_html(*n, subject) {
                            fe_idx = Some(i);
                            break;
                        }
                    },
                }
            }
            let Some(fe_idx) = fe_idx else { return false };
            let (fe, fe_tag) = match &self.afe[fe_idx] {
                Afe::Elem(n, t) => (*n, t.clone()),
                _ => unreachable!(),
            };
            let Some(fe_stack) = self.open.iter().position(|e| *e == fe) else {
                self.afe.remove(fe_idx);
                return true;
            };
            if !self.node_in_scope(fe, Scope::Default) {
                return true;
            }
            // furthest block
            let fb_stack = (fe_stack + 1..self.open.len()).find(|&i| self.is_special(self.open[i]));
            let Some(fb_stack) = fb_stack else {
                self.open.truncate(fe_stack);
                self.afe.remove(fe_idx);
                return true;
            };
            self.count("adoption agency with a furthest block");
            let fb = self.open[fb_stack];
            let common_ancestor = self.open[fe_stack - 1];
            let mut bookmark = fe_idx; // insert position in afe
            let mut node_idx = fb_stack; // index into open
            let mut last_node = fb;
            let mut inner = 0;
            loop {
                inner += 1;
                node_idx -= 1;
                let node = self.open[node_idx];
                if node == fe {
                    break;
                }
                let mut pos = self.afe_pos(node);
                if inner > 3 {
                    if let Some(p) = pos {
                        self.afe.remove(p);
                        if p < bookmark {
                            bookmark -= 1;
                        }
                        pos = None;
                    }
                }
                let Some(p) = pos else {
                    self.open.remove(node_idx);
                    continue;
                };
                // create a replacement element
                let tag = match &self.afe[p] {
                    Afe::Elem(_, t) => t.clone(),
                    _ => unreachable!(),
                };
                let ne = self.dom.new_element(HTML, &tag.name, Self::html_attrs(&tag), tag.dup);
                self.afe[p] = Afe::Elem(ne, tag);
                self.open[node_idx] = ne;
                if last_node == fb {
                    bookmark = p + 1;
                }
                self.dom.append(ne, last_node);
                last_node = ne;
            }
            // insert last node at the appropriate place with common ancestor as override
            self.dom.detach(last_node);
            let place = self.appropriate_place(Some(common_ancestor));
            self.insert_at(place, last_node);
            // new element for the formatting element
            let ne = self.dom.new_element(HTML, &fe_tag.name, Self::html_attrs(&fe_tag), fe_tag.dup);
            let kids = std::mem::take(&mut self.dom.nodes[fb].children);
            for k in kids {
                self.dom.nodes[k].parent = Some(ne);
                self.dom.nodes[ne].children.push(k);
            }
            self.dom.append(fb, ne);
            // afe: remove fe, insert new at bookmark
            let fe_pos = self.afe_pos(fe).expect("formatting element in list");
            self.afe.remove(fe_pos);
            if fe_pos < bookmark {
                bookmark -= 1;
            }
            let bm = bookmark.min(self.afe.len());
            self.afe.insert(bm, Afe::Elem(ne, fe_tag));
            // stack: remove fe, insert new below furthest block
            let fe_s = self.open.iter().position(|e| *e == fe).unwrap();
            self.open.remove(fe_s);
            let fb_s = self.open.iter().position(|e| *e == fb).unwrap();
            self.open.insert(fb_s + 1, ne);
        }
    }

    // ---- misc -----------------------------------------------------------------

    pub fn reset_insertion_mode(&mut self) {
        self.count("reset insertion mode");
        let mut i = self.open.len();
        loop {
            i -= 1;
            let mut node = self.open[i];
            let last = i == 0;
            if last {
                if let Some(c) = self.context {
                    node = c;
                }
            }
            if self.dom.ns_of(node) == HTML {
                let l = self.dom.local_of(node).to_string();
                let m = match l.as_str() {
                    "td" | "th" if !last => Some(Mode::InCell),
                    "tr" => Some(Mode::InRow),
                    "tbody" | "thead" | "tfoot" => Some(Mode::InTableBody),
                    "caption" => Some(Mode::InCaption),
                    "colgroup" => Some(Mode::InColumnGroup),
                    "table" => Some(Mode::InTable),
                    "template" => Some(*self.tmpl_modes.last().expect("template mode")),
                    "head" if !last => Some(Mode::InHead),
                    "body" => Some(Mode::InBody),
                    "frameset" => Some(Mode::InFrameset),
                    "html" => Some(if self.head.is_none() { Mode::BeforeHead } else { Mode::AfterHead }),
                    _ => None,
                };
                if let Some(m) = m {
                    self.mode = m;
                    return;
                }
            }
            if last {
                self.mode = Mode::InBody;
                return;
            }
        }
    }

    pub fn is_mathml_text_ip(&self, id: Id) -> bool {
        self.dom.ns_of(id) == MATHML && MATHML_TEXT_IP.contains(&self.dom.local_of(id))
    }
    pub fn is_html_ip(&self, id: Id) -> bool {
        match self.dom.ns_of(id) {
            SVG => SVG_HTML_IP.contains(&self.dom.local_of(id)),
            MATHML => {
                self.dom.local_of(id) == "annotation-xml"
                    && self
                        .dom
                        .attr(id, "encoding")
                        .map(|v| v.eq_ignore_ascii_case("text/html") || v.eq_ignore_ascii_case("application/xhtml+xml"))
                        .unwrap_or(false)
            },
            _ => false,
        }
    }

    fn use_html_rules(&self, tok: &RTok) -> bool {
        if self.open.is_empty() {
            return true;
        }
        let acn = self.adjusted_current();
        if self.dom.ns_of(acn) == HTML {
            return true;
        }
        if self.is_mathml_text_ip(acn) {
            match tok {
                RTok::Tag(t) if !t.end && t.name != "mglyph" && t.name != "malignmark" => return true,
                RTok::Char(_) => return true,
                _ => {},
            }
        }
        if self.dom.is_elem(acn, MATHML, "annotation-xml") {
            if let RTok::Tag(t) = tok {
                if !t.end && t.name == "svg" {
                    return true;
                }
            }
        }
        if self.is_html_ip(acn) {
            match tok {
                RTok::Tag(t) if !t.end => return true,
                RTok::Char(_) => return true,
                _ => {},
            }
        }
        matches!(tok, RTok::Eof)
    }

    /// tree construction dispatcher
    pub fn dispatch(&mut self, tok: RTok) {
        if self.stopped {
            return;
        }
        if self.use_html_rules(&tok) {
            let m = self.mode;
            self.rules(m, tok);
        } else {
            self.foreign(tok);
        }
    }

    pub fn reprocess(&mut self, mode: Mode, tok: RTok) {
        self.mode = mode;
        self.dispatch(tok);
    }

    pub fn set_quirks_from(&mut self, d: &RDoctype) {
        let lower = |s: &Option<String>| s.as_ref().map(|x| x.to_ascii_lowercase());
        let public = lower(&d.public);
        let system = lower(&d.system);
        let pfx = |list: &[&str], p: &Option<String>| p.as_ref().map(|p| list.iter().any(|x| p.starts_with(x))).unwrap_or(false);
        let mut quirky: Vec<&str> = QUIRKY_PREFIXES.to_vec();
        if self.kf.has("kf_quirks_silmaril") {
            quirky.retain(|x| !x.starts_with("+//silmaril"));
        }
        let html4 = ["-//w3c//dtd html 4.01 frameset//", "-//w3c//dtd html 4.01 transitional//"];
        let limited = ["-//w3c//dtd xhtml 1.0 frameset//", "-//w3c//dtd xhtml 1.0 transitional//"];
        let force = d.force_quirks || d.name.as_deref() != Some("html");
        if self.srcdoc && !(self.kf.has("kf_srcdoc_forcequirks") && force) {
            return;
        }
        let q = if force
            || matches!(public.as_deref(), Some("-//w3o//dtd w3 html strict 3.0//en//") | Some("-/w3c/dtd html 4.0 transitional/en") | Some("html"))
            || system.as_deref() == Some("http://www.ibm.com/data/dtd/v11/ibmxhtml1-transitional.dtd")
            || pfx(&quirky, &public)
            || (system.is_none() && pfx(&html4, &public))
        {
            Quirks::Full
        } else if pfx(&limited, &public) || (system.is_some() && pfx(&html4, &public)) {
            Quirks::Limited
        } else {
            Quirks::No
        };
        self.quirks = q;
        self.quirks_reported = Some(q);
    }

    // ---- foreign content --------------------------------------------------------

    pub fn adjust_foreign_attrs(tag: &RTag, ns: &'static str) -> Vec<RAttr> {
        tag.attrs
            .iter()
            .map(|(k, v)| {
                let mut local = k.clone();
                if ns == MATHML && k == "definitionurl" {
                    local = "definitionURL".to_string();
                }
                if ns == SVG {
                    if let Some((_, fixed)) = SVG_ATTRS.iter().find(|(a, _)| *a == k.as_str()) {
                        local = fixed.to_string();
                    }
                }
                let (ans, prefix, l): (&'static str, Option<&'static str>, String) = match local.as_str() {
                    "xlink:actuate" | "xlink:arcrole" | "xlink:href" | "xlink:role" | "xlink:show" | "xlink:title" | "xlink:type" => {
                        (XLINK, Some("xlink"), local[6..].to_string())
                    },
                    "xml:lang" | "xml:space" => (XML, Some("xml"), local[4..].to_string()),
                    "xmlns" => (XMLNS, None, "xmlns".to_string()),
                    "xmlns:xlink" => (XMLNS, Some("xmlns"), "xlink".to_string()),
                    _ => ("", None, local.clone()),
                };
                RAttr { ns: ans, prefix, local: l, value: v.clone() }
            })
            .collect()
    }

    fn foreign(&mut self, tok: RTok) {
        match tok {
            RTok::Char('\0') => self.insert_char('\u{FFFD}'),
            RTok::Char(c) => {
                self.insert_char(c);
                if !ws(c) {
                    self.frameset_ok = false;
                }
            },
            RTok::Comment(c) => self.insert_comment(&c),
            RTok::Doctype(_) => {},
            RTok::Eof => unreachable!("EOF is dispatched to the HTML rules"),
            RTok::Tag(t) if !t.end => {
                let breakout = BREAKOUT.contains(&t.name.as_str())
                    || (t.name == "font" && t.attrs.iter().any(|(k, _)| matches!(k.as_str(), "color" | "face" | "size")));
                if breakout {
                    self.count("foreign content: break-out start tag");
                    loop {
                        let c = self.current();
                        let stop_at_ip = self.is_html_ip(c)
                            && !(self.kf.has("kf_breakout_integration_pt") && self.dom.ns_of(c) == MATHML);
                        if self.is_mathml_text_ip(c) || stop_at_ip || self.dom.ns_of(c) == HTML {
                            break;
                        }
                        self.pop();
                    }
                    // "reprocess the token according to the rules given in the section
                    // corresponding to the current insertion mode in HTML content"
                    let m = self.mode;
                    self.rules(m, RTok::Tag(t));
                    return;
                }
                self.count("foreign content: element inserted");
                let ns = self.dom.ns_of(self.adjusted_current());
                let mut name = t.name.clone();
                if ns == SVG {
                    if let Some((_, fixed)) = SVG_TAGS.iter().find(|(a, _)| *a == name.as_str()) {
                        name = fixed.to_string();
                    }
                }
                let attrs = Self::adjust_foreign_attrs(&t, ns);
                self.insert_foreign(ns, &name, attrs, t.dup);
                if t.self_closing {
                    // (svg script: acts as an end tag script, which just pops)
                    self.pop();
                }
            },
            RTok::Tag(t) => {
                // end tags
                if matches!(t.name.as_str(), "br" | "p") {
                    loop {
                        let c = self.current();
                        let stop_at_ip = self.is_html_ip(c)
                            && !(self.kf.has("kf_breakout_integration_pt") && self.dom.ns_of(c) == MATHML);
                        if self.is_mathml_text_ip(c) || stop_at_ip || self.dom.ns_of(c) == HTML {
                            break;
                        }
                        self.pop();
                    }
                    let m = self.mode;
                    self.rules(m, RTok::Tag(t));
                    return;
                }
                // any other end tag
                let mut i = self.open.len() - 1;
                loop {
                    let node = self.open[i];
                    if i == 0 {
                        return;
                    }
                    if self.dom.local_of(node).to_ascii_lowercase() == t.name {
                        self.open.truncate(i);
                        return;
                    }
                    i -= 1;
                    if self.dom.ns_of(self.open[i]) == HTML {
                        break;
                    }
                }
                let m = self.mode;
                self.rules(m, RTok::Tag(t));
            },
        }
    }
}

impl RSink for Builder {
    fn token(&mut self, tok: RTok, _pos: usize) -> RResult {
        self.switch = None;
        // "next token is LF → ignore" after pre/listing/textarea start tags
        if self.skip_lf {
            self.skip_lf = false;
            if matches!(tok, RTok::Char('\n')) {
                return RResult::Continue;
            }
        }
        // html5ever handles DOCTYPE tokens before the insertion-mode dispatch: outside the
        // initial mode they are dropped without reaching the mode (known finding switch)
        if self.kf.has("kf_doctype_skips_modes") && matches!(tok, RTok::Doctype(_)) && self.mode != Mode::Initial {
            return RResult::Continue;
        }
        self.dispatch(tok);
        self.switch.take().unwrap_or(RResult::Continue)
    }
    fn foreign(&mut self) -> bool {
        !self.open.is_empty() && self.dom.ns_of(self.adjusted_current()) != HTML
    }
}

pub const BREAKOUT: &[&str] = &[
    "b", "big", "blockquote", "body", "br", "center", "code", "dd", "div", "dl", "dt", "em", "embed", "h1", "h2", "h3", "h4", "h5", "h6",
    "head", "hr", "i", "img", "li", "listing", "menu", "meta", "nobr", "ol", "p", "pre", "ruby", "s", "small", "span", "strong", "strike",
    "sub", "sup", "table", "tt", "u", "ul", "var",
];

pub const QUIRKY_PREFIXES: &[&str] = &[
    "+//silmaril//dtd html pro v0r11 19970101//",
    "-//as//dtd html 3.0 aswedit + extensions//",
    "-//advasoft ltd//dtd html 3.0 aswedit + extensions//",
    "-//ietf//dtd html 2.0 level 1//",
    "-//ietf//dtd html 2.0 level 2//",
    "-//ietf//dtd html 2.0 strict level 1//",
    "-//ietf//dtd html 2.0 strict level 2//",
    "-//ietf//dtd html 2.0 strict//",
    "-//ietf//dtd html 2.0//",
    "-//ietf//dtd html 2.1e//",
    "-//ietf//dtd html 3.0//",
    "-//ietf//dtd html 3.2 final//",
    "-//ietf//dtd html 3.2//",
    "-//ietf//dtd html 3//",
    "-//ietf//dtd html level 0//",
    "-//ietf//dtd html level 1//",
    "-//ietf//dtd html level 2//",
    "-//ietf//dtd html level 3//",
    "-//ietf//dtd html strict level 0//",
    "-//ietf//dtd html strict level 1//",
    "-//ietf//dtd html strict level 2//",
    "-//ietf//dtd html strict level 3//",
    "-//ietf//dtd html strict//",
    "-//ietf//dtd html//",
    "-//metrius//dtd metrius presentational//",
    "-//microsoft//dtd internet explorer 2.0 html strict//",
    "-//microsoft//dtd internet explorer 2.0 html//",
    "-//microsoft//dtd internet explorer 2.0 tables//",
    "-//microsoft//dtd internet explorer 3.0 html strict//",
    "-//microsoft//dtd internet explorer 3.0 html//",
    "-//microsoft//dtd internet explorer 3.0 tables//",
    "-//netscape comm. corp.//dtd html//",
    "-//netscape comm. corp.//dtd strict html//",
    "-//o'reilly and associates//dtd html 2.0//",
    "-//o'reilly and associates//dtd html extended 1.0//",
    "-//o'reilly and associates//dtd html extended relaxed 1.0//",
    "-//sq//dtd html 2.0 hotmetal + extensions//",
    "-//softquad software//dtd hotmetal pro 6.0::19990601::extensions to html 4.0//",
    "-//softquad//dtd hotmetal pro 4.0::19971010::extensions to html 4.0//",
    "-//spyglass//dtd html 2.0 extended//",
    "-//sun microsystems corp.//dtd hotjava html//",
    "-//sun microsystems corp.//dtd hotjava strict html//",
    "-//w3c//dtd html 3 1995-03-24//",
    "-//w3c//dtd html 3.2 draft//",
    "-//w3c//dtd html 3.2 final//",
    "-//w3c//dtd html 3.2//",
    "-//w3c//dtd html 3.2s draft//",
    "-//w3c//dtd html 4.0 frameset//",
    "-//w3c//dtd html 4.0 transitional//",
    "-//w3c//dtd html experimental 19960712//",
    "-//w3c//dtd html experimental 970421//",
    "-//w3c//dtd w3 html//",
    "-//w3o//dtd w3 html 3.0//",
    "-//webtechs//dtd mozilla html 2.0//",
    "-//webtechs//dtd mozilla html//",
];

pub const SVG_TAGS: &[(&str, &str)] = &[
    ("altglyph", "altGlyph"),
    ("altglyphdef", "altGlyphDef"),
    ("altglyphitem", "altGlyphItem"),
    ("animatecolor", "animateColor"),
    ("animatemotion", "animateMotion"),
    ("animatetransform", "animateTransform"),
    ("clippath", "clipPath"),
    ("feblend", "feBlend"),
    ("fecolormatrix", "feColorMatrix"),
    ("fecomponenttransfer", "feComponentTransfer"),
    ("fecomposite", "feComposite"),
    ("feconvolvematrix", "feConvolveMatrix"),
    ("fediffuselighting", "feDiffuseLighting"),
    ("fedisplacementmap", "feDisplacementMap"),
    ("fedistantlight", "feDistantLight"),
    ("fedropshadow", "feDropShadow"),
    ("feflood", "feFlood"),
    ("fefunca", "feFuncA"),
    ("fefuncb", "feFuncB"),
    ("fefuncg", "feFuncG"),
    ("fefuncr", "feFuncR"),
    ("fegaussianblur", "feGaussianBlur"),
    ("feimage", "feImage"),
    ("femerge", "feMerge"),
    ("femergenode", "feMergeNode"),
    ("femorphology", "feMorphology"),
    ("feoffset", "feOffset"),
    ("fepointlight", "fePointLight"),
    ("fespecularlighting", "feSpecularLighting"),
    ("fespotlight", "feSpotLight"),
    ("fetile", "feTile"),
    ("feturbulence", "feTurbulence"),
    ("foreignobject", "foreignObject"),
    ("glyphref", "glyphRef"),
    ("lineargradient", "linearGradient"),
    ("radialgradient", "radialGradient"),
    ("textpath", "textPath"),
];

pub const SVG_ATTRS: &[(&str, &str)] = &[
    ("attributename", "attributeName"),
    ("attributetype", "attributeType"),
    ("basefrequency", "baseFrequency"),
    ("baseprofile", "baseProfile"),
    ("calcmode", "calcMode"),
    ("clippathunits", "clipPathUnits"),
    ("diffuseconstant", "diffuseConstant"),
    ("edgemode", "edgeMode"),
    ("filterunits", "filterUnits"),
    ("glyphref", "glyphRef"),
    ("gradienttransform", "gradientTransform"),
    ("gradientunits", "gradientUnits"),
    ("kernelmatrix", "kernelMatrix"),
    ("kernelunitlength", "kernelUnitLength"),
    ("keypoints", "keyPoints"),
    ("keysplines", "keySplines"),
    ("keytimes", "keyTimes"),
    ("lengthadjust", "lengthAdjust"),
    ("limitingconeangle", "limitingConeAngle"),
    ("markerheight", "markerHeight"),
    ("markerunits", "markerUnits"),
    ("markerwidth", "markerWidth"),
    ("maskcontentunits", "maskContentUnits"),
    ("maskunits", "maskUnits"),
    ("numoctaves", "numOctaves"),
    ("pathlength", "pathLength"),
    ("patterncontentunits", "patternContentUnits"),
    ("patterntransform", "patternTransform"),
    ("patternunits", "patternUnits"),
    ("pointsatx", "pointsAtX"),
    ("pointsaty", "pointsAtY"),
    ("pointsatz", "pointsAtZ"),
    ("preservealpha", "preserveAlpha"),
    ("preserveaspectratio", "preserveAspectRatio"),
    ("primitiveunits", "primitiveUnits"),
    ("refx", "refX"),
    ("refy", "refY"),
    ("repeatcount", "repeatCount"),
    ("repeatdur", "repeatDur"),
    ("requiredextensions", "requiredExtensions"),
    ("requiredfeatures", "requiredFeatures"),
    ("specularconstant", "specularConstant"),
    ("specularexponent", "specularExponent"),
    ("spreadmethod", "spreadMethod"),
    ("startoffset", "startOffset"),
    ("stddeviation", "stdDeviation"),
    ("stitchtiles", "stitchTiles"),
    ("surfacescale", "surfaceScale"),
    ("systemlanguage", "systemLanguage"),
    ("tablevalues", "tableValues"),
    ("targetx", "targetX"),
    ("targety", "targetY"),
    ("textlength", "textLength"),
    ("viewbox", "viewBox"),
    ("viewtarget", "viewTarget"),
    ("xchannelselector", "xChannelSelector"),
    ("ychannelselector", "yChannelSelector"),
    ("zoomandpan", "zoomAndPan"),
];

#[path = "tb_modes.rs"]
mod tb_modes;
