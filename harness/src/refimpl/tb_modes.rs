//! The insertion modes of the reference tree builder (WHATWG HTML §13.2.6.4).

use super::*;
use crate::refimpl::tokenizer::{RResult, RTag, RTok, RawKind};

fn start(tok: &RTok) -> Option<&RTag> {
    match tok {
        RTok::Tag(t) if !t.end => Some(t),
        _ => None,
    }
}
fn end(tok: &RTok) -> Option<&RTag> {
    match tok {
        RTok::Tag(t) if t.end => Some(t),
        _ => None,
    }
}
fn is_start(tok: &RTok, names: &[&str]) -> bool {
    start(tok).map(|t| names.contains(&t.name.as_str())).unwrap_or(false)
}
fn is_end(tok: &RTok, names: &[&str]) -> bool {
    end(tok).map(|t| names.contains(&t.name.as_str())).unwrap_or(false)
}
fn is_ws(tok: &RTok) -> bool {
    matches!(tok, RTok::Char(c) if ws(*c))
}

const HEAD_START: &[&str] = &["base", "basefont", "bgsound", "link", "meta", "noframes", "script", "style", "template", "title"];

impl Builder {
    fn generic_raw(&mut self, t: &RTag, kind: RawKind) {
        self.insert_html(t);
        self.switch = Some(RResult::Raw(kind));
        self.orig_mode = self.mode;
        self.mode = Mode::Text;
    }

    fn stop(&mut self) {
        self.stopped = true;
        self.open.clear();
    }

    fn add_missing_attrs(&mut self, node: Id, t: &RTag) {
        if let RKind::Element { attrs, .. } = &mut self.dom.nodes[node].kind {
            for (k, v) in &t.attrs {
                if !attrs.iter().any(|a| a.ns.is_empty() && a.local == *k) {
                    attrs.push(RAttr { ns: "", prefix: None, local: k.clone(), value: v.clone() });
                }
            }
        }
    }

    fn clear_stack_to(&mut self, ctx: &[&str]) {
        while !self.cur_is_any(ctx) {
            self.pop();
        }
    }

    fn close_cell(&mut self) {
        self.generate_implied_end_tags(None);
        self.pop_until(&["td", "th"]);
        self.clear_afe_to_marker();
        self.mode = Mode::InRow;
    }

    pub fn rules(&mut self, mode: Mode, tok: RTok) {
        match mode {
            Mode::Initial => self.m_initial(tok),
            Mode::BeforeHtml => self.m_before_html(tok),
            Mode::BeforeHead => self.m_before_head(tok),
            Mode::InHead => self.m_in_head(tok),
            Mode::InHeadNoscript => self.m_in_head_noscript(tok),
            Mode::AfterHead => self.m_after_head(tok),
            Mode::InBody => self.m_in_body(tok),
            Mode::Text => self.m_text(tok),
            Mode::InTable => self.m_in_table(tok),
            Mode::InTableText => self.m_in_table_text(tok),
            Mode::InCaption => self.m_in_caption(tok),
            Mode::InColumnGroup => self.m_in_column_group(tok),
            Mode::InTableBody => self.m_in_table_body(tok),
            Mode::InRow => self.m_in_row(tok),
            Mode::InCell => self.m_in_cell(tok),
            Mode::InTemplate => self.m_in_template(tok),
            Mode::AfterBody => self.m_after_body(tok),
            Mode::InFrameset => self.m_in_frameset(tok),
            Mode::AfterFrameset => self.m_after_frameset(tok),
            Mode::AfterAfterBody => self.m_after_after_body(tok),
            Mode::AfterAfterFrameset => self.m_after_after_frameset(tok),
        }
    }

    fn m_initial(&mut self, tok: RTok) {
        match tok {
            RTok::Char(c) if ws(c) => {},
            RTok::Comment(c) => self.insert_comment_in(DOC, &c),
            RTok::Doctype(d) => {
                let n = self.dom.add(RKind::Doctype {
                    name: d.name.clone().unwrap_or_default(),
                    public: d.public.clone().unwrap_or_default(),
                    system: d.system.clone().unwrap_or_default(),
                });
                self.dom.append(DOC, n);
                self.set_quirks_from(&d);
                self.mode = Mode::BeforeHtml;
            },
            other => {
                if !self.srcdoc {
                    self.quirks = Quirks::Full;
                    self.quirks_reported = Some(Quirks::Full);
                }
                self.reprocess(Mode::BeforeHtml, other);
            },
        }
    }

    fn m_before_html(&mut self, tok: RTok) {
        match &tok {
            RTok::Doctype(_) => {},
            RTok::Comment(c) => self.insert_comment_in(DOC, c),
            RTok::Char(c) if ws(*c) => {},
            RTok::Tag(t) if !t.end && t.name == "html" => {
                let e = self.dom.new_element(HTML, "html", Self::html_attrs(t), t.dup);
                self.dom.append(DOC, e);
                self.open.push(e);
                self.mode = Mode::BeforeHead;
            },
            RTok::Tag(t) if t.end && !matches!(t.name.as_str(), "head" | "body" | "html" | "br") => {},
            _ => {
                let e = self.dom.new_element(HTML, "html", vec![], false);
                self.dom.append(DOC, e);
                self.open.push(e);
                self.reprocess(Mode::BeforeHead, tok);
            },
        }
    }

    fn m_before_head(&mut self, tok: RTok) {
        match &tok {
            RTok::Char(c) if ws(*c) => {},
            RTok::Comment(c) => self.insert_comment(c),
            RTok::Doctype(_) => {},
            RTok::Tag(t) if !t.end && t.name == "html" => self.rules(Mode::InBody, tok),
            RTok::Tag(t) if !t.end && t.name == "head" => {
                let h = self.insert_html(t);
                self.head = Some(h);
                self.mode = Mode::InHead;
            },
            RTok::Tag(t) if t.end && !matches!(t.name.as_str(), "head" | "body" | "html" | "br") => {},
            _ => {
                let h = self.insert_phantom("head");
                self.head = Some(h);
                self.reprocess(Mode::InHead, tok);
            },
        }
    }

    fn m_in_head(&mut self, tok: RTok) {
        match &tok {
            RTok::Char(c) if ws(*c) => self.insert_char(*c),
            RTok::Comment(c) => self.insert_comment(c),
            RTok::Doctype(_) => {},
            RTok::Tag(t) if !t.end => match t.name.as_str() {
                "html" => self.rules(Mode::InBody, tok),
                "base" | "basefont" | "bgsound" | "link" | "meta" => {
                    self.insert_html(t);
                    self.pop();
                },
                "title" => self.generic_raw(t, RawKind::Rcdata),
                "noscript" if self.scripting => self.generic_raw(t, RawKind::Rawtext),
                "noframes" | "style" => self.generic_raw(t, RawKind::Rawtext),
                "noscript" => {
                    self.insert_html(t);
                    self.mode = Mode::InHeadNoscript;
                },
                "script" => {
                    self.insert_html(t);
                    self.switch = Some(RResult::Raw(RawKind::ScriptData));
                    self.orig_mode = self.mode;
                    self.mode = Mode::Text;
                },
                "template" => {
                    self.count("template start tag");
                    self.afe.push(Afe::Marker);
                    self.frameset_ok = false;
                    self.mode = Mode::InTemplate;
                    self.tmpl_modes.push(Mode::InTemplate);
                    // declarative shadow roots: shadowrootmode is an enumerated attribute (keywords
                    // open / closed, ASCII case-insensitive); the adjusted current node must not be
                    // the topmost element of the stack (the fragment case with only the root on
                    // the stack is left to the plain path, as html5ever does)
                    let mode_set = t
                        .attrs
                        .iter()
                        .any(|(k, v)| k == "shadowrootmode" && (v.eq_ignore_ascii_case("open") || v.eq_ignore_ascii_case("closed")));
                    let host = *self.open.last().unwrap();
                    // the sink's answer (ModelDom AllowSucceed): a valid shadow host without a shadow root
                    let host_ok = match &self.dom.nodes[host].kind {
                        crate::refimpl::dom::RKind::Element { ns, local, .. } => crate::sinks::model::valid_shadow_host(ns, local),
                        _ => false,
                    } && self.dom.nodes[host].shadow.is_empty();
                    if mode_set && self.dsd_allow && self.open.len() > 1 && self.dsd_succeed && host_ok {
                        self.count("declarative shadow root attached");
                        // the template element is created and pushed, but never inserted; its
                        // contents are the host's shadow root
                        let e = self.dom.new_element(HTML, &t.name, Self::html_attrs(t), t.dup);
                        self.open.push(e);
                        if let Some(c) = self.dom.nodes[e].tmpl {
                            self.dom.nodes[host].shadow.push(c);
                        }
                    } else {
                        self.insert_html(t);
                    }
                },
                "head" => {},
                _ => self.in_head_anything_else(tok),
            },
            RTok::Tag(t) => match t.name.as_str() {
                "head" => {
                    self.pop();
                    self.mode = Mode::AfterHead;
                },
                "body" | "html" | "br" => self.in_head_anything_else(tok),
                "template" => {
                    if !self.on_stack("template") {
                        return;
                    }
                    self.generate_implied_end_tags_thoroughly();
                    self.pop_until(&["template"]);
                    self.clear_afe_to_marker();
                    self.tmpl_modes.pop();
                    self.reset_insertion_mode();
                },
                _ => {},
            },
            _ => self.in_head_anything_else(tok),
        }
    }
    fn in_head_anything_else(&mut self, tok: RTok) {
        self.pop();
        self.reprocess(Mode::AfterHead, tok);
    }

    fn m_in_head_noscript(&mut self, tok: RTok) {
        if matches!(tok, RTok::Doctype(_)) {
            return;
        }
        if is_start(&tok, &["html"]) {
            return self.rules(Mode::InBody, tok);
        }
        if is_end(&tok, &["noscript"]) {
            self.pop();
            self.mode = Mode::InHead;
            return;
        }
        if is_ws(&tok)
            || matches!(tok, RTok::Comment(_))
            || is_start(&tok, &["basefont", "bgsound", "link", "meta", "noframes", "style"])
        {
            return self.rules(Mode::InHead, tok);
        }
        if is_start(&tok, &["head", "noscript"]) {
            return;
        }
        if end(&tok).is_some() && !is_end(&tok, &["br"]) {
            return;
        }
        self.pop();
        self.reprocess(Mode::InHead, tok);
    }

    fn m_after_head(&mut self, tok: RTok) {
        match &tok {
            RTok::Char(c) if ws(*c) => self.insert_char(*c),
            RTok::Comment(c) => self.insert_comment(c),
            RTok::Doctype(_) => {},
            RTok::Tag(t) if !t.end => match t.name.as_str() {
                "html" => self.rules(Mode::InBody, tok),
                "body" => {
                    self.insert_html(t);
                    self.frameset_ok = false;
                    self.mode = Mode::InBody;
                },
                "frameset" => {
                    self.insert_html(t);
                    self.mode = Mode::InFrameset;
                },
                n if HEAD_START.contains(&n) => {
                    self.count("after head: head element re-pushed");
                    let h = self.head.expect("head element pointer");
                    self.open.push(h);
                    self.rules(Mode::InHead, tok);
                    if let Some(p) = self.open.iter().rposition(|e| *e == h) {
                        self.open.remove(p);
                    }
                },
                "head" => {},
                _ => self.after_head_anything_else(tok),
            },
            RTok::Tag(t) => match t.name.as_str() {
                "template" => self.rules(Mode::InHead, tok),
                "body" | "html" | "br" => self.after_head_anything_else(tok),
                _ => {},
            },
            _ => self.after_head_anything_else(tok),
        }
    }
    fn after_head_anything_else(&mut self, tok: RTok) {
        self.insert_phantom("body");
        self.reprocess(Mode::InBody, tok);
    }

    fn any_other_end_tag(&mut self, name: &str) {
        let mut i = self.open.len();
        while i > 0 {
            i -= 1;
            let node = self.open[i];
            if self.dom.is_html(node, name) {
                self.generate_implied_end_tags(Some(name));
                self.open.truncate(i);
                return;
            }
            if self.is_special(node) {
                return;
            }
        }
    }

    fn m_in_body(&mut self, tok: RTok) {
        match tok {
            RTok::Char('\0') => {},
            RTok::Char(c) if ws(c) => {
                self.reconstruct_afe();
                self.insert_char(c);
            },
            RTok::Char(c) => {
                self.reconstruct_afe();
                self.insert_char(c);
                self.frameset_ok = false;
            },
            RTok::Comment(c) => self.insert_comment(&c),
            RTok::Doctype(_) => {},
            RTok::Eof => {
                if !self.tmpl_modes.is_empty() {
                    self.rules(Mode::InTemplate, RTok::Eof);
                } else {
                    self.stop();
                }
            },
            RTok::Tag(t) if !t.end => self.in_body_start(t),
            RTok::Tag(t) => self.in_body_end(t),
        }
    }

    fn in_body_start(&mut self, t: RTag) {
        let name = t.name.clone();
        match name.as_str() {
            "html" => {
                if self.on_stack("template") {
                    return;
                }
                self.count("second html start tag merged attributes");
                let top = self.open[0];
                self.add_missing_attrs(top, &t);
            },
            n if HEAD_START.contains(&n) => self.rules(Mode::InHead, RTok::Tag(t)),
            "body" => {
                if self.open.len() < 2 || !self.dom.is_html(self.open[1], "body") || self.on_stack("template") {
                    return;
                }
                self.frameset_ok = false;
                let b = self.open[1];
                self.add_missing_attrs(b, &t);
            },
            "frameset" => {
                if self.open.len() < 2 || !self.dom.is_html(self.open[1], "body") {
                    return;
                }
                if !self.frameset_ok {
                    return;
                }
                self.count("frameset replaced body");
                let b = self.open[1];
                self.dom.detach(b);
                self.open.truncate(1);
                self.insert_html(&t);
                self.mode = Mode::InFrameset;
            },
            "address" | "article" | "aside" | "blockquote" | "center" | "details" | "dialog" | "dir" | "div" | "dl" | "fieldset"
            | "figcaption" | "figure" | "footer" | "header" | "hgroup" | "main" | "menu" | "nav" | "ol" | "p" | "search" | "section"
            | "summary" | "ul" => {
                self.close_p_if_in_button_scope();
                self.insert_html(&t);
            },
            "h1" | "h2" | "h3" | "h4" | "h5" | "h6" => {
                self.close_p_if_in_button_scope();
                if self.cur_is_any(HEADINGS) {
                    self.pop();
                }
                self.insert_html(&t);
            },
            "pre" | "listing" => {
                self.close_p_if_in_button_scope();
                self.insert_html(&t);
                self.skip_lf = true;
                self.frameset_ok = false;
            },
            "form" => {
                let in_template = self.on_stack("template");
                if self.form.is_some() && !in_template {
                    return;
                }
                self.close_p_if_in_button_scope();
                let f = self.insert_html(&t);
                if !in_template {
                    self.form = Some(f);
                }
            },
            "li" | "dd" | "dt" => {
                self.frameset_ok = false;
                let targets: &[&str] = if name == "li" { &["li"] } else { &["dd", "dt"] };
                let mut i = self.open.len();
                while i > 0 {
                    i -= 1;
                    let node = self.open[i];
                    if self.dom.is_html_any(node, targets) {
                        let l = self.dom.local_of(node).to_string();
                        self.generate_implied_end_tags(Some(&l));
                        self.pop_until(&[l.as_str()]);
                        break;
                    }
                    if self.is_special(node) && !self.dom.is_html_any(node, &["address", "div", "p"]) {
                        break;
                    }
                }
                self.close_p_if_in_button_scope();
                self.insert_html(&t);
            },
            "plaintext" => {
                self.close_p_if_in_button_scope();
                self.insert_html(&t);
                self.switch = Some(RResult::Plaintext);
            },
            "button" => {
                if self.in_scope(&["button"], Scope::Default) {
                    self.generate_implied_end_tags(None);
                    self.pop_until(&["button"]);
                }
                self.reconstruct_afe();
                self.insert_html(&t);
                self.frameset_ok = false;
            },
            "a" => {
                let mut found = None;
                for e in self.afe.iter().rev() {
                    match e {
                        Afe::Marker => break,
                        Afe::Elem(n, _) if self.dom.is_html(*n, "a") => {
                            found = Some(*n);
                            break;
                        },
                        _ => {},
                    }
                }
                if let Some(n) = found {
                    if !self.adoption_agency("a") {
                        self.any_other_end_tag("a");
                    }
                    if let Some(p) = self.afe_pos(n) {
                        self.afe.remove(p);
                    }
                    if let Some(p) = self.open.iter().position(|e| *e == n) {
                        self.open.remove(p);
                    }
                }
                self.reconstruct_afe();
                let e = self.insert_html(&t);
                self.push_afe(e, &t);
            },
            "b" | "big" | "code" | "em" | "font" | "i" | "s" | "small" | "strike" | "strong" | "tt" | "u" => {
                self.reconstruct_afe();
                let e = self.insert_html(&t);
                self.push_afe(e, &t);
            },
            "nobr" => {
                self.reconstruct_afe();
                if self.in_scope(&["nobr"], Scope::Default) {
                    if !self.adoption_agency("nobr") {
                        self.any_other_end_tag("nobr");
                    }
                    self.reconstruct_afe();
                }
                let e = self.insert_html(&t);
                self.push_afe(e, &t);
            },
            "applet" | "marquee" | "object" => {
                self.reconstruct_afe();
                self.insert_html(&t);
                self.afe.push(Afe::Marker);
                self.frameset_ok = false;
            },
            "table" => {
                if self.quirks != Quirks::Full {
                    self.close_p_if_in_button_scope();
                }
                self.insert_html(&t);
                self.frameset_ok = false;
                self.mode = Mode::InTable;
            },
            "area" | "br" | "embed" | "img" | "keygen" | "wbr" => {
                self.reconstruct_afe();
                self.insert_html(&t);
                self.pop();
                self.frameset_ok = false;
            },
            "input" => {
                // customizable-select parser change (reading taken from html5ever, self-consistency only)
                if self.in_scope(&["select"], Scope::Default) {
                    self.pop_until(&["select"]);
                }
                self.reconstruct_afe();
                self.insert_html(&t);
                self.pop();
                let hidden = t.attrs.iter().any(|(k, v)| k == "type" && v.eq_ignore_ascii_case("hidden"));
                if !hidden {
                    self.frameset_ok = false;
                }
            },
            "param" | "source" | "track" => {
                self.insert_html(&t);
                self.pop();
            },
            "hr" => {
                self.close_p_if_in_button_scope();
                if self.in_scope(&["select"], Scope::Default) {
                    self.generate_implied_end_tags(None);
                }
                self.insert_html(&t);
                self.pop();
                self.frameset_ok = false;
            },
            "image" => {
                let mut t2 = t.clone();
                t2.name = "img".to_string();
                self.in_body_start(t2);
            },
            "textarea" => {
                self.insert_html(&t);
                self.skip_lf = true;
                self.switch = Some(RResult::Raw(RawKind::Rcdata));
                self.orig_mode = self.mode;
                self.frameset_ok = false;
                self.mode = Mode::Text;
            },
            "xmp" => {
                self.close_p_if_in_button_scope();
                self.reconstruct_afe();
                self.frameset_ok = false;
                self.generic_raw(&t, RawKind::Rawtext);
            },
            "iframe" => {
                self.frameset_ok = false;
                self.generic_raw(&t, RawKind::Rawtext);
            },
            "noembed" => self.generic_raw(&t, RawKind::Rawtext),
            "noscript" if self.scripting => self.generic_raw(&t, RawKind::Rawtext),
            "select" => {
                if self.context.map(|c| self.dom.is_html(c, "select")).unwrap_or(false) {
                    return; // fragment case
                }
                if self.in_scope(&["select"], Scope::Default) {
                    self.pop_until(&["select"]);
                    return;
                }
                self.reconstruct_afe();
                self.insert_html(&t);
                self.frameset_ok = false;
            },
            "option" => {
                if self.in_scope(&["select"], Scope::Default) {
                    self.generate_implied_end_tags(Some("optgroup"));
                } else if self.cur_is("option") {
                    self.pop();
                }
                self.reconstruct_afe();
                self.insert_html(&t);
            },
            "optgroup" => {
                if self.in_scope(&["select"], Scope::Default) {
                    self.generate_implied_end_tags(None);
                } else if self.cur_is("option") {
                    self.pop();
                }
                self.reconstruct_afe();
                self.insert_html(&t);
            },
            "rb" | "rtc" => {
                if self.in_scope(&["ruby"], Scope::Default) {
                    self.generate_implied_end_tags(None);
                }
                self.insert_html(&t);
            },
            "rp" | "rt" => {
                if self.in_scope(&["ruby"], Scope::Default) {
                    self.generate_implied_end_tags(Some("rtc"));
                }
                self.insert_html(&t);
            },
            "math" | "svg" => {
                self.reconstruct_afe();
                self.count("foreign content entered");
                let ns = if name == "math" { MATHML } else { SVG };
                let attrs = Self::adjust_foreign_attrs(&t, ns);
                self.insert_foreign(ns, &name, attrs, t.dup);
                if t.self_closing {
                    self.pop();
                }
            },
            "caption" | "col" | "colgroup" | "frame" | "head" | "tbody" | "td" | "tfoot" | "th" | "thead" | "tr" => {},
            _ => {
                self.reconstruct_afe();
                self.insert_html(&t);
            },
        }
    }

    fn in_body_end(&mut self, t: RTag) {
        let name = t.name.clone();
        match name.as_str() {
            "template" => self.rules(Mode::InHead, RTok::Tag(t)),
            "body" => {
                if !self.in_scope(&["body"], Scope::Default) {
                    return;
                }
                self.mode = Mode::AfterBody;
            },
            "html" => {
                if !self.in_scope(&["body"], Scope::Default) {
                    return;
                }
                self.reprocess(Mode::AfterBody, RTok::Tag(t));
            },
            "address" | "article" | "aside" | "blockquote" | "button" | "center" | "details" | "dialog" | "dir" | "div" | "dl"
            | "fieldset" | "figcaption" | "figure" | "footer" | "header" | "hgroup" | "listing" | "main" | "menu" | "nav" | "ol"
            | "pre" | "search" | "section" | "select" | "summary" | "ul" => {
                if !self.in_scope(&[name.as_str()], Scope::Default) {
                    return;
                }
                self.generate_implied_end_tags(None);
                self.pop_until(&[name.as_str()]);
            },
            "form" => {
                if !self.on_stack("template") {
                    let node = self.form.take();
                    let Some(node) = node else { return };
                    if !self.node_in_scope(node, Scope::Default) {
                        return;
                    }
                    self.generate_implied_end_tags(None);
                    if let Some(p) = self.open.iter().position(|e| *e == node) {
                        self.open.remove(p);
                    }
                } else {
                    if !self.in_scope(&["form"], Scope::Default) {
                        return;
                    }
                    self.generate_implied_end_tags(None);
                    self.pop_until(&["form"]);
                }
            },
            "p" => {
                if !self.in_scope(&["p"], Scope::Button) {
                    self.insert_phantom("p");
                }
                self.close_p();
            },
            "li" => {
                if !self.in_scope(&["li"], Scope::ListItem) {
                    return;
                }
                self.generate_implied_end_tags(Some("li"));
                self.pop_until(&["li"]);
            },
            "dd" | "dt" => {
                if !self.in_scope(&[name.as_str()], Scope::Default) {
                    return;
                }
                self.generate_implied_end_tags(Some(&name));
                self.pop_until(&[name.as_str()]);
            },
            "h1" | "h2" | "h3" | "h4" | "h5" | "h6" => {
                if !self.in_scope(HEADINGS, Scope::Default) {
                    return;
                }
                self.generate_implied_end_tags(None);
                self.pop_until(HEADINGS);
            },
            n if FORMATTING.contains(&n) => {
                if !self.adoption_agency(&name) {
                    self.any_other_end_tag(&name);
                }
            },
            "applet" | "marquee" | "object" => {
                if !self.in_scope(&[name.as_str()], Scope::Default) {
                    return;
                }
                self.generate_implied_end_tags(None);
                self.pop_until(&[name.as_str()]);
                self.clear_afe_to_marker();
            },
            "br" => {
                // "Drop the attributes from the token, and act as described in the next entry":
                // the same token, so its duplicate-attribute state stays with it.
                let br = RTag { name: "br".to_string(), dup: t.dup, ..RTag::default() };
                self.in_body_start(br);
            },
            _ => self.any_other_end_tag(&name),
        }
    }

    fn m_text(&mut self, tok: RTok) {
        match tok {
            RTok::Char(c) => self.insert_char(c),
            RTok::Eof => {
                self.pop();
                let m = self.orig_mode;
                self.reprocess(m, RTok::Eof);
            },
            RTok::Tag(t) if t.end => {
                self.pop();
                self.mode = self.orig_mode;
            },
            _ => {},
        }
    }

    fn m_in_table(&mut self, tok: RTok) {
        match &tok {
            RTok::Char(_) if self.cur_is_any(&["table", "tbody", "template", "tfoot", "thead", "tr"]) => {
                self.pending_table_text.clear();
                self.orig_mode = self.mode;
                self.reprocess(Mode::InTableText, tok);
            },
            RTok::Comment(c) => self.insert_comment(c),
            RTok::Doctype(_) => {},
            RTok::Tag(t) if !t.end => match t.name.as_str() {
                "caption" => {
                    self.clear_stack_to(&["table", "template", "html"]);
                    self.afe.push(Afe::Marker);
                    self.insert_html(t);
                    self.mode = Mode::InCaption;
                },
                "colgroup" => {
                    self.clear_stack_to(&["table", "template", "html"]);
                    self.insert_html(t);
                    self.mode = Mode::InColumnGroup;
                },
                "col" => {
                    self.clear_stack_to(&["table", "template", "html"]);
                    self.insert_phantom("colgroup");
                    self.reprocess(Mode::InColumnGroup, tok);
                },
                "tbody" | "tfoot" | "thead" => {
                    self.clear_stack_to(&["table", "template", "html"]);
                    self.insert_html(t);
                    self.mode = Mode::InTableBody;
                },
                "td" | "th" | "tr" => {
                    self.clear_stack_to(&["table", "template", "html"]);
                    self.insert_phantom("tbody");
                    self.reprocess(Mode::InTableBody, tok);
                },
                "table" => {
                    if !self.in_scope(&["table"], Scope::Table) {
                        return;
                    }
                    self.pop_until(&["table"]);
                    self.reset_insertion_mode();
                    self.dispatch(tok);
                },
                "style" | "script" | "template" => self.rules(Mode::InHead, tok),
                "input" => {
                    let hidden = t.attrs.iter().any(|(k, v)| k == "type" && v.eq_ignore_ascii_case("hidden"));
                    if !hidden {
                        return self.in_table_anything_else(tok);
                    }
                    self.insert_html(t);
                    self.pop();
                },
                "form" => {
                    if self.on_stack("template") || self.form.is_some() {
                        return;
                    }
                    let f = self.insert_html(t);
                    self.form = Some(f);
                    self.pop();
                },
                _ => self.in_table_anything_else(tok),
            },
            RTok::Tag(t) => match t.name.as_str() {
                "table" => {
                    if !self.in_scope(&["table"], Scope::Table) {
                        return;
                    }
                    self.pop_until(&["table"]);
                    self.reset_insertion_mode();
                },
                "body" | "caption" | "col" | "colgroup" | "html" | "tbody" | "td" | "tfoot" | "th" | "thead" | "tr" => {},
                "template" => self.rules(Mode::InHead, tok),
                _ => self.in_table_anything_else(tok),
            },
            RTok::Eof => self.rules(Mode::InBody, tok),
            _ => self.in_table_anything_else(tok),
        }
    }
    fn in_table_anything_else(&mut self, tok: RTok) {
        self.foster = true;
        self.rules(Mode::InBody, tok);
        self.foster = false;
    }

    fn m_in_table_text(&mut self, tok: RTok) {
        match tok {
            RTok::Char('\0') => {},
            RTok::Char(c) => self.pending_table_text.push(c),
            other => {
                let pending = std::mem::take(&mut self.pending_table_text);
                if pending.iter().any(|c| !ws(*c)) {
                    for c in pending {
                        self.in_table_anything_else(RTok::Char(c));
                    }
                } else {
                    for c in pending {
                        self.insert_char(c);
                    }
                }
                let m = self.orig_mode;
                self.reprocess(m, other);
            },
        }
    }

    fn close_caption(&mut self) -> bool {
        if !self.in_scope(&["caption"], Scope::Table) {
            return false;
        }
        self.generate_implied_end_tags(None);
        self.pop_until(&["caption"]);
        self.clear_afe_to_marker();
        self.mode = Mode::InTable;
        true
    }

    fn m_in_caption(&mut self, tok: RTok) {
        if is_end(&tok, &["caption"]) {
            self.close_caption();
            return;
        }
        if is_start(&tok, &["caption", "col", "colgroup", "tbody", "td", "tfoot", "th", "thead", "tr"]) || is_end(&tok, &["table"]) {
            if self.close_caption() {
                self.dispatch(tok);
            }
            return;
        }
        if is_end(&tok, &["body", "col", "colgroup", "html", "tbody", "td", "tfoot", "th", "thead", "tr"]) {
            return;
        }
        self.rules(Mode::InBody, tok);
    }

    fn m_in_column_group(&mut self, tok: RTok) {
        match &tok {
            RTok::Char(c) if ws(*c) => self.insert_char(*c),
            RTok::Comment(c) => self.insert_comment(c),
            RTok::Doctype(_) => {},
            RTok::Tag(t) if !t.end && t.name == "html" => self.rules(Mode::InBody, tok),
            RTok::Tag(t) if !t.end && t.name == "col" => {
                self.insert_html(t);
                self.pop();
            },
            RTok::Tag(t) if t.end && t.name == "colgroup" => {
                if !self.cur_is("colgroup") {
                    return;
                }
                self.pop();
                self.mode = Mode::InTable;
            },
            RTok::Tag(t) if t.end && t.name == "col" => {},
            RTok::Tag(t) if t.name == "template" => self.rules(Mode::InHead, tok),
            RTok::Eof => self.rules(Mode::InBody, tok),
            _ => {
                if !self.cur_is("colgroup") {
                    return;
                }
                self.pop();
                self.reprocess(Mode::InTable, tok);
            },
        }
    }

    fn m_in_table_body(&mut self, tok: RTok) {
        let body_ctx: &[&str] = &["tbody", "tfoot", "thead", "template", "html"];
        if let Some(t) = start(&tok) {
            match t.name.as_str() {
                "tr" => {
                    self.clear_stack_to(body_ctx);
                    self.insert_html(t);
                    self.mode = Mode::InRow;
                    return;
                },
                "th" | "td" => {
                    self.clear_stack_to(body_ctx);
                    self.insert_phantom("tr");
                    return self.reprocess(Mode::InRow, tok);
                },
                _ => {},
            }
        }
        if let Some(t) = end(&tok) {
            if matches!(t.name.as_str(), "tbody" | "tfoot" | "thead") {
                if !self.in_scope(&[t.name.as_str()], Scope::Table) {
                    return;
                }
                self.clear_stack_to(body_ctx);
                self.pop();
                self.mode = Mode::InTable;
                return;
            }
        }
        if is_start(&tok, &["caption", "col", "colgroup", "tbody", "tfoot", "thead"]) || is_end(&tok, &["table"]) {
            let scope_names: &[&str] =
                if self.kf.has("kf_intbody_scope_typo") { &["table", "tbody", "tfoot"] } else { &["tbody", "thead", "tfoot"] };
            if !self.in_scope(scope_names, Scope::Table) {
                return;
            }
            self.clear_stack_to(body_ctx);
            self.pop();
            return self.reprocess(Mode::InTable, tok);
        }
        if is_end(&tok, &["body", "caption", "col", "colgroup", "html", "td", "th", "tr"]) {
            return;
        }
        self.rules(Mode::InTable, tok);
    }

    fn m_in_row(&mut self, tok: RTok) {
        let row_ctx: &[&str] = &["tr", "template", "html"];
        if is_start(&tok, &["th", "td"]) {
            self.clear_stack_to(row_ctx);
            self.insert_html(start(&tok).unwrap());
            self.mode = Mode::InCell;
            self.afe.push(Afe::Marker);
            return;
        }
        if is_end(&tok, &["tr"]) {
            if !self.in_scope(&["tr"], Scope::Table) {
                return;
            }
            self.clear_stack_to(row_ctx);
            self.pop();
            self.mode = Mode::InTableBody;
            return;
        }
        if is_start(&tok, &["caption", "col", "colgroup", "tbody", "tfoot", "thead", "tr"]) || is_end(&tok, &["table"]) {
            if !self.in_scope(&["tr"], Scope::Table) {
                return;
            }
            self.clear_stack_to(row_ctx);
            self.pop();
            return self.reprocess(Mode::InTableBody, tok);
        }
        if let Some(t) = end(&tok) {
            if matches!(t.name.as_str(), "tbody" | "tfoot" | "thead") {
                if !self.in_scope(&[t.name.as_str()], Scope::Table) {
                    return;
                }
                if !self.in_scope(&["tr"], Scope::Table) {
                    return;
                }
                self.clear_stack_to(row_ctx);
                self.pop();
                return self.reprocess(Mode::InTableBody, tok);
            }
        }
        if is_end(&tok, &["body", "caption", "col", "colgroup", "html", "td", "th"]) {
            return;
        }
        self.rules(Mode::InTable, tok);
    }

    fn m_in_cell(&mut self, tok: RTok) {
        if let Some(t) = end(&tok) {
            match t.name.as_str() {
                "td" | "th" => {
                    if !self.in_scope(&[t.name.as_str()], Scope::Table) {
                        return;
                    }
                    self.generate_implied_end_tags(None);
                    self.pop_until(&[t.name.as_str()]);
                    self.clear_afe_to_marker();
                    self.mode = Mode::InRow;
                    return;
                },
                "body" | "caption" | "col" | "colgroup" | "html" => return,
                "table" | "tbody" | "tfoot" | "thead" | "tr" => {
                    if !self.in_scope(&[t.name.as_str()], Scope::Table) {
                        return;
                    }
                    self.close_cell();
                    return self.dispatch(tok);
                },
                _ => {},
            }
        }
        if is_start(&tok, &["caption", "col", "colgroup", "tbody", "td", "tfoot", "th", "thead", "tr"]) {
            if !self.in_scope(&["td", "th"], Scope::Table) {
                return; // fragment case
            }
            self.close_cell();
            return self.dispatch(tok);
        }
        self.rules(Mode::InBody, tok);
    }

    fn m_in_template(&mut self, tok: RTok) {
        match &tok {
            RTok::Char(_) | RTok::Comment(_) | RTok::Doctype(_) => self.rules(Mode::InBody, tok),
            RTok::Tag(t) if !t.end => {
                let m = match t.name.as_str() {
                    n if HEAD_START.contains(&n) => return self.rules(Mode::InHead, tok),
                    "caption" | "colgroup" | "tbody" | "tfoot" | "thead" => Mode::InTable,
                    "col" => Mode::InColumnGroup,
                    "tr" => Mode::InTableBody,
                    "td" | "th" => Mode::InRow,
                    _ => Mode::InBody,
                };
                self.tmpl_modes.pop();
                self.tmpl_modes.push(m);
                self.reprocess(m, tok);
            },
            RTok::Tag(t) => {
                if t.name == "template" {
                    self.rules(Mode::InHead, tok);
                }
            },
            RTok::Eof => {
                if !self.on_stack("template") {
                    return self.stop();
                }
                self.count("EOF while a template is open");
                self.pop_until(&["template"]);
                self.clear_afe_to_marker();
                self.tmpl_modes.pop();
                self.reset_insertion_mode();
                self.dispatch(tok);
            },
        }
    }

    fn m_after_body(&mut self, tok: RTok) {
        match &tok {
            RTok::Char(c) if ws(*c) => self.rules(Mode::InBody, tok),
            RTok::Comment(c) => {
                let top = self.open[0];
                self.insert_comment_in(top, c);
            },
            RTok::Doctype(_) => {},
            RTok::Tag(t) if !t.end && t.name == "html" => self.rules(Mode::InBody, tok),
            RTok::Tag(t) if t.end && t.name == "html" => {
                if self.context.is_some() {
                    return;
                }
                self.mode = Mode::AfterAfterBody;
            },
            RTok::Eof => self.stop(),
            _ => {
                self.count("content after </body>");
                self.reprocess(Mode::InBody, tok);
            },
        }
    }

    fn m_in_frameset(&mut self, tok: RTok) {
        match &tok {
            RTok::Char(c) if ws(*c) => self.insert_char(*c),
            RTok::Comment(c) => self.insert_comment(c),
            RTok::Doctype(_) => {},
            RTok::Tag(t) if !t.end => match t.name.as_str() {
                "html" => self.rules(Mode::InBody, tok),
                "frameset" => {
                    self.insert_html(t);
                },
                "frame" => {
                    self.insert_html(t);
                    self.pop();
                },
                "noframes" => self.rules(Mode::InHead, tok),
                _ => {},
            },
            RTok::Tag(t) if t.name == "frameset" => {
                if self.open.len() == 1 {
                    return;
                }
                self.pop();
                if self.context.is_none() && !self.cur_is("frameset") {
                    self.mode = Mode::AfterFrameset;
                }
            },
            RTok::Eof => self.stop(),
            _ => {},
        }
    }

    fn m_after_frameset(&mut self, tok: RTok) {
        match &tok {
            RTok::Char(c) if ws(*c) => self.insert_char(*c),
            RTok::Comment(c) => self.insert_comment(c),
            RTok::Doctype(_) => {},
            RTok::Tag(t) if !t.end && t.name == "html" => self.rules(Mode::InBody, tok),
            RTok::Tag(t) if t.end && t.name == "html" => self.mode = Mode::AfterAfterFrameset,
            RTok::Tag(t) if !t.end && t.name == "noframes" => self.rules(Mode::InHead, tok),
            RTok::Eof => self.stop(),
            _ => {},
        }
    }

    fn m_after_after_body(&mut self, tok: RTok) {
        match &tok {
            RTok::Comment(c) => self.insert_comment_in(DOC, c),
            RTok::Doctype(_) => self.rules(Mode::InBody, tok),
            RTok::Char(c) if ws(*c) => self.rules(Mode::InBody, tok),
            RTok::Tag(t) if !t.end && t.name == "html" => self.rules(Mode::InBody, tok),
            RTok::Eof => self.stop(),
            _ => self.reprocess(Mode::InBody, tok),
        }
    }

    fn m_after_after_frameset(&mut self, tok: RTok) {
        match &tok {
            RTok::Comment(c) => self.insert_comment_in(DOC, c),
            RTok::Doctype(_) => self.rules(Mode::InBody, tok),
            RTok::Char(c) if ws(*c) => self.rules(Mode::InBody, tok),
            RTok::Tag(t) if !t.end && t.name == "html" => self.rules(Mode::InBody, tok),
            RTok::Tag(t) if !t.end && t.name == "noframes" => self.rules(Mode::InHead, tok),
            RTok::Eof => self.stop(),
            _ => {},
        }
    }
}
