//! "Extracting a character encoding from a meta element" (WHATWG HTML §2.6.5),
//! written over a `Vec<char>` (no byte offsets).

fn ascii_ws(c: char) -> bool {
    matches!(c, '\t' | '\n' | '\x0C' | '\r' | ' ')
}

pub fn extract_charset(s: &str) -> Option<String> {
    let cs: Vec<char> = s.chars().collect();
    let word: Vec<char> = "charset".chars().collect();
    let mut pos = 0usize;
    loop {
        // step 2: find "charset" (ASCII case-insensitive) at or after pos
        let mut found = None;
        let mut i = pos;
        while i + word.len() <= cs.len() {
            if cs[i..i + word.len()].iter().zip(word.iter()).all(|(a, b)| a.eq_ignore_ascii_case(b)) {
                found = Some(i);
                break;
            }
            i += 1;
        }
        let at = found?;
        pos = at + word.len();
        // step 3
        while pos < cs.len() && ascii_ws(cs[pos]) {
            pos += 1;
        }
        // step 4
        if pos < cs.len() && cs[pos] == '=' {
            pos += 1;
            break;
        }
        if pos >= cs.len() {
            return None;
        }
        // not '=': continue searching from here
    }
    // step 5
    while pos < cs.len() && ascii_ws(cs[pos]) {
        pos += 1;
    }
    // step 6
    if pos >= cs.len() {
        return None;
    }
    let c = cs[pos];
    if c == '"' || c == '\'' {
        let rest = &cs[pos + 1..];
        let end = rest.iter().position(|x| *x == c)?;
        return Some(rest[..end].iter().collect());
    }
    let rest = &cs[pos..];
    let end = rest.iter().position(|x| ascii_ws(*x) || *x == ';').unwrap_or(rest.len());
    Some(rest[..end].iter().collect())
}
