//! Reference HTML tokenizer: WHATWG HTML §13.2.5 transcribed state by state,
//! one character at a time over a pre-normalised `Vec<char>`.  Shares no code
//! or structure with html5ever's tokenizer (no look-ahead buffer, no bulk
//! reads, no reconsume flag, no ignore-LF flag, no tendrils).

use std::collections::HashMap;
use std::sync::OnceLock;

#[derive(Clone, Copy, PartialEq, Eq, Debug, Hash)]
pub enum RState {
    Data,
    Rcdata,
    Rawtext,
    ScriptData,
    Plaintext,
    TagOpen,
    EndTagOpen,
    TagName,
    RcdataLt,
    RcdataEndTagOpen,
    RcdataEndTagName,
    RawtextLt,
    RawtextEndTagOpen,
    RawtextEndTagName,
    ScriptDataLt,
    ScriptDataEndTagOpen,
    ScriptDataEndTagName,
    ScriptDataEscapeStart,
    ScriptDataEscapeStartDash,
    ScriptDataEscaped,
    ScriptDataEscapedDash,
    ScriptDataEscapedDashDash,
    ScriptDataEscapedLt,
    ScriptDataEscapedEndTagOpen,
    ScriptDataEscapedEndTagName,
    ScriptDataDoubleEscapeStart,
    ScriptDataDoubleEscaped,
    ScriptDataDoubleEscapedDash,
    ScriptDataDoubleEscapedDashDash,
    ScriptDataDoubleEscapedLt,
    ScriptDataDoubleEscapeEnd,
    BeforeAttrName,
    AttrName,
    AfterAttrName,
    BeforeAttrValue,
    AttrValueDq,
    AttrValueSq,
    AttrValueUnq,
    AfterAttrValueQuoted,
    SelfClosingStartTag,
    BogusComment,
    MarkupDeclarationOpen,
    CommentStart,
    CommentStartDash,
    Comment,
    CommentLt,
    CommentLtBang,
    CommentLtBangDash,
    CommentLtBangDashDash,
    CommentEndDash,
    CommentEnd,
    CommentEndBang,
    Doctype,
    BeforeDoctypeName,
    DoctypeName,
    AfterDoctypeName,
    AfterDoctypePublicKeyword,
    BeforeDoctypePublicId,
    DoctypePublicIdDq,
    DoctypePublicIdSq,
    AfterDoctypePublicId,
    BetweenDoctypePublicAndSystem,
    AfterDoctypeSystemKeyword,
    BeforeDoctypeSystemId,
    DoctypeSystemIdDq,
    DoctypeSystemIdSq,
    AfterDoctypeSystemId,
    BogusDoctype,
    CdataSection,
    CdataSectionBracket,
    CdataSectionEnd,
}

#[derive(Clone, PartialEq, Eq, Debug, Hash, Default)]
pub struct RTag {
    pub end: bool,
    pub name: String,
    pub attrs: Vec<(String, String)>,
    pub self_closing: bool,
    pub dup: bool,
}

#[derive(Clone, PartialEq, Eq, Debug, Hash, Default)]
pub struct RDoctype {
    pub name: Option<String>,
    pub public: Option<String>,
    pub system: Option<String>,
    pub force_quirks: bool,
}

#[derive(Clone, PartialEq, Eq, Debug, Hash)]
pub enum RTok {
    Doctype(RDoctype),
    Tag(RTag),
    Comment(String),
    Char(char),
    Eof,
}

#[derive(Clone, Copy, PartialEq, Eq, Debug)]
pub enum RawKind {
    Rcdata,
    Rawtext,
    ScriptData,
}

#[derive(Clone, Copy, PartialEq, Eq, Debug)]
pub enum RResult {
    Continue,
    Plaintext,
    Raw(RawKind),
}

pub trait RSink {
    /// `pos`: number of normalised characters consumed when the token is emitted.
    fn token(&mut self, tok: RTok, pos: usize) -> RResult;
    /// "adjusted current node exists and is not in the HTML namespace"
    fn foreign(&mut self) -> bool;
}

/// CR LF → LF, lone CR → LF (WHATWG "normalize newlines" on the input stream).
pub fn normalize_newlines(s: &str) -> Vec<char> {
    let mut out = Vec::with_capacity(s.len());
    let mut it = s.chars().peekable();
    while let Some(c) = it.next() {
        if c == '\r' {
            if it.peek() == Some(&'\n') {
                it.next();
            }
            out.push('\n');
        } else {
            out.push(c);
        }
    }
    out
}

// ---------------------------------------------------------------------------
// entity table (frozen copy of Python's html.entities.html5)

pub struct Entities {
    pub list: Vec<(String, Vec<char>)>,
    pub map: HashMap<String, Vec<char>>,
    pub max_len: usize,
}

pub fn entities() -> &'static Entities {
    static E: OnceLock<Entities> = OnceLock::new();
    E.get_or_init(|| {
        let txt = include_str!("../../../data/entities.tsv");
        let mut list = vec![];
        let mut map = HashMap::new();
        let mut max_len = 0;
        for line in txt.lines() {
            let mut it = line.split('\t');
            let name = it.next().unwrap().to_string();
            let cps: Vec<char> = it
                .next()
                .unwrap()
                .split(' ')
                .map(|h| char::from_u32(u32::from_str_radix(h, 16).unwrap()).unwrap())
                .collect();
            max_len = max_len.max(name.chars().count());
            map.insert(name.clone(), cps.clone());
            list.push((name, cps));
        }
        assert_eq!(list.len(), 2231);
        Entities { list, map, max_len }
    })
}

/// Longest entity name that is a prefix of `input[from..]`; returns its length
/// in characters and its code points.
pub fn longest_entity(input: &[char], from: usize) -> Option<(usize, &'static [char])> {
    let e = entities();
    let avail = (input.len() - from).min(e.max_len);
    let mut cand = String::new();
    let mut best = None;
    for k in 0..avail {
        let c = input[from + k];
        if !(c.is_ascii_alphanumeric() || c == ';') {
            break;
        }
        cand.push(c);
        if let Some(v) = e.map.get(&cand) {
            best = Some((k + 1, v.as_slice()));
        }
        if c == ';' {
            break;
        }
    }
    best
}

pub fn numeric_value(mut n: u64) -> char {
    const C1: [(u64, u32); 27] = [
        (0x80, 0x20AC),
        (0x82, 0x201A),
        (0x83, 0x0192),
        (0x84, 0x201E),
        (0x85, 0x2026),
        (0x86, 0x2020),
        (0x87, 0x2021),
        (0x88, 0x02C6),
        (0x89, 0x2030),
        (0x8A, 0x0160),
        (0x8B, 0x2039),
        (0x8C, 0x0152),
        (0x8E, 0x017D),
        (0x91, 0x2018),
        (0x92, 0x2019),
        (0x93, 0x201C),
        (0x94, 0x201D),
        (0x95, 0x2022),
        (0x96, 0x2013),
        (0x97, 0x2014),
        (0x98, 0x02DC),
        (0x99, 0x2122),
        (0x9A, 0x0161),
        (0x9B, 0x203A),
        (0x9C, 0x0153),
        (0x9E, 0x017E),
        (0x9F, 0x0178),
    ];
    if n == 0 || n > 0x10FFFF || (0xD800..=0xDFFF).contains(&n) {
        return '\u{FFFD}';
    }
    for (k, v) in C1 {
        if n == k {
            n = v as u64;
        }
    }
    char::from_u32(n as u32).unwrap_or('\u{FFFD}')
}

// ---------------------------------------------------------------------------

pub struct RefTokenizer<'a, S: RSink> {
    pub input: &'a [char],
    pub pos: usize,
    pub state: RState,
    pub sink: &'a mut S,
    pub last_start_tag: Option<String>,
    tag: RTag,
    attr_name: String,
    attr_value: String,
    have_attr: bool,
    comment: String,
    doctype: RDoctype,
    temp: String,
    done: bool,
    /// statistics for the callers
    pub charrefs_resolved: u32,
    pub states_seen: std::collections::HashSet<RState>,
    /// per state: was a line feed consumed in it
    pub lf_in_state: std::collections::HashSet<RState>,
}

const EOF: Option<char> = None;

fn ws(c: char) -> bool {
    matches!(c, '\t' | '\n' | '\x0C' | ' ')
}

impl<'a, S: RSink> RefTokenizer<'a, S> {
    pub fn new(input: &'a [char], sink: &'a mut S, state: RState, last_start_tag: Option<String>) -> Self {
        RefTokenizer {
            input,
            pos: 0,
            state,
            sink,
            last_start_tag,
            tag: RTag::default(),
            attr_name: String::new(),
            attr_value: String::new(),
            have_attr: false,
            comment: String::new(),
            doctype: RDoctype::default(),
            temp: String::new(),
            done: false,
            charrefs_resolved: 0,
            states_seen: Default::default(),
            lf_in_state: Default::default(),
        }
    }

    fn next(&mut self) -> Option<char> {
        let c = self.input.get(self.pos).copied();
        // consuming EOF also advances, so that "reconsume" is uniformly pos -= 1
        self.pos += 1;
        if c == Some('\n') {
            self.lf_in_state.insert(self.state);
        }
        c
    }
    fn reconsume(&mut self, st: RState) {
        self.pos -= 1;
        self.state = st;
    }
    fn consumed(&self) -> usize {
        self.pos.min(self.input.len())
    }
    fn emit(&mut self, t: RTok) -> RResult {
        let p = self.consumed();
        self.sink.token(t, p)
    }
    fn emit_char(&mut self, c: char) {
        let _ = self.emit(RTok::Char(c));
    }
    fn emit_str(&mut self, s: &str) {
        for c in s.chars() {
            self.emit_char(c);
        }
    }
    fn emit_eof(&mut self) {
        let _ = self.emit(RTok::Eof);
        self.done = true;
    }
    fn emit_comment(&mut self) {
        let c = std::mem::take(&mut self.comment);
        let _ = self.emit(RTok::Comment(c));
    }
    fn emit_doctype(&mut self) {
        let d = std::mem::take(&mut self.doctype);
        let _ = self.emit(RTok::Doctype(d));
    }
    fn new_tag(&mut self, end: bool) {
        self.tag = RTag { end, ..RTag::default() };
        self.have_attr = false;
    }
    fn start_attr(&mut self) {
        self.finish_attr();
        self.attr_name.clear();
        self.attr_value.clear();
        self.have_attr = true;
    }
    /// The attribute under construction is complete: keep it unless its name
    /// is already on the token.
    fn finish_attr(&mut self) {
        if !self.have_attr {
            return;
        }
        self.have_attr = false;
        let name = std::mem::take(&mut self.attr_name);
        let value = std::mem::take(&mut self.attr_value);
        if self.tag.attrs.iter().any(|(n, _)| *n == name) {
            self.tag.dup = true;
        } else {
            self.tag.attrs.push((name, value));
        }
    }
    fn emit_tag(&mut self) {
        self.finish_attr();
        let t = std::mem::take(&mut self.tag);
        if !t.end {
            self.last_start_tag = Some(t.name.clone());
        }
        // every "emit the current tag token" in the standard is paired with
        // "switch to the data state" (done by the callers before emitting)
        let r = self.emit(RTok::Tag(t));
        match r {
            RResult::Continue => {},
            RResult::Plaintext => self.state = RState::Plaintext,
            RResult::Raw(RawKind::Rcdata) => self.state = RState::Rcdata,
            RResult::Raw(RawKind::Rawtext) => self.state = RState::Rawtext,
            RResult::Raw(RawKind::ScriptData) => self.state = RState::ScriptData,
        }
    }
    fn appropriate_end_tag(&self) -> bool {
        self.tag.end && self.last_start_tag.as_deref() == Some(self.tag.name.as_str())
    }
    fn in_attr(ret: RState) -> bool {
        matches!(ret, RState::AttrValueDq | RState::AttrValueSq | RState::AttrValueUnq)
    }
    fn flush_charref(&mut self, ret: RState, s: &str) {
        if Self::in_attr(ret) {
            self.attr_value.push_str(s);
        } else {
            self.emit_str(s);
        }
    }

    /// §13.2.5.72–80, entered after '&' was consumed; leaves the tokenizer in
    /// the return state.
    fn character_reference(&mut self, ret: RState) {
        self.state = ret;
        let at = self.pos; // first char after '&'
        let c = self.input.get(at).copied();
        match c {
            Some(c) if c.is_ascii_alphanumeric() => {
                // named character reference state
                if let Some((len, cps)) = longest_entity(self.input, at) {
                    let last = self.input[at + len - 1];
                    let nextc = self.input.get(at + len).copied();
                    if Self::in_attr(ret)
                        && last != ';'
                        && matches!(nextc, Some(n) if n == '=' || n.is_ascii_alphanumeric())
                    {
                        // historical reasons: not a reference
                        let lit: String = std::iter::once('&').chain(self.input[at..at + len].iter().copied()).collect();
                        self.pos = at + len;
                        self.flush_charref(ret, &lit);
                    } else {
                        self.pos = at + len;
                        let s: String = cps.iter().collect();
                        self.charrefs_resolved += 1;
                        self.flush_charref(ret, &s);
                    }
                } else {
                    // no match: flush "&"; the ambiguous ampersand state then
                    // passes alphanumerics through as ordinary characters and
                    // reconsumes anything else in the return state.
                    self.flush_charref(ret, "&");
                }
            },
            Some('#') => {
                let mut p = at + 1;
                let mut lit = String::from("&#");
                let hex = matches!(self.input.get(p), Some('x') | Some('X'));
                if hex {
                    lit.push(self.input[p]);
                    p += 1;
                }
                let mut n: u64 = 0;
                let mut digits = 0;
                while let Some(&d) = self.input.get(p) {
                    let v = if hex { d.to_digit(16) } else { d.to_digit(10) };
                    let Some(v) = v else { break };
                    if !d.is_ascii() {
                        break;
                    }
                    n = n * if hex { 16 } else { 10 } + v as u64;
                    if n > 0x10FFFF {
                        n = 0x110000;
                    }
                    digits += 1;
                    p += 1;
                }
                if digits == 0 {
                    // absence-of-digits: flush what was consumed, reconsume in return state
                    self.pos = p;
                    self.flush_charref(ret, &lit);
                } else {
                    if self.input.get(p) == Some(&';') {
                        p += 1;
                    }
                    self.pos = p;
                    self.charrefs_resolved += 1;
                    let ch = numeric_value(n);
                    self.flush_charref(ret, &ch.to_string());
                }
            },
            _ => {
                self.flush_charref(ret, "&");
            },
        }
    }

    fn lookahead_ci(&self, word: &str) -> bool {
        let w: Vec<char> = word.chars().collect();
        if self.pos + w.len() > self.input.len() {
            return false;
        }
        self.input[self.pos..self.pos + w.len()]
            .iter()
            .zip(w.iter())
            .all(|(a, b)| a.eq_ignore_ascii_case(b))
    }
    fn lookahead_exact(&self, word: &str) -> bool {
        let w: Vec<char> = word.chars().collect();
        self.pos + w.len() <= self.input.len() && self.input[self.pos..self.pos + w.len()] == w[..]
    }

    pub fn run(&mut self) {
        while !self.done {
            self.step();
        }
    }

    /// state reached so far (for priming-prefix validation)
    pub fn run_until_input_end(&mut self) -> RState {
        while !self.done && self.pos < self.input.len() {
            self.step();
        }
        self.state
    }

    fn raw_end_tag_name(&mut self, c: Option<char>, back: RState) {
        match c {
            Some(c) if ws(c) && self.appropriate_end_tag() => self.state = RState::BeforeAttrName,
            Some('/') if self.appropriate_end_tag() => self.state = RState::SelfClosingStartTag,
            Some('>') if self.appropriate_end_tag() => {
                self.state = RState::Data;
                self.emit_tag();
            },
            Some(c) if c.is_ascii_alphabetic() => {
                self.tag.name.push(c.to_ascii_lowercase());
                self.temp.push(c);
            },
            _ => {
                self.emit_str("</");
                let t = std::mem::take(&mut self.temp);
                self.emit_str(&t);
                self.reconsume(back);
            },
        }
    }

    fn step(&mut self) {
        use RState::*;
        self.states_seen.insert(self.state);
        match self.state {
            Data => match self.next() {
                Some('&') => self.character_reference(Data),
                Some('<') => self.state = TagOpen,
                Some(c) => self.emit_char(c), // NUL is emitted as is
                EOF => self.emit_eof(),
            },
            Rcdata => match self.next() {
                Some('&') => self.character_reference(Rcdata),
                Some('<') => self.state = RcdataLt,
                Some('\0') => self.emit_char('\u{FFFD}'),
                Some(c) => self.emit_char(c),
                EOF => self.emit_eof(),
            },
            Rawtext => match self.next() {
                Some('<') => self.state = RawtextLt,
                Some('\0') => self.emit_char('\u{FFFD}'),
                Some(c) => self.emit_char(c),
                EOF => self.emit_eof(),
            },
            ScriptData => match self.next() {
                Some('<') => self.state = ScriptDataLt,
                Some('\0') => self.emit_char('\u{FFFD}'),
                Some(c) => self.emit_char(c),
                EOF => self.emit_eof(),
            },
            Plaintext => match self.next() {
                Some('\0') => self.emit_char('\u{FFFD}'),
                Some(c) => self.emit_char(c),
                EOF => self.emit_eof(),
            },
            TagOpen => match self.next() {
                Some('!') => self.state = MarkupDeclarationOpen,
                Some('/') => self.state = EndTagOpen,
                Some(c) if c.is_ascii_alphabetic() => {
                    self.new_tag(false);
                    self.reconsume(TagName);
                },
                Some('?') => {
                    self.comment.clear();
                    self.reconsume(BogusComment);
                },
                EOF => {
                    self.emit_char('<');
                    self.emit_eof();
                },
                Some(_) => {
                    self.emit_char('<');
                    self.reconsume(Data);
                },
            },
            EndTagOpen => match self.next() {
                Some(c) if c.is_ascii_alphabetic() => {
                    self.new_tag(true);
                    self.reconsume(TagName);
                },
                Some('>') => self.state = Data,
                EOF => {
                    self.emit_str("</");
                    self.emit_eof();
                },
                Some(_) => {
                    self.comment.clear();
                    self.reconsume(BogusComment);
                },
            },
            TagName => match self.next() {
                Some(c) if ws(c) => self.state = BeforeAttrName,
                Some('/') => self.state = SelfClosingStartTag,
                Some('>') => {
                    self.state = Data;
                    self.emit_tag();
                },
                Some('\0') => self.tag.name.push('\u{FFFD}'),
                Some(c) => self.tag.name.push(c.to_ascii_lowercase()),
                EOF => self.emit_eof(),
            },
            RcdataLt => match self.next() {
                Some('/') => {
                    self.temp.clear();
                    self.state = RcdataEndTagOpen;
                },
                _ => {
                    self.emit_char('<');
                    self.reconsume(Rcdata);
                },
            },
            RcdataEndTagOpen => match self.next() {
                Some(c) if c.is_ascii_alphabetic() => {
                    self.new_tag(true);
                    self.reconsume(RcdataEndTagName);
                },
                _ => {
                    self.emit_str("</");
                    self.reconsume(Rcdata);
                },
            },
            RcdataEndTagName => {
                let c = self.next();
                self.raw_end_tag_name(c, Rcdata)
            },
            RawtextLt => match self.next() {
                Some('/') => {
                    self.temp.clear();
                    self.state = RawtextEndTagOpen;
                },
                _ => {
                    self.emit_char('<');
                    self.reconsume(Rawtext);
                },
            },
            RawtextEndTagOpen => match self.next() {
                Some(c) if c.is_ascii_alphabetic() => {
                    self.new_tag(true);
                    self.reconsume(RawtextEndTagName);
                },
                _ => {
                    self.emit_str("</");
                    self.reconsume(Rawtext);
                },
            },
            RawtextEndTagName => {
                let c = self.next();
                self.raw_end_tag_name(c, Rawtext)
            },
            ScriptDataLt => match self.next() {
                Some('/') => {
                    self.temp.clear();
                    self.state = ScriptDataEndTagOpen;
                },
                Some('!') => {
                    self.state = ScriptDataEscapeStart;
                    self.emit_str("<!");
                },
                _ => {
                    self.emit_char('<');
                    self.reconsume(ScriptData);
                },
            },
            ScriptDataEndTagOpen => match self.next() {
                Some(c) if c.is_ascii_alphabetic() => {
                    self.new_tag(true);
                    self.reconsume(ScriptDataEndTagName);
                },
                _ => {
                    self.emit_str("</");
                    self.reconsume(ScriptData);
                },
            },
            ScriptDataEndTagName => {
                let c = self.next();
                self.raw_end_tag_name(c, ScriptData)
            },
            ScriptDataEscapeStart => match self.next() {
                Some('-') => {
                    self.state = ScriptDataEscapeStartDash;
                    self.emit_char('-');
                },
                _ => self.reconsume(ScriptData),
            },
            ScriptDataEscapeStartDash => match self.next() {
                Some('-') => {
                    self.state = ScriptDataEscapedDashDash;
                    self.emit_char('-');
                },
                _ => self.reconsume(ScriptData),
            },
            ScriptDataEscaped => match self.next() {
                Some('-') => {
                    self.state = ScriptDataEscapedDash;
                    self.emit_char('-');
                },
                Some('<') => self.state = ScriptDataEscapedLt,
                Some('\0') => self.emit_char('\u{FFFD}'),
                Some(c) => self.emit_char(c),
                EOF => self.emit_eof(),
            },
            ScriptDataEscapedDash => match self.next() {
                Some('-') => {
                    self.state = ScriptDataEscapedDashDash;
                    self.emit_char('-');
                },
                Some('<') => self.state = ScriptDataEscapedLt,
                Some('\0') => {
                    self.state = ScriptDataEscaped;
                    self.emit_char('\u{FFFD}');
                },
                Some(c) => {
                    self.state = ScriptDataEscaped;
                    self.emit_char(c);
                },
                EOF => self.emit_eof(),
            },
            ScriptDataEscapedDashDash => match self.next() {
                Some('-') => self.emit_char('-'),
                Some('<') => self.state = ScriptDataEscapedLt,
                Some('>') => {
                    self.state = ScriptData;
                    self.emit_char('>');
                },
                Some('\0') => {
                    self.state = ScriptDataEscaped;
                    self.emit_char('\u{FFFD}');
                },
                Some(c) => {
                    self.state = ScriptDataEscaped;
                    self.emit_char(c);
                },
                EOF => self.emit_eof(),
            },
            ScriptDataEscapedLt => match self.next() {
                Some('/') => {
                    self.temp.clear();
                    self.state = ScriptDataEscapedEndTagOpen;
                },
                Some(c) if c.is_ascii_alphabetic() => {
                    self.temp.clear();
                    self.emit_char('<');
                    self.reconsume(ScriptDataDoubleEscapeStart);
                },
                _ => {
                    self.emit_char('<');
                    self.reconsume(ScriptDataEscaped);
                },
            },
            ScriptDataEscapedEndTagOpen => match self.next() {
                Some(c) if c.is_ascii_alphabetic() => {
                    self.new_tag(true);
                    self.reconsume(ScriptDataEscapedEndTagName);
                },
                _ => {
                    self.emit_str("</");
                    self.reconsume(ScriptDataEscaped);
                },
            },
            ScriptDataEscapedEndTagName => {
                let c = self.next();
                self.raw_end_tag_name(c, ScriptDataEscaped)
            },
            ScriptDataDoubleEscapeStart => match self.next() {
                Some(c) if ws(c) || c == '/' || c == '>' => {
                    self.state = if self.temp == "script" {
                        ScriptDataDoubleEscaped
                    } else {
                        ScriptDataEscaped
                    };
                    self.emit_char(c);
                },
                Some(c) if c.is_ascii_alphabetic() => {
                    self.temp.push(c.to_ascii_lowercase());
                    self.emit_char(c);
                },
                _ => self.reconsume(ScriptDataEscaped),
            },
            ScriptDataDoubleEscaped => match self.next() {
                Some('-') => {
                    self.state = ScriptDataDoubleEscapedDash;
                    self.emit_char('-');
                },
                Some('<') => {
                    self.state = ScriptDataDoubleEscapedLt;
                    self.emit_char('<');
                },
                Some('\0') => self.emit_char('\u{FFFD}'),
                Some(c) => self.emit_char(c),
                EOF => self.emit_eof(),
            },
            ScriptDataDoubleEscapedDash => match self.next() {
                Some('-') => {
                    self.state = ScriptDataDoubleEscapedDashDash;
                    self.emit_char('-');
                },
                Some('<') => {
                    self.state = ScriptDataDoubleEscapedLt;
                    self.emit_char('<');
                },
                Some('\0') => {
                    self.state = ScriptDataDoubleEscaped;
                    self.emit_char('\u{FFFD}');
                },
                Some(c) => {
                    self.state = ScriptDataDoubleEscaped;
                    self.emit_char(c);
                },
                EOF => self.emit_eof(),
            },
            ScriptDataDoubleEscapedDashDash => match self.next() {
                Some('-') => self.emit_char('-'),
                Some('<') => {
                    self.state = ScriptDataDoubleEscapedLt;
                    self.emit_char('<');
                },
                Some('>') => {
                    self.state = ScriptData;
                    self.emit_char('>');
                },
                Some('\0') => {
                    self.state = ScriptDataDoubleEscaped;
                    self.emit_char('\u{FFFD}');
                },
                Some(c) => {
                    self.state = ScriptDataDoubleEscaped;
                    self.emit_char(c);
                },
                EOF => self.emit_eof(),
            },
            ScriptDataDoubleEscapedLt => match self.next() {
                Some('/') => {
                    self.temp.clear();
                    self.state = ScriptDataDoubleEscapeEnd;
                    self.emit_char('/');
                },
                _ => self.reconsume(ScriptDataDoubleEscaped),
            },
            ScriptDataDoubleEscapeEnd => match self.next() {
                Some(c) if ws(c) || c == '/' || c == '>' => {
                    self.state = if self.temp == "script" {
                        ScriptDataEscaped
                    } else {
                        ScriptDataDoubleEscaped
                    };
                    self.emit_char(c);
                },
                Some(c) if c.is_ascii_alphabetic() => {
                    self.temp.push(c.to_ascii_lowercase());
                    self.emit_char(c);
                },
                _ => self.reconsume(ScriptDataDoubleEscaped),
            },
            BeforeAttrName => match self.next() {
                Some(c) if ws(c) => {},
                Some('/') | Some('>') | EOF => self.reconsume(AfterAttrName),
                Some('=') => {
                    self.start_attr();
                    self.attr_name.push('=');
                    self.state = AttrName;
                },
                Some(_) => {
                    self.start_attr();
                    self.reconsume(AttrName);
                },
            },
            AttrName => match self.next() {
                Some(c) if ws(c) || c == '/' || c == '>' => self.reconsume(AfterAttrName),
                EOF => self.reconsume(AfterAttrName),
                Some('=') => self.state = BeforeAttrValue,
                Some('\0') => self.attr_name.push('\u{FFFD}'),
                Some(c) => self.attr_name.push(c.to_ascii_lowercase()),
            },
            AfterAttrName => match self.next() {
                Some(c) if ws(c) => {},
                Some('/') => self.state = SelfClosingStartTag,
                Some('=') => self.state = BeforeAttrValue,
                Some('>') => {
                    self.state = Data;
                    self.emit_tag();
                },
                EOF => self.emit_eof(),
                Some(_) => {
                    self.start_attr();
                    self.reconsume(AttrName);
                },
            },
            BeforeAttrValue => match self.next() {
                Some(c) if ws(c) => {},
                Some('"') => self.state = AttrValueDq,
                Some('\'') => self.state = AttrValueSq,
                Some('>') => {
                    self.state = Data;
                    self.emit_tag();
                },
                _ => self.reconsume(AttrValueUnq),
            },
            AttrValueDq => match self.next() {
                Some('"') => self.state = AfterAttrValueQuoted,
                Some('&') => self.character_reference(AttrValueDq),
                Some('\0') => self.attr_value.push('\u{FFFD}'),
                Some(c) => self.attr_value.push(c),
                EOF => self.emit_eof(),
            },
            AttrValueSq => match self.next() {
                Some('\'') => self.state = AfterAttrValueQuoted,
                Some('&') => self.character_reference(AttrValueSq),
                Some('\0') => self.attr_value.push('\u{FFFD}'),
                Some(c) => self.attr_value.push(c),
                EOF => self.emit_eof(),
            },
            AttrValueUnq => match self.next() {
                Some(c) if ws(c) => self.state = BeforeAttrName,
                Some('&') => self.character_reference(AttrValueUnq),
                Some('>') => {
                    self.state = Data;
                    self.emit_tag();
                },
                Some('\0') => self.attr_value.push('\u{FFFD}'),
                Some(c) => self.attr_value.push(c),
                EOF => self.emit_eof(),
            },
            AfterAttrValueQuoted => match self.next() {
                Some(c) if ws(c) => self.state = BeforeAttrName,
                Some('/') => self.state = SelfClosingStartTag,
                Some('>') => {
                    self.state = Data;
                    self.emit_tag();
                },
                EOF => self.emit_eof(),
                Some(_) => self.reconsume(BeforeAttrName),
            },
            SelfClosingStartTag => match self.next() {
                Some('>') => {
                    self.tag.self_closing = true;
                    self.state = Data;
                    self.emit_tag();
                },
                EOF => self.emit_eof(),
                Some(_) => self.reconsume(BeforeAttrName),
            },
            BogusComment => match self.next() {
                Some('>') => {
                    self.state = Data;
                    self.emit_comment();
                },
                EOF => {
                    self.emit_comment();
                    self.emit_eof();
                },
                Some('\0') => self.comment.push('\u{FFFD}'),
                Some(c) => self.comment.push(c),
            },
            MarkupDeclarationOpen => {
                if self.lookahead_exact("--") {
                    self.pos += 2;
                    self.comment.clear();
                    self.state = CommentStart;
                } else if self.lookahead_ci("doctype") {
                    self.pos += 7;
                    self.state = Doctype;
                } else if self.lookahead_exact("[CDATA[") {
                    self.pos += 7;
                    if self.sink.foreign() {
                        self.state = CdataSection;
                    } else {
                        self.comment = "[CDATA[".to_string();
                        self.state = BogusComment;
                    }
                } else {
                    self.comment.clear();
                    self.state = BogusComment;
                }
            },
            CommentStart => match self.next() {
                Some('-') => self.state = CommentStartDash,
                Some('>') => {
                    self.state = Data;
                    self.emit_comment();
                },
                _ => self.reconsume(Comment),
            },
            CommentStartDash => match self.next() {
                Some('-') => self.state = CommentEnd,
                Some('>') => {
                    self.state = Data;
                    self.emit_comment();
                },
                EOF => {
                    self.emit_comment();
                    self.emit_eof();
                },
                Some(_) => {
                    self.comment.push('-');
                    self.reconsume(Comment);
                },
            },
            Comment => match self.next() {
                Some('<') => {
                    self.comment.push('<');
                    self.state = CommentLt;
                },
                Some('-') => self.state = CommentEndDash,
                Some('\0') => self.comment.push('\u{FFFD}'),
                EOF => {
                    self.emit_comment();
                    self.emit_eof();
                },
                Some(c) => self.comment.push(c),
            },
            CommentLt => match self.next() {
                Some('!') => {
                    self.comment.push('!');
                    self.state = CommentLtBang;
                },
                Some('<') => self.comment.push('<'),
                _ => self.reconsume(Comment),
            },
            CommentLtBang => match self.next() {
                Some('-') => self.state = CommentLtBangDash,
                _ => self.reconsume(Comment),
            },
            CommentLtBangDash => match self.next() {
                Some('-') => self.state = CommentLtBangDashDash,
                _ => self.reconsume(CommentEndDash),
            },
            CommentLtBangDashDash => {
                let _ = self.next();
                self.reconsume(CommentEnd);
            },
            CommentEndDash => match self.next() {
                Some('-') => self.state = CommentEnd,
                EOF => {
                    self.emit_comment();
                    self.emit_eof();
                },
                Some(_) => {
                    self.comment.push('-');
                    self.reconsume(Comment);
                },
            },
            CommentEnd => match self.next() {
                Some('>') => {
                    self.state = Data;
                    self.emit_comment();
                },
                Some('!') => self.state = CommentEndBang,
                Some('-') => self.comment.push('-'),
                EOF => {
                    self.emit_comment();
                    self.emit_eof();
                },
                Some(_) => {
                    self.comment.push_str("--");
                    self.reconsume(Comment);
                },
            },
            CommentEndBang => match self.next() {
                Some('-') => {
                    self.comment.push_str("--!");
                    self.state = CommentEndDash;
                },
                Some('>') => {
                    self.state = Data;
                    self.emit_comment();
                },
                EOF => {
                    self.emit_comment();
                    self.emit_eof();
                },
                Some(_) => {
                    self.comment.push_str("--!");
                    self.reconsume(Comment);
                },
            },
            Doctype => match self.next() {
                Some(c) if ws(c) => self.state = BeforeDoctypeName,
                Some('>') => self.reconsume(BeforeDoctypeName),
                EOF => {
                    self.doctype = RDoctype { force_quirks: true, ..RDoctype::default() };
                    self.emit_doctype();
                    self.emit_eof();
                },
                Some(_) => self.reconsume(BeforeDoctypeName),
            },
            BeforeDoctypeName => match self.next() {
                Some(c) if ws(c) => {},
                Some('\0') => {
                    self.doctype = RDoctype { name: Some("\u{FFFD}".into()), ..RDoctype::default() };
                    self.state = DoctypeName;
                },
                Some('>') => {
                    self.doctype = RDoctype { force_quirks: true, ..RDoctype::default() };
                    self.state = Data;
                    self.emit_doctype();
                },
                EOF => {
                    self.doctype = RDoctype { force_quirks: true, ..RDoctype::default() };
                    self.emit_doctype();
                    self.emit_eof();
                },
                Some(c) => {
                    self.doctype = RDoctype {
                        name: Some(c.to_ascii_lowercase().to_string()),
                        ..RDoctype::default()
                    };
                    self.state = DoctypeName;
                },
            },
            DoctypeName => match self.next() {
                Some(c) if ws(c) => self.state = AfterDoctypeName,
                Some('>') => {
                    self.state = Data;
                    self.emit_doctype();
                },
                Some('\0') => self.doctype.name.as_mut().unwrap().push('\u{FFFD}'),
                EOF => {
                    self.doctype.force_quirks = true;
                    self.emit_doctype();
                    self.emit_eof();
                },
                Some(c) => self.doctype.name.as_mut().unwrap().push(c.to_ascii_lowercase()),
            },
            AfterDoctypeName => match self.next() {
                Some(c) if ws(c) => {},
                Some('>') => {
                    self.state = Data;
                    self.emit_doctype();
                },
                EOF => {
                    self.doctype.force_quirks = true;
                    self.emit_doctype();
                    self.emit_eof();
                },
                Some(_) => {
                    self.pos -= 1;
                    if self.lookahead_ci("public") {
                        self.pos += 6;
                        self.state = AfterDoctypePublicKeyword;
                    } else if self.lookahead_ci("system") {
                        self.pos += 6;
                        self.state = AfterDoctypeSystemKeyword;
                    } else {
                        self.pos += 1;
                        self.doctype.force_quirks = true;
                        self.reconsume(BogusDoctype);
                    }
                },
            },
            AfterDoctypePublicKeyword => match self.next() {
                Some(c) if ws(c) => self.state = BeforeDoctypePublicId,
                Some('"') => {
                    self.doctype.public = Some(String::new());
                    self.state = DoctypePublicIdDq;
                },
                Some('\'') => {
                    self.doctype.public = Some(String::new());
                    self.state = DoctypePublicIdSq;
                },
                Some('>') => {
                    self.doctype.force_quirks = true;
                    self.state = Data;
                    self.emit_doctype();
                },
                EOF => {
                    self.doctype.force_quirks = true;
                    self.emit_doctype();
                    self.emit_eof();
                },
                Some(_) => {
                    self.doctype.force_quirks = true;
                    self.reconsume(BogusDoctype);
                },
            },
            BeforeDoctypePublicId => match self.next() {
                Some(c) if ws(c) => {},
                Some('"') => {
                    self.doctype.public = Some(String::new());
                    self.state = DoctypePublicIdDq;
                },
                Some('\'') => {
                    self.doctype.public = Some(String::new());
                    self.state = DoctypePublicIdSq;
                },
                Some('>') => {
                    self.doctype.force_quirks = true;
                    self.state = Data;
                    self.emit_doctype();
                },
                EOF => {
                    self.doctype.force_quirks = true;
                    self.emit_doctype();
                    self.emit_eof();
                },
                Some(_) => {
                    self.doctype.force_quirks = true;
                    self.reconsume(BogusDoctype);
                },
            },
            DoctypePublicIdDq | DoctypePublicIdSq => {
                let q = if self.state == DoctypePublicIdDq { '"' } else { '\'' };
                match self.next() {
                    Some(c) if c == q => self.state = AfterDoctypePublicId,
                    Some('\0') => self.doctype.public.as_mut().unwrap().push('\u{FFFD}'),
                    Some('>') => {
                        self.doctype.force_quirks = true;
                        self.state = Data;
                        self.emit_doctype();
                    },
                    EOF => {
                        self.doctype.force_quirks = true;
                        self.emit_doctype();
                        self.emit_eof();
                    },
                    Some(c) => self.doctype.public.as_mut().unwrap().push(c),
                }
            },
            AfterDoctypePublicId => match self.next() {
                Some(c) if ws(c) => self.state = BetweenDoctypePublicAndSystem,
                Some('>') => {
                    self.state = Data;
                    self.emit_doctype();
                },
                Some('"') => {
                    self.doctype.system = Some(String::new());
                    self.state = DoctypeSystemIdDq;
                },
                Some('\'') => {
                    self.doctype.system = Some(String::new());
                    self.state = DoctypeSystemIdSq;
                },
                EOF => {
                    self.doctype.force_quirks = true;
                    self.emit_doctype();
                    self.emit_eof();
                },
                Some(_) => {
                    self.doctype.force_quirks = true;
                    self.reconsume(BogusDoctype);
                },
            },
            BetweenDoctypePublicAndSystem => match self.next() {
                Some(c) if ws(c) => {},
                Some('>') => {
                    self.state = Data;
                    self.emit_doctype();
                },
                Some('"') => {
                    self.doctype.system = Some(String::new());
                    self.state = DoctypeSystemIdDq;
                },
                Some('\'') => {
                    self.doctype.system = Some(String::new());
                    self.state = DoctypeSystemIdSq;
                },
                EOF => {
                    self.doctype.force_quirks = true;
                    self.emit_doctype();
                    self.emit_eof();
                },
                Some(_) => {
                    self.doctype.force_quirks = true;
                    self.reconsume(BogusDoctype);
                },
            },
            AfterDoctypeSystemKeyword => match self.next() {
                Some(c) if ws(c) => self.state = BeforeDoctypeSystemId,
                Some('"') => {
                    self.doctype.system = Some(String::new());
                    self.state = DoctypeSystemIdDq;
                },
                Some('\'') => {
                    self.doctype.system = Some(String::new());
                    self.state = DoctypeSystemIdSq;
                },
                Some('>') => {
                    self.doctype.force_quirks = true;
                    self.state = Data;
                    self.emit_doctype();
                },
                EOF => {
                    self.doctype.force_quirks = true;
                    self.emit_doctype();
                    self.emit_eof();
                },
                Some(_) => {
                    self.doctype.force_quirks = true;
                    self.reconsume(BogusDoctype);
                },
            },
            BeforeDoctypeSystemId => match self.next() {
                Some(c) if ws(c) => {},
                Some('"') => {
                    self.doctype.system = Some(String::new());
                    self.state = DoctypeSystemIdDq;
                },
                Some('\'') => {
                    self.doctype.system = Some(String::new());
                    self.state = DoctypeSystemIdSq;
                },
                Some('>') => {
                    self.doctype.force_quirks = true;
                    self.state = Data;
                    self.emit_doctype();
                },
                EOF => {
                    self.doctype.force_quirks = true;
                    self.emit_doctype();
                    self.emit_eof();
                },
                Some(_) => {
                    self.doctype.force_quirks = true;
                    self.reconsume(BogusDoctype);
                },
            },
            DoctypeSystemIdDq | DoctypeSystemIdSq => {
                let q = if self.state == DoctypeSystemIdDq { '"' } else { '\'' };
                match self.next() {
                    Some(c) if c == q => self.state = AfterDoctypeSystemId,
                    Some('\0') => self.doctype.system.as_mut().unwrap().push('\u{FFFD}'),
                    Some('>') => {
                        self.doctype.force_quirks = true;
                        self.state = Data;
                        self.emit_doctype();
                    },
                    EOF => {
                        self.doctype.force_quirks = true;
                        self.emit_doctype();
                        self.emit_eof();
                    },
                    Some(c) => self.doctype.system.as_mut().unwrap().push(c),
                }
            },
            AfterDoctypeSystemId => match self.next() {
                Some(c) if ws(c) => {},
                Some('>') => {
                    self.state = Data;
                    self.emit_doctype();
                },
                EOF => {
                    self.doctype.force_quirks = true;
                    self.emit_doctype();
                    self.emit_eof();
                },
                Some(_) => self.reconsume(BogusDoctype), // no force-quirks here
            },
            BogusDoctype => match self.next() {
                Some('>') => {
                    self.state = Data;
                    self.emit_doctype();
                },
                EOF => {
                    self.emit_doctype();
                    self.emit_eof();
                },
                Some(_) => {},
            },
            CdataSection => match self.next() {
                Some(']') => self.state = CdataSectionBracket,
                EOF => self.emit_eof(),
                Some(c) => self.emit_char(c),
            },
            CdataSectionBracket => match self.next() {
                Some(']') => self.state = CdataSectionEnd,
                _ => {
                    self.emit_char(']');
                    self.reconsume(CdataSection);
                },
            },
            CdataSectionEnd => match self.next() {
                Some(']') => self.emit_char(']'),
                Some('>') => self.state = Data,
                _ => {
                    self.emit_str("]]");
                    self.reconsume(CdataSection);
                },
            },
        }
    }
}
