//! Reference models.
