//! Reference models.
pub mod tokenizer;
pub mod dom;
pub mod treebuilder;
pub mod metacharset;
