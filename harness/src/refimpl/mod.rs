//! Reference models.
pub mod tokenizer;
