//! Arena DOM of the reference tree builder.

use crate::sinks::canon::{CAttr, CKind, TreeView};

pub type Id = usize;

pub const HTML: &str = "http://www.w3.org/1999/xhtml";
pub const SVG: &str = "http://www.w3.org/2000/svg";
pub const MATHML: &str = "http://www.w3.org/1998/Math/MathML";
pub const XLINK: &str = "http://www.w3.org/1999/xlink";
pub const XML: &str = "http://www.w3.org/XML/1998/namespace";
pub const XMLNS: &str = "http://www.w3.org/2000/xmlns/";

#[derive(Clone, Debug, PartialEq, Eq)]
pub struct RAttr {
    pub ns: &'static str,
    pub prefix: Option<&'static str>,
    pub local: String,
    pub value: String,
}

#[derive(Clone, Debug)]
pub enum RKind {
    Document,
    Fragment,
    Doctype { name: String, public: String, system: String },
    Text(String),
    Comment(String),
    Element { ns: &'static str, local: String, attrs: Vec<RAttr>, dup: bool },
}

#[derive(Clone, Debug)]
pub struct RNode {
    pub kind: RKind,
    pub parent: Option<Id>,
    pub children: Vec<Id>,
    pub tmpl: Option<Id>,
    /// shadow roots (template-contents fragments of declarative shadow root templates)
    pub shadow: Vec<Id>,
}

#[derive(Default)]
pub struct RefDom {
    pub nodes: Vec<RNode>,
}

pub const DOC: Id = 0;

impl RefDom {
    pub fn new() -> RefDom {
        RefDom { nodes: vec![RNode { kind: RKind::Document, parent: None, children: vec![], tmpl: None, shadow: vec![] }] }
    }
    pub fn add(&mut self, kind: RKind) -> Id {
        self.nodes.push(RNode { kind, parent: None, children: vec![], tmpl: None, shadow: vec![] });
        self.nodes.len() - 1
    }
    pub fn new_element(&mut self, ns: &'static str, local: &str, attrs: Vec<RAttr>, dup: bool) -> Id {
        let id = self.add(RKind::Element { ns, local: local.to_string(), attrs, dup });
        if ns == HTML && local == "template" {
            let f = self.add(RKind::Fragment);
            self.nodes[id].tmpl = Some(f);
        }
        id
    }
    pub fn is_elem(&self, id: Id, ns: &str, local: &str) -> bool {
        matches!(&self.nodes[id].kind, RKind::Element { ns: n, local: l, .. } if *n == ns && l == local)
    }
    pub fn is_html(&self, id: Id, local: &str) -> bool {
        self.is_elem(id, HTML, local)
    }
    pub fn is_html_any(&self, id: Id, locals: &[&str]) -> bool {
        matches!(&self.nodes[id].kind, RKind::Element { ns, local, .. } if *ns == HTML && locals.contains(&local.as_str()))
    }
    pub fn ns_of(&self, id: Id) -> &'static str {
        match &self.nodes[id].kind {
            RKind::Element { ns, .. } => ns,
            _ => "",
        }
    }
    pub fn local_of(&self, id: Id) -> &str {
        match &self.nodes[id].kind {
            RKind::Element { local, .. } => local,
            _ => "",
        }
    }
    pub fn attr(&self, id: Id, local: &str) -> Option<&str> {
        match &self.nodes[id].kind {
            RKind::Element { attrs, .. } => attrs.iter().find(|a| a.ns.is_empty() && a.local == local).map(|a| a.value.as_str()),
            _ => None,
        }
    }
    pub fn detach(&mut self, id: Id) {
        if let Some(p) = self.nodes[id].parent.take() {
            self.nodes[p].children.retain(|c| *c != id);
        }
    }
    pub fn append(&mut self, parent: Id, child: Id) {
        self.detach(child);
        self.nodes[child].parent = Some(parent);
        self.nodes[parent].children.push(child);
    }
    pub fn insert_before(&mut self, parent: Id, before: Id, child: Id) {
        self.detach(child);
        let idx = self.nodes[parent].children.iter().position(|c| *c == before).expect("reference child");
        self.nodes[child].parent = Some(parent);
        self.nodes[parent].children.insert(idx, child);
    }
    /// Insert one character at (parent, before): merge with the text node
    /// immediately before the location.
    pub fn insert_char(&mut self, parent: Id, before: Option<Id>, c: char) {
        if matches!(self.nodes[parent].kind, RKind::Document) {
            return;
        }
        let prev = match before {
            None => self.nodes[parent].children.last().copied(),
            Some(b) => {
                let idx = self.nodes[parent].children.iter().position(|x| *x == b).expect("reference child");
                if idx == 0 {
                    None
                } else {
                    Some(self.nodes[parent].children[idx - 1])
                }
            },
        };
        if let Some(p) = prev {
            if let RKind::Text(t) = &mut self.nodes[p].kind {
                t.push(c);
                return;
            }
        }
        let t = self.add(RKind::Text(c.to_string()));
        match before {
            None => self.append(parent, t),
            Some(b) => self.insert_before(parent, b, t),
        }
    }
}

pub struct RefView<'a>(pub &'a RefDom);

impl<'a> TreeView for RefView<'a> {
    type H = Id;
    fn kind(&self, h: &Id) -> CKind {
        match &self.0.nodes[*h].kind {
            RKind::Document => CKind::Document,
            RKind::Fragment => CKind::Fragment,
            RKind::Doctype { name, public, system } => {
                CKind::Doctype { name: name.clone(), public: public.clone(), system: system.clone() }
            },
            RKind::Text(t) => CKind::Text(t.clone()),
            RKind::Comment(t) => CKind::Comment(t.clone()),
            RKind::Element { ns, local, attrs, dup } => CKind::Element {
                ns: ns.to_string(),
                prefix: None,
                local: local.clone(),
                attrs: attrs
                    .iter()
                    .map(|a| CAttr {
                        ns: a.ns.to_string(),
                        prefix: a.prefix.map(|p| p.to_string()),
                        local: a.local.clone(),
                        value: a.value.clone(),
                    })
                    .collect(),
                dup: Some(*dup),
            },
        }
    }
    fn children(&self, h: &Id) -> Vec<Id> {
        self.0.nodes[*h].children.clone()
    }
    fn shadow_roots(&self, h: &Id) -> Vec<Id> {
        self.0.nodes[*h].shadow.clone()
    }
    fn template_contents(&self, h: &Id) -> Option<Id> {
        self.0.nodes[*h].tmpl
    }
}
