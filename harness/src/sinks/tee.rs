//! Tee sink: every TreeSink call is applied to RcDom and to ModelDom.

use crate::sinks::model::{Id, ModelDom, OwnedName};
use html5ever::tree_builder::{ElementFlags, NodeOrText, QuirksMode, TreeSink};
use html5ever::{Attribute, QualName};
use markup5ever_rcdom::{Handle as RcHandle, RcDom};
use std::borrow::Cow;
use tendril::StrTendril;

#[derive(Clone)]
pub struct TeeHandle {
    pub rc: RcHandle,
    pub id: Id,
}

pub struct Tee {
    pub rc: RcDom,
    pub model: ModelDom,
    /// model id -> RcDom handle, for every handle this sink handed out
    pub handles: std::cell::RefCell<std::collections::HashMap<Id, RcHandle>>,
}

impl Tee {
    pub fn new() -> Tee {
        Tee { rc: RcDom::default(), model: ModelDom::new(), handles: Default::default() }
    }
    fn reg(&self, h: TeeHandle) -> TeeHandle {
        self.handles.borrow_mut().insert(h.id, h.rc.clone());
        h
    }
}

fn split(c: NodeOrText<TeeHandle>) -> (NodeOrText<RcHandle>, NodeOrText<Id>) {
    match c {
        NodeOrText::AppendNode(h) => (NodeOrText::AppendNode(h.rc), NodeOrText::AppendNode(h.id)),
        NodeOrText::AppendText(t) => (NodeOrText::AppendText(t.clone()), NodeOrText::AppendText(t)),
    }
}

fn flags_clone(f: &ElementFlags) -> ElementFlags {
    let mut g = ElementFlags::default();
    g.template = f.template;
    g.mathml_annotation_xml_integration_point = f.mathml_annotation_xml_integration_point;
    g.had_duplicate_attributes = f.had_duplicate_attributes;
    g
}

impl TreeSink for Tee {
    type Handle = TeeHandle;
    type Output = Tee;
    type ElemName<'a> = OwnedName;

    fn finish(self) -> Tee {
        self
    }
    fn parse_error(&self, msg: Cow<'static, str>) {
        self.rc.parse_error(msg.clone());
        self.model.parse_error(msg);
    }
    fn get_document(&self) -> TeeHandle {
        self.reg(TeeHandle { rc: self.rc.get_document(), id: self.model.get_document() })
    }
    fn elem_name<'a>(&'a self, target: &'a TeeHandle) -> OwnedName {
        self.model.elem_name(&target.id)
    }
    fn create_element(&self, name: QualName, attrs: Vec<Attribute>, flags: ElementFlags) -> TeeHandle {
        let f2 = flags_clone(&flags);
        self.reg(TeeHandle {
            rc: self.rc.create_element(name.clone(), attrs.clone(), flags),
            id: self.model.create_element(name, attrs, f2),
        })
    }
    fn create_comment(&self, text: StrTendril) -> TeeHandle {
        self.reg(TeeHandle { rc: self.rc.create_comment(text.clone()), id: self.model.create_comment(text) })
    }
    fn create_pi(&self, target: StrTendril, data: StrTendril) -> TeeHandle {
        self.reg(TeeHandle { rc: self.rc.create_pi(target.clone(), data.clone()), id: self.model.create_pi(target, data) })
    }
    fn append(&self, parent: &TeeHandle, child: NodeOrText<TeeHandle>) {
        let (a, b) = split(child);
        self.rc.append(&parent.rc, a);
        self.model.append(&parent.id, b);
    }
    fn append_based_on_parent_node(&self, element: &TeeHandle, prev_element: &TeeHandle, child: NodeOrText<TeeHandle>) {
        let (a, b) = split(child);
        self.rc.append_based_on_parent_node(&element.rc, &prev_element.rc, a);
        self.model.append_based_on_parent_node(&element.id, &prev_element.id, b);
    }
    fn append_doctype_to_document(&self, name: StrTendril, public_id: StrTendril, system_id: StrTendril) {
        self.rc.append_doctype_to_document(name.clone(), public_id.clone(), system_id.clone());
        self.model.append_doctype_to_document(name, public_id, system_id);
    }
    fn mark_script_already_started(&self, node: &TeeHandle) {
        self.rc.mark_script_already_started(&node.rc);
        self.model.mark_script_already_started(&node.id);
    }
    fn pop(&self, node: &TeeHandle) {
        self.rc.pop(&node.rc);
        self.model.pop(&node.id);
    }
    fn get_template_contents(&self, target: &TeeHandle) -> TeeHandle {
        self.reg(TeeHandle { rc: self.rc.get_template_contents(&target.rc), id: self.model.get_template_contents(&target.id) })
    }
    fn same_node(&self, x: &TeeHandle, y: &TeeHandle) -> bool {
        let a = self.rc.same_node(&x.rc, &y.rc);
        let b = self.model.same_node(&x.id, &y.id);
        if a != b {
            self.model.violations.borrow_mut().push(format!("same_node disagrees: RcDom {a}, model {b}"));
        }
        b
    }
    fn set_quirks_mode(&self, mode: QuirksMode) {
        self.rc.set_quirks_mode(mode);
        self.model.set_quirks_mode(mode);
    }
    fn append_before_sibling(&self, sibling: &TeeHandle, new_node: NodeOrText<TeeHandle>) {
        let (a, b) = split(new_node);
        self.rc.append_before_sibling(&sibling.rc, a);
        self.model.append_before_sibling(&sibling.id, b);
    }
    fn add_attrs_if_missing(&self, target: &TeeHandle, attrs: Vec<Attribute>) {
        self.rc.add_attrs_if_missing(&target.rc, attrs.clone());
        self.model.add_attrs_if_missing(&target.id, attrs);
    }
    fn associate_with_form(&self, target: &TeeHandle, form: &TeeHandle, nodes: (&TeeHandle, Option<&TeeHandle>)) {
        self.rc.associate_with_form(&target.rc, &form.rc, (&nodes.0.rc, nodes.1.map(|n| &n.rc)));
        self.model.associate_with_form(&target.id, &form.id, (&nodes.0.id, nodes.1.map(|n| &n.id)));
    }
    fn remove_from_parent(&self, target: &TeeHandle) {
        self.rc.remove_from_parent(&target.rc);
        self.model.remove_from_parent(&target.id);
    }
    fn reparent_children(&self, node: &TeeHandle, new_parent: &TeeHandle) {
        self.rc.reparent_children(&node.rc, &new_parent.rc);
        self.model.reparent_children(&node.id, &new_parent.id);
    }
    fn is_mathml_annotation_xml_integration_point(&self, handle: &TeeHandle) -> bool {
        let a = self.rc.is_mathml_annotation_xml_integration_point(&handle.rc);
        let b = self.model.is_mathml_annotation_xml_integration_point(&handle.id);
        if a != b {
            self.model
                .violations
                .borrow_mut()
                .push(format!("is_mathml_annotation_xml_integration_point disagrees: RcDom {a}, model {b}"));
        }
        b
    }
    fn set_current_line(&self, line_number: u64) {
        self.rc.set_current_line(line_number);
        self.model.set_current_line(line_number);
    }
    fn allow_declarative_shadow_roots(&self, intended_parent: &TeeHandle) -> bool {
        self.model.allow_declarative_shadow_roots(&intended_parent.id)
    }
    fn attach_declarative_shadow(&self, location: &TeeHandle, template: &TeeHandle, attrs: &[Attribute]) -> bool {
        self.model.attach_declarative_shadow(&location.id, &template.id, attrs)
    }
    fn maybe_clone_an_option_into_selectedcontent(&self, option: &TeeHandle) {
        // A selectedcontent nested in its own option doubles on every mirror; keep
        // generated cases bounded (both sides skip the call alike).
        if self.model.nodes.borrow().len() > 20_000 {
            return;
        }
        self.rc.maybe_clone_an_option_into_selectedcontent(&option.rc);
        self.model.maybe_clone_an_option_into_selectedcontent(&option.id);
        self.model.clone_option_into_selectedcontent(option.id);
    }
}
