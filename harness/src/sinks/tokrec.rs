//! Recording token sinks with a deterministic *policy* (what the sink answers
//! for each token), applied identically to html5ever's tokenizer and to the
//! reference tokenizer.

use crate::refimpl::tokenizer::{RResult, RSink, RTok, RawKind as RRaw};
use html5ever::tokenizer::states::{RawKind, Rawtext, Rcdata, ScriptData};
use html5ever::tokenizer::{TagKind, Token, TokenSink, TokenSinkResult};
use serde::{Deserialize, Serialize};
use std::cell::RefCell;

#[derive(Serialize, Deserialize, Clone, Copy, Debug, Hash, PartialEq, Eq)]
pub enum Action {
    Continue,
    Plaintext,
    Rcdata,
    Rawtext,
    ScriptData,
    /// answer `Script` (a pause; the tokenizer state is unchanged)
    Script,
}

#[derive(Serialize, Deserialize, Clone, Copy, Debug, Hash, PartialEq, Eq)]
pub enum CdataMode {
    Never,
    Always,
    /// true while an unclosed svg/math start tag was seen
    WhileForeign,
}

#[derive(Serialize, Deserialize, Clone, Debug, Hash, PartialEq, Eq)]
pub enum PolicyKind {
    AllContinue,
    /// what the HTML tree builder does for the raw-text family
    HtmlLike,
    /// explicit map: "name" (start tag) or "/name" (end tag) → action
    Map(Vec<(String, Action)>),
}

#[derive(Serialize, Deserialize, Clone, Debug, Hash, PartialEq, Eq)]
pub struct Policy {
    pub kind: PolicyKind,
    pub cdata: CdataMode,
}

impl Policy {
    pub fn html_like() -> Policy {
        Policy { kind: PolicyKind::HtmlLike, cdata: CdataMode::WhileForeign }
    }
}

/// Mutable policy state; one instance per tokenizer run.
#[derive(Clone)]
pub struct PolicyState {
    pub policy: Policy,
    pub foreign_depth: i32,
}

impl PolicyState {
    pub fn new(p: &Policy) -> PolicyState {
        PolicyState { policy: p.clone(), foreign_depth: 0 }
    }
    /// Decide on a tag token (name lower-cased, end flag).
    pub fn on_tag(&mut self, name: &str, end: bool, self_closing: bool) -> Action {
        if name == "svg" || name == "math" {
            if end {
                self.foreign_depth = (self.foreign_depth - 1).max(0);
            } else if !self_closing {
                self.foreign_depth += 1;
            }
        }
        match &self.policy.kind {
            PolicyKind::AllContinue => Action::Continue,
            PolicyKind::HtmlLike => {
                if end {
                    if name == "script" {
                        Action::Script
                    } else {
                        Action::Continue
                    }
                } else {
                    match name {
                        "title" | "textarea" => Action::Rcdata,
                        "style" | "xmp" | "iframe" | "noembed" | "noframes" => Action::Rawtext,
                        "script" => Action::ScriptData,
                        "plaintext" => Action::Plaintext,
                        _ => Action::Continue,
                    }
                }
            },
            PolicyKind::Map(m) => {
                // keys: "name" for a start tag, "/name" for an end tag (a sink may switch the
                // state in answer to any token)
                if end {
                    m.iter().find(|(n, _)| n.strip_prefix('/') == Some(name)).map(|(_, a)| *a).unwrap_or(Action::Continue)
                } else {
                    m.iter().find(|(n, _)| n == name).map(|(_, a)| *a).unwrap_or(Action::Continue)
                }
            },
        }
    }
    pub fn cdata_allowed(&self) -> bool {
        match self.policy.cdata {
            CdataMode::Never => false,
            CdataMode::Always => true,
            CdataMode::WhileForeign => self.foreign_depth > 0,
        }
    }
}

/// Normalised token (the comparison form the property states).
#[derive(Serialize, Deserialize, Clone, Debug, Hash, PartialEq, Eq)]
pub enum NTok {
    Doctype { name: Option<String>, public: Option<String>, system: Option<String>, force_quirks: bool },
    Tag { end: bool, name: String, attrs: Vec<(String, String)>, self_closing: bool, dup: bool },
    Comment(String),
    Chars(String),
    Null,
    Eof,
    Error(String),
    /// html5ever delivered U+0000 inside a CharacterTokens run (its contract,
    /// `emit_chars`: "The string must not contain '\\0'"; NUL is always a
    /// NullCharacterToken).  Never produced by the reference.
    NulInChars(String),
}

impl NTok {
    pub fn is_chars(&self) -> bool {
        matches!(self, NTok::Chars(_))
    }
}

/// (token, line or position)
pub type Rec = Vec<(NTok, u64)>;

/// Append with the normalisation: adjacent Chars concatenated (keeping the
/// number of the last fragment), NUL split out as its own item.
pub fn push_norm(out: &mut Rec, t: NTok, n: u64) {
    match t {
        NTok::Chars(s) => {
            for c in s.chars() {
                if c == '\0' {
                    out.push((NTok::Null, n));
                } else if let Some((NTok::Chars(prev), pn)) = out.last_mut() {
                    prev.push(c);
                    *pn = n;
                } else {
                    out.push((NTok::Chars(c.to_string()), n));
                }
            }
        },
        other => out.push((other, n)),
    }
}

pub fn strip_errors(r: &Rec) -> Rec {
    let mut out: Rec = vec![];
    for (t, n) in r {
        if let NTok::Error(_) = t {
            continue;
        }
        push_norm(&mut out, t.clone(), *n);
    }
    out
}

pub fn toks_only(r: &Rec) -> Vec<NTok> {
    r.iter().map(|(t, _)| t.clone()).collect()
}

pub fn convert_token(token: Token) -> NTok {
    match token {
        Token::DoctypeToken(d) => NTok::Doctype {
            name: d.name.map(|s| s.to_string()),
            public: d.public_id.map(|s| s.to_string()),
            system: d.system_id.map(|s| s.to_string()),
            force_quirks: d.force_quirks,
        },
        Token::TagToken(t) => NTok::Tag {
            end: t.kind == TagKind::EndTag,
            name: t.name.to_string(),
            attrs: t
                .attrs
                .iter()
                .map(|a| {
                    // tokenizer attributes have no namespace or prefix
                    let mut n = a.name.local.to_string();
                    if !a.name.ns.is_empty() || a.name.prefix.is_some() {
                        n = format!("{{{}|{:?}}}{}", a.name.ns, a.name.prefix, n);
                    }
                    (n, a.value.to_string())
                })
                .collect(),
            self_closing: t.self_closing,
            dup: t.had_duplicate_attributes,
        },
        Token::CommentToken(s) => NTok::Comment(s.to_string()),
        Token::CharacterTokens(s) if s.contains('\0') => NTok::NulInChars(s.to_string()),
        Token::CharacterTokens(s) => NTok::Chars(s.to_string()),
        Token::NullCharacterToken => NTok::Null,
        Token::EOFToken => NTok::Eof,
        Token::ParseError(e) => NTok::Error(e.to_string()),
    }
}

/// Recording sink for html5ever's tokenizer.
pub struct RealSink {
    pub st: RefCell<PolicyState>,
    /// raw record: every token incl. errors, un-merged, with line numbers
    pub raw: RefCell<Rec>,
    pub end_called: RefCell<u32>,
    pub tokens_after_eof: RefCell<u32>,
    pub eof_seen: RefCell<u32>,
}

impl RealSink {
    pub fn new(p: &Policy) -> RealSink {
        RealSink {
            st: RefCell::new(PolicyState::new(p)),
            raw: RefCell::new(vec![]),
            end_called: RefCell::new(0),
            tokens_after_eof: RefCell::new(0),
            eof_seen: RefCell::new(0),
        }
    }
}

fn to_raw(k: Action) -> TokenSinkResult<()> {
    match k {
        Action::Continue => TokenSinkResult::Continue,
        Action::Plaintext => TokenSinkResult::Plaintext,
        Action::Rcdata => TokenSinkResult::RawData(Rcdata),
        Action::Rawtext => TokenSinkResult::RawData(Rawtext),
        Action::ScriptData => TokenSinkResult::RawData(ScriptData),
        Action::Script => TokenSinkResult::Script(()),
    }
}

#[allow(dead_code)]
fn _k(_: RawKind) {}

impl TokenSink for RealSink {
    type Handle = ();
    fn process_token(&self, token: Token, line: u64) -> TokenSinkResult<()> {
        if *self.eof_seen.borrow() > 0 {
            *self.tokens_after_eof.borrow_mut() += 1;
        }
        let nt = convert_token(token);
        let mut res = Action::Continue;
        match &nt {
            NTok::Tag { end, name, self_closing, .. } => {
                res = self.st.borrow_mut().on_tag(name, *end, *self_closing);
            },
            NTok::Eof => *self.eof_seen.borrow_mut() += 1,
            _ => {},
        }
        self.raw.borrow_mut().push((nt, line));
        to_raw(res)
    }
    fn end(&self) {
        *self.end_called.borrow_mut() += 1;
    }
    fn adjusted_current_node_present_but_not_in_html_namespace(&self) -> bool {
        self.st.borrow().cdata_allowed()
    }
}

/// Recording sink for the reference tokenizer.
pub struct RefSink {
    pub st: PolicyState,
    pub rec: Rec,
}

impl RefSink {
    pub fn new(p: &Policy) -> RefSink {
        RefSink { st: PolicyState::new(p), rec: vec![] }
    }
}

impl RSink for RefSink {
    fn token(&mut self, tok: RTok, pos: usize) -> RResult {
        let mut res = RResult::Continue;
        let nt = match tok {
            RTok::Doctype(d) => NTok::Doctype {
                name: d.name,
                public: d.public,
                system: d.system,
                force_quirks: d.force_quirks,
            },
            RTok::Tag(t) => {
                res = match self.st.on_tag(&t.name, t.end, t.self_closing) {
                    Action::Continue | Action::Script => RResult::Continue,
                    Action::Plaintext => RResult::Plaintext,
                    Action::Rcdata => RResult::Raw(RRaw::Rcdata),
                    Action::Rawtext => RResult::Raw(RRaw::Rawtext),
                    Action::ScriptData => RResult::Raw(RRaw::ScriptData),
                };
                NTok::Tag { end: t.end, name: t.name, attrs: t.attrs, self_closing: t.self_closing, dup: t.dup }
            },
            RTok::Comment(c) => NTok::Comment(c),
            RTok::Char(c) => NTok::Chars(c.to_string()),
            RTok::Eof => NTok::Eof,
        };
        push_norm(&mut self.rec, nt, pos as u64);
        res
    }
    fn foreign(&mut self) -> bool {
        self.st.cdata_allowed()
    }
}
