//! Driving html5ever's parser over a chunk schedule with a given configuration.

use html5ever::driver::{parse_document, parse_fragment, ParseOpts, Parser};
use html5ever::tokenizer::TokenizerOpts;
use html5ever::tree_builder::{QuirksMode, TreeBuilderOpts, TreeSink};
use html5ever::{Attribute, LocalName, Namespace, QualName};
use markup5ever::TokenizerResult;
use serde::{Deserialize, Serialize};
use tendril::StrTendril;

#[derive(Serialize, Deserialize, Clone, Debug, Hash, PartialEq, Eq)]
pub struct CtxElem {
    /// "html" | "svg" | "math"
    pub ns: String,
    pub local: String,
    pub attrs: Vec<(String, String)>,
}

#[derive(Serialize, Deserialize, Clone, Debug, Hash, PartialEq, Eq)]
pub struct TreeCfg {
    pub ctx: Option<CtxElem>,
    pub scripting: bool,
    pub srcdoc: bool,
    /// 0 NoQuirks, 1 LimitedQuirks, 2 Quirks
    pub quirks0: u8,
    pub tb_exact_errors: bool,
    pub tok_exact_errors: bool,
    pub drop_doctype: bool,
    pub discard_bom: bool,
    pub dsd_allow: bool,
    /// with dsd_allow: TreeSink::attach_declarative_shadow answers true (checks whose sink
    /// models that; C02's reference does not and normalises it away)
    #[serde(default)]
    pub dsd_succeed: bool,
    #[serde(default)]
    pub profile: bool,
    /// fragment parsing through parse_fragment_for_element with a caller-created
    /// HTML form element as the form pointer
    #[serde(default)]
    pub form_ptr: bool,
}

impl Default for TreeCfg {
    fn default() -> Self {
        TreeCfg {
            ctx: None,
            scripting: true,
            srcdoc: false,
            quirks0: 0,
            tb_exact_errors: false,
            tok_exact_errors: false,
            drop_doctype: false,
            discard_bom: false,
            dsd_allow: false,
            dsd_succeed: false,
            profile: false,
            form_ptr: false,
        }
    }
}

pub fn ns_url(short: &str) -> &'static str {
    match short {
        "html" => "http://www.w3.org/1999/xhtml",
        "svg" => "http://www.w3.org/2000/svg",
        "math" => "http://www.w3.org/1998/Math/MathML",
        _ => "",
    }
}

pub fn quirks_of(n: u8) -> QuirksMode {
    match n {
        0 => QuirksMode::NoQuirks,
        1 => QuirksMode::LimitedQuirks,
        _ => QuirksMode::Quirks,
    }
}

pub fn quirks_name(q: QuirksMode) -> &'static str {
    match q {
        QuirksMode::NoQuirks => "NoQuirks",
        QuirksMode::LimitedQuirks => "LimitedQuirks",
        QuirksMode::Quirks => "Quirks",
    }
}

pub fn opts_of(cfg: &TreeCfg) -> ParseOpts {
    ParseOpts {
        tokenizer: TokenizerOpts {
            exact_errors: cfg.tok_exact_errors,
            discard_bom: cfg.discard_bom,
            profile: cfg.profile,
            initial_state: None,
            last_start_tag_name: None,
        },
        tree_builder: TreeBuilderOpts {
            exact_errors: cfg.tb_exact_errors,
            scripting_enabled: cfg.scripting,
            iframe_srcdoc: cfg.srcdoc,
            drop_doctype: cfg.drop_doctype,
            quirks_mode: quirks_of(cfg.quirks0),
        },
    }
}

pub fn make_parser<S: TreeSink>(sink: S, cfg: &TreeCfg) -> Parser<S> {
    let opts = opts_of(cfg);
    match &cfg.ctx {
        None => parse_document(sink, opts),
        Some(c) => {
            let name = QualName::new(None, Namespace::from(ns_url(&c.ns)), LocalName::from(c.local.as_str()));
            let attrs = c
                .attrs
                .iter()
                .map(|(k, v)| Attribute {
                    name: QualName::new(None, Namespace::from(""), LocalName::from(k.as_str())),
                    value: StrTendril::from(v.as_str()),
                })
                .collect();
            if cfg.form_ptr {
                let ctx = html5ever::tree_builder::create_element(&sink, name, attrs);
                let form = html5ever::tree_builder::create_element(
                    &sink,
                    QualName::new(None, Namespace::from(ns_url("html")), LocalName::from("form")),
                    vec![],
                );
                html5ever::driver::parse_fragment_for_element(sink, opts, ctx, cfg.scripting, Some(form))
            } else {
                parse_fragment(sink, opts, name, attrs, cfg.scripting)
            }
        },
    }
}

#[derive(Clone, Copy, PartialEq, Eq, Debug)]
pub enum Pause {
    /// feed() returned Done at the end of a chunk
    ChunkEnd,
    Script,
    Encoding,
}

/// Feed the chunks by hand; `at_pause` is called at every suspension point
/// (after every feed() return) and may inspect the parser and push text to the
/// front of the input.  Returns the sink's output and the sequence of results.
pub fn drive<S: TreeSink>(
    sink: S,
    cfg: &TreeCfg,
    chunks: &[String],
    mut at_pause: impl FnMut(&Parser<S>, Pause, Option<&S::Handle>, Option<&str>),
) -> (S::Output, Vec<String>, bool) {
    let parser = make_parser(sink, cfg);
    let mut results = vec![];
    let mut leftover = false;
    for c in chunks {
        parser.input_buffer.push_back(StrTendril::from(c.as_str()));
        loop {
            match parser.tokenizer.feed(&parser.input_buffer) {
                TokenizerResult::Done => {
                    results.push("Done".to_string());
                    at_pause(&parser, Pause::ChunkEnd, None, None);
                    break;
                },
                TokenizerResult::Script(h) => {
                    results.push("Script".to_string());
                    at_pause(&parser, Pause::Script, Some(&h), None);
                },
                TokenizerResult::EncodingIndicator(e) => {
                    results.push(format!("Encoding:{e}"));
                    at_pause(&parser, Pause::Encoding, None, Some(&e));
                },
            }
        }
        if !parser.input_buffer.is_empty() {
            leftover = true;
        }
    }
    // end of input by hand (not through the driver's finish(), which the driver-path clauses of
    // C03 compare against this): tokenizer end, then the sink's own finish
    while parser.input_buffer.pop_front().is_some() {}
    parser.tokenizer.end();
    let out = parser.tokenizer.sink.sink.finish();
    (out, results, leftover)
}

// ---------------------------------------------------------------------------
// XML

use xml5ever::driver::{XmlParseOpts, XmlParser};
use xml5ever::tokenizer::XmlTokenizerOpts;

#[derive(Serialize, Deserialize, Clone, Debug, Hash, PartialEq, Eq, Default)]
pub struct XmlCfg {
    pub exact_errors: bool,
    pub discard_bom: bool,
    #[serde(default)]
    pub profile: bool,
}

pub fn drive_xml<S: TreeSink>(
    sink: S,
    cfg: &XmlCfg,
    chunks: &[String],
    mut at_pause: impl FnMut(&XmlParser<S>, Option<&S::Handle>),
) -> (S::Output, bool) {
    let opts = XmlParseOpts {
        tokenizer: XmlTokenizerOpts {
            exact_errors: cfg.exact_errors,
            discard_bom: cfg.discard_bom,
            profile: cfg.profile,
            initial_state: None,
        },
        tree_builder: Default::default(),
    };
    let parser = xml5ever::driver::parse_document(sink, opts);
    let mut leftover = false;
    for c in chunks {
        parser.input_buffer.push_back(StrTendril::from(c.as_str()));
        loop {
            match parser.tokenizer.feed(&parser.input_buffer) {
                TokenizerResult::Script(h) => {
                    at_pause(&parser, Some(&h));
                    continue;
                },
                _ => break,
            }
        }
        if !parser.input_buffer.is_empty() {
            leftover = true;
        }
        at_pause(&parser, None);
    }
    // end of input by hand (the driver's finish() is what C15's driver-path clause tests)
    parser.tokenizer.end();
    let out = parser.tokenizer.sink.sink.finish();
    (out, leftover)
}
