//! Canonical text dump shared by RcDom, ModelDom and the reference DOM, so
//! that all three are comparable as strings.  Iterative (deep trees).

use markup5ever_rcdom::{Handle, NodeData};

#[derive(Clone, Debug, PartialEq, Eq)]
pub struct CAttr {
    pub ns: String,
    pub prefix: Option<String>,
    pub local: String,
    pub value: String,
}

#[derive(Clone, Debug, PartialEq, Eq)]
pub enum CKind {
    Document,
    Fragment,
    Doctype { name: String, public: String, system: String },
    Text(String),
    Comment(String),
    Pi { target: String, data: String },
    Element { ns: String, prefix: Option<String>, local: String, attrs: Vec<CAttr>, dup: Option<bool> },
}

pub trait TreeView {
    type H: Clone;
    fn kind(&self, h: &Self::H) -> CKind;
    fn children(&self, h: &Self::H) -> Vec<Self::H>;
    fn template_contents(&self, h: &Self::H) -> Option<Self::H>;
    /// shadow roots attached to `h` by declarative shadow root templates, in attachment order
    fn shadow_roots(&self, _h: &Self::H) -> Vec<Self::H> {
        vec![]
    }
}

pub fn ns_short(ns: &str) -> &str {
    match ns {
        "http://www.w3.org/1999/xhtml" => "html",
        "http://www.w3.org/2000/svg" => "svg",
        "http://www.w3.org/1998/Math/MathML" => "math",
        "http://www.w3.org/1999/xlink" => "xlink",
        "http://www.w3.org/XML/1998/namespace" => "xml",
        "http://www.w3.org/2000/xmlns/" => "xmlns",
        "" => "",
        other => other,
    }
}

#[derive(Clone, Copy)]
pub struct CanonOpts {
    /// print element/attribute prefixes
    pub prefixes: bool,
    /// print the doctype node
    pub doctype: bool,
    /// print the duplicate-attribute flag when known
    pub dup: bool,
    /// sort attributes by (ns, local) instead of keeping the given order
    pub sort_attrs: bool,
}

impl Default for CanonOpts {
    fn default() -> Self {
        CanonOpts { prefixes: true, doctype: true, dup: true, sort_attrs: false }
    }
}

pub fn canon<T: TreeView>(t: &T, root: &T::H, o: CanonOpts) -> String {
    let mut out = String::new();
    // stack of (node, depth, 0 = node / 1 = template contents / 2 = shadow root)
    let mut stack: Vec<(T::H, usize, u8)> = vec![(root.clone(), 0, 0)];
    while let Some((h, d, role)) = stack.pop() {
        let is_tc = role != 0;
        if out.len() > (64 << 20) {
            // a finite tree this large does not occur in generated cases: cycle
            out.push_str("TRUNCATED: dump exceeds 64 MiB (cycle in the tree?)\n");
            break;
        }
        let kind = t.kind(&h);
        use std::fmt::Write;
        if role == 2 {
            let _ = writeln!(out, "{d}|#shadow-root");
        } else if is_tc {
            let _ = writeln!(out, "{d}|content");
        } else {
            match &kind {
                CKind::Document => {
                    let _ = writeln!(out, "{d}|#document");
                },
                CKind::Fragment => {
                    let _ = writeln!(out, "{d}|#fragment");
                },
                CKind::Doctype { name, public, system } => {
                    if o.doctype {
                        let _ = writeln!(out, "{d}|<!DOCTYPE {name:?} {public:?} {system:?}>");
                    }
                },
                CKind::Text(s) => {
                    let _ = writeln!(out, "{d}|{s:?}");
                },
                CKind::Comment(s) => {
                    let _ = writeln!(out, "{d}|<!-- {s:?} -->");
                },
                CKind::Pi { target, data } => {
                    let _ = writeln!(out, "{d}|<?{target:?} {data:?}>");
                },
                CKind::Element { ns, prefix, local, attrs, dup } => {
                    let _ = write!(out, "{d}|<{}", ns_short(ns));
                    if o.prefixes {
                        if let Some(p) = prefix {
                            let _ = write!(out, " [{p}]");
                        }
                    }
                    let _ = write!(out, " {local}>");
                    if o.dup {
                        if let Some(true) = dup {
                            let _ = write!(out, " dup-attrs");
                        }
                    }
                    out.push('\n');
                    let mut attrs = attrs.clone();
                    if o.sort_attrs {
                        attrs.sort_by(|a, b| (&a.ns, &a.local).cmp(&(&b.ns, &b.local)));
                    }
                    for a in &attrs {
                        let _ = write!(out, "{}|@{}", d + 1, ns_short(&a.ns));
                        if o.prefixes {
                            if let Some(p) = &a.prefix {
                                let _ = write!(out, " [{p}]");
                            }
                        }
                        let _ = writeln!(out, " {}={:?}", a.local, a.value);
                    }
                },
            }
        }
        let kids = t.children(&h);
        // push in reverse so that they pop in order; template contents first
        for k in kids.into_iter().rev() {
            stack.push((k, d + 1, 0));
        }
        if !is_tc {
            if let Some(tc) = t.template_contents(&h) {
                stack.push((tc, d + 1, 1));
            }
            for sr in t.shadow_roots(&h).into_iter().rev() {
                stack.push((sr, d + 1, 2));
            }
        }
    }
    out
}

pub struct RcView;

impl TreeView for RcView {
    type H = Handle;
    fn kind(&self, h: &Handle) -> CKind {
        match &h.data {
            NodeData::Document => CKind::Document,
            NodeData::Doctype { name, public_id, system_id } => CKind::Doctype {
                name: name.to_string(),
                public: public_id.to_string(),
                system: system_id.to_string(),
            },
            NodeData::Text { contents } => CKind::Text(contents.borrow().to_string()),
            NodeData::Comment { contents } => CKind::Comment(contents.to_string()),
            NodeData::ProcessingInstruction { target, contents } => CKind::Pi {
                target: target.to_string(),
                data: contents.to_string(),
            },
            NodeData::Element { name, attrs, .. } => CKind::Element {
                ns: name.ns.to_string(),
                prefix: name.prefix.as_ref().map(|p| p.to_string()),
                local: name.local.to_string(),
                attrs: attrs
                    .borrow()
                    .iter()
                    .map(|a| CAttr {
                        ns: a.name.ns.to_string(),
                        prefix: a.name.prefix.as_ref().map(|p| p.to_string()),
                        local: a.name.local.to_string(),
                        value: a.value.to_string(),
                    })
                    .collect(),
                dup: None,
            },
        }
    }
    fn children(&self, h: &Handle) -> Vec<Handle> {
        h.children.borrow().clone()
    }
    fn template_contents(&self, h: &Handle) -> Option<Handle> {
        match &h.data {
            NodeData::Element { template_contents, .. } => template_contents.borrow().clone(),
            _ => None,
        }
    }
}

pub fn rcdom_canon(root: &Handle, o: CanonOpts) -> String {
    canon(&RcView, root, o)
}

/// First differing line of two dumps, for messages.
pub fn first_diff(a: &str, b: &str) -> String {
    let mut la = a.lines();
    let mut lb = b.lines();
    let mut n = 0;
    loop {
        n += 1;
        match (la.next(), lb.next()) {
            (None, None) => return "no difference".into(),
            (x, y) if x == y => continue,
            (x, y) => return format!("line {n}: {:?} vs {:?}", x.unwrap_or("<end>"), y.unwrap_or("<end>")),
        }
    }
}
