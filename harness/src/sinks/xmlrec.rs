//! Recording sink for xml5ever's tokenizer.
use serde::{Deserialize, Serialize};
use std::cell::RefCell;
use xml5ever::tokenizer::{ProcessResult, Token, TokenSink};

#[derive(Serialize, Deserialize, Clone, Debug, Hash, PartialEq, Eq)]
pub enum XTok {
    Doctype { name: Option<String>, public: Option<String>, system: Option<String> },
    Tag { kind: String, prefix: Option<String>, local: String, attrs: Vec<(Option<String>, String, String)> },
    Pi { target: String, data: String },
    Comment(String),
    Chars(String),
    Null,
    Eof,
    Error(String),
}

#[derive(Default)]
pub struct XmlRec {
    pub toks: RefCell<Vec<XTok>>,
    pub eof: RefCell<u32>,
    pub after_eof: RefCell<u32>,
}

impl TokenSink for XmlRec {
    type Handle = ();
    fn process_token(&self, token: Token) -> ProcessResult<()> {
        if *self.eof.borrow() > 0 {
            *self.after_eof.borrow_mut() += 1;
        }
        let t = match token {
            Token::Doctype(d) => XTok::Doctype {
                name: d.name.map(|s| s.to_string()),
                public: d.public_id.map(|s| s.to_string()),
                system: d.system_id.map(|s| s.to_string()),
            },
            Token::Tag(t) => XTok::Tag {
                kind: format!("{:?}", t.kind),
                prefix: t.name.prefix.as_ref().map(|p| p.to_string()),
                local: t.name.local.to_string(),
                attrs: t
                    .attrs
                    .iter()
                    .map(|a| (a.name.prefix.as_ref().map(|p| p.to_string()), a.name.local.to_string(), a.value.to_string()))
                    .collect(),
            },
            Token::ProcessingInstruction(p) => XTok::Pi { target: p.target.to_string(), data: p.data.to_string() },
            Token::Comment(c) => XTok::Comment(c.to_string()),
            Token::Characters(c) => XTok::Chars(c.to_string()),
            Token::NullCharacter => XTok::Null,
            Token::EndOfFile => {
                *self.eof.borrow_mut() += 1;
                XTok::Eof
            },
            Token::ParseError(e) => XTok::Error(e.to_string()),
        };
        self.toks.borrow_mut().push(t);
        ProcessResult::Continue
    }
}

/// errors dropped, adjacent character tokens merged
pub fn xnorm(toks: &[XTok]) -> Vec<XTok> {
    let mut out: Vec<XTok> = vec![];
    for t in toks {
        match t {
            XTok::Error(_) => {},
            XTok::Chars(s) => {
                if let Some(XTok::Chars(p)) = out.last_mut() {
                    p.push_str(s);
                } else {
                    out.push(XTok::Chars(s.clone()));
                }
            },
            other => out.push(other.clone()),
        }
    }
    out
}

pub fn run_xml_tokens(chunks: &[String], exact_errors: bool, discard_bom: bool, profile: bool) -> (Vec<XTok>, u32, u32, bool) {
    use markup5ever::buffer_queue::BufferQueue;
    use xml5ever::tokenizer::{XmlTokenizer, XmlTokenizerOpts};
    let tok = XmlTokenizer::new(
        XmlRec::default(),
        XmlTokenizerOpts { exact_errors, discard_bom, profile, initial_state: None },
    );
    let q = BufferQueue::default();
    let mut leftover = false;
    for c in chunks {
        q.push_back(tendril::StrTendril::from(c.as_str()));
        let _ = tok.feed(&q);
        if !q.is_empty() {
            leftover = true;
        }
    }
    tok.end();
    let out = (tok.sink.toks.borrow().clone(), *tok.sink.eof.borrow(), *tok.sink.after_eof.borrow(), leftover);
    out
}
