//! Recording / model sinks.
