//! Recording / model sinks.
pub mod canon;
