//! Recording / model sinks.
pub mod canon;
pub mod tokrec;
pub mod model;
pub mod drive;
pub mod tee;
pub mod xmlrec;
