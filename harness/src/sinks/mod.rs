//! Recording / model sinks.
pub mod canon;
pub mod tokrec;
