//! ModelDom: an arena DOM implementing `TreeSink`, with
//!  * a contract monitor (C05): every call is validated before it is applied,
//!  * a GC simulation (C18): nodes can be marked collected; any later use is a
//!    violation,
//!  * a call trace (C20 replays, C19 events),
//!  * the canonical dump shared with RcDom and the reference DOM.

use crate::sinks::canon::{CAttr, CKind, TreeView};
use html5ever::tree_builder::{ElemName, ElementFlags, NodeOrText, QuirksMode, TreeSink};
use html5ever::{Attribute, LocalName, Namespace, QualName};
use std::borrow::Cow;
use std::cell::{Cell, RefCell};
use tendril::StrTendril;

pub type Id = usize;

#[derive(Clone, Debug)]
pub enum MKind {
    Document,
    Fragment,
    Doctype { name: String, public: String, system: String },
    Text(String),
    Comment(String),
    Pi { target: String, data: String },
    Element { name: QualName, attrs: Vec<Attribute>, template: bool, mathml_ip: bool, dup: bool },
}

#[derive(Clone, Debug)]
pub struct MNode {
    pub kind: MKind,
    pub parent: Option<Id>,
    pub children: Vec<Id>,
    /// template contents (on the template element)
    pub tmpl: Option<Id>,
    /// host template element (on the contents fragment)
    pub host: Option<Id>,
    pub collected: bool,
    pub script_started: bool,
    pub created_at: usize,
}

#[derive(Debug)]
pub struct OwnedName {
    pub ns: Namespace,
    pub local: LocalName,
}

impl ElemName for OwnedName {
    fn ns(&self) -> &Namespace {
        &self.ns
    }
    fn local_name(&self) -> &LocalName {
        &self.local
    }
}

/// Events that other checks want to see (kept small).
#[derive(Clone, Debug, PartialEq, Eq)]
pub enum Event {
    /// an element was inserted into a parent (by append / insert-before)
    Inserted { node: Id },
    Created { node: Id },
    Line(u64),
    Quirks(String),
}

#[derive(Clone, Copy, PartialEq, Eq, Debug)]
pub enum Dsd {
    /// allow_declarative_shadow_roots answers false
    Deny,
    /// answers true, attach_declarative_shadow fails (returns false)
    AllowFail,
    /// answers true, attach_declarative_shadow succeeds: the template's contents become the
    /// host's shadow root (recorded in `shadow_hosts`; the template element itself is never
    /// inserted into the tree by the parser)
    AllowSucceed,
}

/// Name identity as the TreeSink documentation uses it ("an attribute with that name"): namespace,
/// prefix and local name, compared field by field (not through QualName's own PartialEq, which
/// belongs to the code under test).
pub fn same_qname(a: &QualName, b: &QualName) -> bool {
    a.ns == b.ns && a.local == b.local && a.prefix == b.prefix
}

/// "Attach a shadow root" (DOM standard): the HTML elements that may host one (custom element
/// names are those with a hyphen).  Shared by ModelDom and the reference tree builder, which
/// must predict the sink's answer.
pub fn valid_shadow_host(ns: &str, local: &str) -> bool {
    ns == "http://www.w3.org/1999/xhtml"
        && (matches!(
            local,
            "article" | "aside" | "blockquote" | "body" | "div" | "footer" | "h1" | "h2" | "h3" | "h4" | "h5" | "h6" | "header" | "main" | "nav" | "p" | "section" | "span"
        ) || (local.contains('-') && local.starts_with(|c: char| c.is_ascii_lowercase())))
}

pub struct ModelDom {
    /// (host, template) pairs for which attach_declarative_shadow answered true
    pub shadow_hosts: RefCell<Vec<(Id, Id)>>,
    pub nodes: RefCell<Vec<MNode>>,
    pub quirks: Cell<QuirksMode>,
    pub quirks_calls: Cell<u32>,
    pub errors: RefCell<Vec<String>>,
    pub monitor: bool,
    pub violations: RefCell<Vec<String>>,
    pub calls: Cell<usize>,
    pub call_names: RefCell<Vec<&'static str>>,
    pub record_call_names: bool,
    pub doctype_appends: Cell<u32>,
    pub events: RefCell<Vec<Event>>,
    pub record_events: bool,
    pub dsd: Dsd,
    pub lines: RefCell<Vec<u64>>,
    pub finished: Cell<bool>,
    /// C09: when set, the line of the token the tree builder is processing right now; every
    /// TreeSink call must find the last `set_current_line` value equal to it
    pub line_expect: Option<std::rc::Rc<Cell<u64>>>,
    pub line_now: Cell<u64>,
    pub line_mismatch: RefCell<Option<String>>,
}

pub const DOC: Id = 0;

impl ModelDom {
    /// A sink whose declarative-shadow-root answers follow the case's configuration.
    pub fn for_cfg(cfg: &crate::sinks::drive::TreeCfg) -> ModelDom {
        let mut m = ModelDom::new();
        m.dsd = match (cfg.dsd_allow, cfg.dsd_succeed) {
            (false, _) => Dsd::Deny,
            (true, false) => Dsd::AllowFail,
            (true, true) => Dsd::AllowSucceed,
        };
        m
    }

    pub fn new() -> ModelDom {
        let doc = MNode {
            kind: MKind::Document,
            parent: None,
            children: vec![],
            tmpl: None,
            host: None,
            collected: false,
            script_started: false,
            created_at: 0,
        };
        ModelDom {
            shadow_hosts: RefCell::new(vec![]),
            nodes: RefCell::new(vec![doc]),
            quirks: Cell::new(QuirksMode::NoQuirks),
            quirks_calls: Cell::new(0),
            errors: RefCell::new(vec![]),
            monitor: true,
            violations: RefCell::new(vec![]),
            calls: Cell::new(0),
            call_names: RefCell::new(vec![]),
            record_call_names: true,
            doctype_appends: Cell::new(0),
            events: RefCell::new(vec![]),
            record_events: false,
            dsd: Dsd::Deny,
            lines: RefCell::new(vec![]),
            finished: Cell::new(false),
            line_expect: None,
            line_now: Cell::new(1),
            line_mismatch: RefCell::new(None),
        }
    }

    fn check_line(&self, name: &str) {
        if let Some(exp) = &self.line_expect {
            if exp.get() != self.line_now.get() && self.line_mismatch.borrow().is_none() {
                *self.line_mismatch.borrow_mut() = Some(format!(
                    "TreeSink::{name} was called while the tree builder processed a token of line {}, but the last line forwarded through set_current_line is {}",
                    exp.get(),
                    self.line_now.get()
                ));
            }
        }
    }

    fn call(&self, name: &'static str) -> usize {
        self.check_line(name);
        let n = self.calls.get() + 1;
        self.calls.set(n);
        if self.record_call_names {
            self.call_names.borrow_mut().push(name);
        }
        n
    }

    fn violate(&self, call: &'static str, msg: String) {
        if self.monitor {
            self.violations
                .borrow_mut()
                .push(format!("call #{} {call}: {msg}", self.calls.get()));
        }
    }

    fn new_node(&self, kind: MKind) -> Id {
        let mut nodes = self.nodes.borrow_mut();
        let id = nodes.len();
        nodes.push(MNode {
            kind,
            parent: None,
            children: vec![],
            tmpl: None,
            host: None,
            collected: false,
            script_started: false,
            created_at: self.calls.get(),
        });
        id
    }

    /// validity of a handle received from the tree builder
    fn valid(&self, call: &'static str, what: &str, h: Id) -> bool {
        let nodes = self.nodes.borrow();
        match nodes.get(h) {
            None => {
                drop(nodes);
                self.violate(call, format!("{what} handle {h} was not created by this sink"));
                false
            },
            Some(n) if n.collected => {
                drop(nodes);
                self.violate(call, format!("{what} handle {h} was already collected (not traced, not connected)"));
                false
            },
            Some(_) => true,
        }
    }

    pub fn is_element(&self, h: Id) -> bool {
        matches!(self.nodes.borrow().get(h).map(|n| &n.kind), Some(MKind::Element { .. }))
    }

    fn can_have_children(&self, h: Id) -> bool {
        matches!(
            self.nodes.borrow().get(h).map(|n| &n.kind),
            Some(MKind::Element { .. }) | Some(MKind::Document) | Some(MKind::Fragment)
        )
    }

    pub fn elem_qname(&self, h: Id) -> Option<QualName> {
        match self.nodes.borrow().get(h).map(|n| &n.kind) {
            Some(MKind::Element { name, .. }) => Some(name.clone()),
            _ => None,
        }
    }

    fn is_html_named(&self, h: Id, local: &str) -> bool {
        match self.elem_qname(h) {
            Some(q) => &*q.ns == "http://www.w3.org/1999/xhtml" && &*q.local == local,
            None => false,
        }
    }

    /// is `anc` an inclusive ancestor of `node` (through parents and template hosts)?
    fn is_inclusive_ancestor(&self, anc: Id, node: Id) -> bool {
        let nodes = self.nodes.borrow();
        let mut cur = Some(node);
        let mut guard = 0;
        while let Some(c) = cur {
            if c == anc {
                return true;
            }
            guard += 1;
            if guard > nodes.len() + 1 {
                return true; // cycle already present
            }
            cur = nodes[c].parent.or(nodes[c].host);
        }
        false
    }

    fn check_attr_list(&self, call: &'static str, attrs: &[Attribute]) {
        for (i, a) in attrs.iter().enumerate() {
            for b in &attrs[..i] {
                // The property speaks of the *qualified* name (prefix:local).  Two attributes
                // with equal (ns, local) but different prefixes are not a violation of it.
                if a.name.prefix == b.name.prefix && a.name.local == b.name.local {
                    self.violate(
                        call,
                        format!("attribute list has two attributes with qualified name {:?}:{:?}", a.name.prefix, &*a.name.local),
                    );
                }
            }
        }
    }

    fn detach(&self, h: Id) {
        let mut nodes = self.nodes.borrow_mut();
        if let Some(p) = nodes[h].parent.take() {
            nodes[p].children.retain(|c| *c != h);
        }
    }

    fn append_node(&self, parent: Id, child: Id) {
        let mut nodes = self.nodes.borrow_mut();
        nodes[child].parent = Some(parent);
        nodes[parent].children.push(child);
        drop(nodes);
        if self.record_events && self.is_element(child) {
            self.events.borrow_mut().push(Event::Inserted { node: child });
        }
    }

    fn append_text(&self, parent: Id, text: &str) {
        let last = self.nodes.borrow()[parent].children.last().copied();
        if let Some(l) = last {
            let mut nodes = self.nodes.borrow_mut();
            if let MKind::Text(t) = &mut nodes[l].kind {
                t.push_str(text);
                return;
            }
        }
        let id = self.new_node(MKind::Text(text.to_string()));
        self.append_node(parent, id);
    }

    fn insert_before(&self, sibling: Id, child: NodeOrText<Id>) {
        let parent = self.nodes.borrow()[sibling].parent;
        let Some(parent) = parent else { return };
        match child {
            NodeOrText::AppendText(t) => {
                let idx = self.nodes.borrow()[parent].children.iter().position(|c| *c == sibling).unwrap();
                if idx > 0 {
                    let prev = self.nodes.borrow()[parent].children[idx - 1];
                    let mut nodes = self.nodes.borrow_mut();
                    if let MKind::Text(s) = &mut nodes[prev].kind {
                        s.push_str(&t);
                        return;
                    }
                }
                let id = self.new_node(MKind::Text(t.to_string()));
                let mut nodes = self.nodes.borrow_mut();
                nodes[id].parent = Some(parent);
                nodes[parent].children.insert(idx, id);
            },
            NodeOrText::AppendNode(n) => {
                self.detach(n);
                let mut nodes = self.nodes.borrow_mut();
                let idx = nodes[parent].children.iter().position(|c| *c == sibling).unwrap();
                nodes[n].parent = Some(parent);
                nodes[parent].children.insert(idx, n);
                drop(nodes);
                if self.record_events && self.is_element(n) {
                    self.events.borrow_mut().push(Event::Inserted { node: n });
                }
            },
        }
    }

    fn monitor_child(&self, call: &'static str, parent: Id, child: &NodeOrText<Id>, may_have_parent: bool) -> bool {
        if let NodeOrText::AppendNode(c) = child {
            if !self.valid(call, "child", *c) {
                return false;
            }
            if !may_have_parent && self.nodes.borrow()[*c].parent.is_some() {
                self.violate(call, format!("child {} already has a parent", self.describe(*c)));
            }
            if matches!(self.nodes.borrow()[*c].kind, MKind::Document | MKind::Fragment) {
                self.violate(call, format!("child {} is a document/fragment", self.describe(*c)));
                return false;
            }
            if self.is_inclusive_ancestor(*c, parent) {
                self.violate(call, format!("inserting {} under itself or one of its descendants", self.describe(*c)));
                return false;
            }
        }
        true
    }

    pub fn describe(&self, h: Id) -> String {
        let nodes = self.nodes.borrow();
        match nodes.get(h).map(|n| &n.kind) {
            None => format!("#{h}?"),
            Some(MKind::Document) => "#document".into(),
            Some(MKind::Fragment) => format!("#{h} template-contents"),
            Some(MKind::Doctype { name, .. }) => format!("#{h} <!DOCTYPE {name}>"),
            Some(MKind::Text(t)) => format!("#{h} text {t:?}"),
            Some(MKind::Comment(t)) => format!("#{h} comment {t:?}"),
            Some(MKind::Pi { target, .. }) => format!("#{h} pi {target:?}"),
            Some(MKind::Element { name, .. }) => format!("#{h} <{}>", &*name.local),
        }
    }

    // ---- GC simulation (C18) ------------------------------------------------

    /// Mark every node not connected to one of `roots` as collected.  Returns
    /// (number collected now, number of roots that were disconnected from the
    /// document, i.e. for which tracing mattered).
    pub fn collect(&self, roots: &[Id]) -> (usize, usize) {
        let mut nodes = self.nodes.borrow_mut();
        let n = nodes.len();
        let mut mark = vec![false; n];
        // connected component of the document first
        let flood = |start: Id, mark: &mut Vec<bool>, nodes: &Vec<MNode>| {
            let mut stack = vec![start];
            while let Some(x) = stack.pop() {
                if x >= n || mark[x] {
                    continue;
                }
                mark[x] = true;
                let nd = &nodes[x];
                if let Some(p) = nd.parent {
                    stack.push(p);
                }
                if let Some(t) = nd.tmpl {
                    stack.push(t);
                }
                if let Some(h) = nd.host {
                    stack.push(h);
                }
                for c in &nd.children {
                    stack.push(*c);
                }
            }
        };
        flood(DOC, &mut mark, &nodes);
        let mut mattered = 0;
        for r in roots {
            if *r < n && !mark[*r] {
                mattered += 1;
                flood(*r, &mut mark, &nodes);
            }
        }
        let mut collected = 0;
        for i in 0..n {
            if !mark[i] && !nodes[i].collected {
                nodes[i].collected = true;
                collected += 1;
            }
        }
        (collected, mattered)
    }
}

impl Default for ModelDom {
    fn default() -> Self {
        ModelDom::new()
    }
}

impl TreeSink for ModelDom {
    type Handle = Id;
    type Output = ModelDom;
    type ElemName<'a> = OwnedName;

    fn finish(self) -> ModelDom {
        self.finished.set(true);
        self
    }

    fn parse_error(&self, msg: Cow<'static, str>) {
        self.check_line("parse_error");
        self.errors.borrow_mut().push(msg.to_string());
    }

    fn get_document(&self) -> Id {
        self.call("get_document");
        DOC
    }

    fn elem_name<'a>(&'a self, target: &'a Id) -> OwnedName {
        self.call("elem_name");
        if self.valid("elem_name", "target", *target) {
            if let Some(q) = self.elem_qname(*target) {
                return OwnedName { ns: q.ns, local: q.local };
            }
            self.violate("elem_name", format!("called on non-element {}", self.describe(*target)));
        }
        OwnedName { ns: Namespace::from(""), local: LocalName::from("") }
    }

    fn create_element(&self, name: QualName, attrs: Vec<Attribute>, flags: ElementFlags) -> Id {
        self.call("create_element");
        self.check_attr_list("create_element", &attrs);
        let is_template = &*name.ns == "http://www.w3.org/1999/xhtml" && &*name.local == "template";
        let id = self.new_node(MKind::Element {
            name,
            attrs,
            template: flags.template,
            mathml_ip: flags.mathml_annotation_xml_integration_point,
            dup: flags.had_duplicate_attributes,
        });
        if flags.template {
            let frag = self.new_node(MKind::Fragment);
            let mut nodes = self.nodes.borrow_mut();
            nodes[id].tmpl = Some(frag);
            nodes[frag].host = Some(id);
        }
        let _ = is_template;
        if self.record_events {
            self.events.borrow_mut().push(Event::Created { node: id });
        }
        id
    }

    fn create_comment(&self, text: StrTendril) -> Id {
        self.call("create_comment");
        self.new_node(MKind::Comment(text.to_string()))
    }

    fn create_pi(&self, target: StrTendril, data: StrTendril) -> Id {
        self.call("create_pi");
        self.new_node(MKind::Pi { target: target.to_string(), data: data.to_string() })
    }

    fn append(&self, parent: &Id, child: NodeOrText<Id>) {
        self.call("append");
        if !self.valid("append", "parent", *parent) {
            return;
        }
        if !self.can_have_children(*parent) {
            self.violate("append", format!("parent {} cannot have children", self.describe(*parent)));
            return;
        }
        if !self.monitor_child("append", *parent, &child, false) {
            return;
        }
        match child {
            NodeOrText::AppendNode(c) => {
                self.detach(c);
                self.append_node(*parent, c)
            },
            NodeOrText::AppendText(t) => self.append_text(*parent, &t),
        }
    }

    fn append_based_on_parent_node(&self, element: &Id, prev_element: &Id, child: NodeOrText<Id>) {
        self.call("append_based_on_parent_node");
        if !self.valid("append_based_on_parent_node", "element", *element)
            || !self.valid("append_based_on_parent_node", "prev_element", *prev_element)
        {
            return;
        }
        let has_parent = self.nodes.borrow()[*element].parent.is_some();
        if has_parent {
            let parent = self.nodes.borrow()[*element].parent.unwrap();
            if matches!(self.nodes.borrow()[*element].kind, MKind::Text(_)) {
                self.violate("append_based_on_parent_node", "reference sibling is a text node".into());
            }
            if !self.monitor_child("append_based_on_parent_node", parent, &child, false) {
                return;
            }
            self.insert_before(*element, child);
        } else {
            if !self.can_have_children(*prev_element) {
                self.violate(
                    "append_based_on_parent_node",
                    format!("prev_element {} cannot have children", self.describe(*prev_element)),
                );
                return;
            }
            if !self.monitor_child("append_based_on_parent_node", *prev_element, &child, false) {
                return;
            }
            match child {
                NodeOrText::AppendNode(c) => {
                    self.detach(c);
                    self.append_node(*prev_element, c)
                },
                NodeOrText::AppendText(t) => self.append_text(*prev_element, &t),
            }
        }
    }

    fn append_doctype_to_document(&self, name: StrTendril, public_id: StrTendril, system_id: StrTendril) {
        self.call("append_doctype_to_document");
        let n = self.doctype_appends.get() + 1;
        self.doctype_appends.set(n);
        if n > 1 {
            self.violate("append_doctype_to_document", "a doctype was already appended".into());
        }
        let has_elem = {
            let nodes = self.nodes.borrow();
            nodes[DOC].children.iter().any(|c| matches!(nodes[*c].kind, MKind::Element { .. }))
        };
        if has_elem {
            self.violate("append_doctype_to_document", "document already has an element child".into());
        }
        let id = self.new_node(MKind::Doctype {
            name: name.to_string(),
            public: public_id.to_string(),
            system: system_id.to_string(),
        });
        self.append_node(DOC, id);
    }

    fn mark_script_already_started(&self, node: &Id) {
        self.call("mark_script_already_started");
        if !self.valid("mark_script_already_started", "node", *node) {
            return;
        }
        match self.elem_qname(*node) {
            Some(q) if &*q.local == "script" => {},
            _ => self.violate(
                "mark_script_already_started",
                format!("called on {}, not a script element", self.describe(*node)),
            ),
        }
        self.nodes.borrow_mut()[*node].script_started = true;
    }

    fn pop(&self, node: &Id) {
        self.call("pop");
        if self.valid("pop", "node", *node) && !self.is_element(*node) {
            self.violate("pop", format!("called on non-element {}", self.describe(*node)));
        }
    }

    fn get_template_contents(&self, target: &Id) -> Id {
        self.call("get_template_contents");
        if !self.valid("get_template_contents", "target", *target) {
            return DOC;
        }
        let (ok_name, tmpl) = {
            let nodes = self.nodes.borrow();
            match &nodes[*target].kind {
                MKind::Element { name, template, .. } => (
                    &*name.ns == "http://www.w3.org/1999/xhtml" && &*name.local == "template" && *template,
                    nodes[*target].tmpl,
                ),
                _ => (false, None),
            }
        };
        if !ok_name {
            self.violate(
                "get_template_contents",
                format!("called on {}, not an HTML template element created with the template flag", self.describe(*target)),
            );
        }
        match tmpl {
            Some(t) => t,
            None => {
                // keep going with a fresh fragment so that the parse can continue
                let frag = self.new_node(MKind::Fragment);
                let mut nodes = self.nodes.borrow_mut();
                nodes[*target].tmpl = Some(frag);
                nodes[frag].host = Some(*target);
                frag
            },
        }
    }

    fn same_node(&self, x: &Id, y: &Id) -> bool {
        self.call("same_node");
        self.valid("same_node", "x", *x);
        self.valid("same_node", "y", *y);
        x == y
    }

    fn set_quirks_mode(&self, mode: QuirksMode) {
        self.call("set_quirks_mode");
        self.quirks_calls.set(self.quirks_calls.get() + 1);
        self.quirks.set(mode);
    }

    fn append_before_sibling(&self, sibling: &Id, new_node: NodeOrText<Id>) {
        self.call("append_before_sibling");
        if !self.valid("append_before_sibling", "sibling", *sibling) {
            return;
        }
        let parent = self.nodes.borrow()[*sibling].parent;
        let Some(parent) = parent else {
            self.violate("append_before_sibling", format!("sibling {} has no parent", self.describe(*sibling)));
            return;
        };
        if matches!(self.nodes.borrow()[*sibling].kind, MKind::Text(_)) {
            self.violate("append_before_sibling", "reference sibling is a text node".into());
        }
        if let NodeOrText::AppendNode(n) = &new_node {
            if *n == *sibling {
                self.violate("append_before_sibling", "node inserted before itself".into());
                return;
            }
        }
        if !self.monitor_child("append_before_sibling", parent, &new_node, true) {
            return;
        }
        self.insert_before(*sibling, new_node);
    }

    fn add_attrs_if_missing(&self, target: &Id, attrs: Vec<Attribute>) {
        self.call("add_attrs_if_missing");
        if !self.valid("add_attrs_if_missing", "target", *target) {
            return;
        }
        self.check_attr_list("add_attrs_if_missing", &attrs);
        let mut nodes = self.nodes.borrow_mut();
        match &mut nodes[*target].kind {
            MKind::Element { attrs: existing, .. } => {
                for a in attrs {
                    if !existing.iter().any(|e| same_qname(&e.name, &a.name)) {
                        existing.push(a);
                    }
                }
            },
            _ => {
                drop(nodes);
                self.violate("add_attrs_if_missing", format!("called on non-element {}", self.describe(*target)));
            },
        }
    }

    fn associate_with_form(&self, target: &Id, form: &Id, nodes: (&Id, Option<&Id>)) {
        self.call("associate_with_form");
        for (what, h) in [("target", Some(target)), ("form", Some(form)), ("node1", Some(nodes.0)), ("node2", nodes.1)] {
            if let Some(h) = h {
                if self.valid("associate_with_form", what, *h) && !self.is_element(*h) {
                    self.violate("associate_with_form", format!("{what} {} is not an element", self.describe(*h)));
                }
            }
        }
        // "the given form-associatable element": the HTML elements the standard lists as
        // form-associated (html5ever's own `form_associatable` set)
        const FORM_ASSOCIATABLE: &[&str] = &["button", "fieldset", "input", "object", "output", "select", "textarea", "img"];
        if self.is_element(*target) && !FORM_ASSOCIATABLE.iter().any(|n| self.is_html_named(*target, n)) {
            self.violate(
                "associate_with_form",
                format!("target {} is not a form-associatable HTML element", self.describe(*target)),
            );
        }
        if self.is_element(*form) && !self.is_html_named(*form, "form") {
            self.violate("associate_with_form", format!("form argument {} is not an HTML form element", self.describe(*form)));
        }
    }

    fn remove_from_parent(&self, target: &Id) {
        self.call("remove_from_parent");
        if !self.valid("remove_from_parent", "target", *target) {
            return;
        }
        self.detach(*target);
    }

    fn reparent_children(&self, node: &Id, new_parent: &Id) {
        self.call("reparent_children");
        if !self.valid("reparent_children", "node", *node) || !self.valid("reparent_children", "new_parent", *new_parent) {
            return;
        }
        if !self.can_have_children(*new_parent) {
            self.violate("reparent_children", format!("new parent {} cannot have children", self.describe(*new_parent)));
            return;
        }
        if self.is_inclusive_ancestor(*node, *new_parent) {
            self.violate(
                "reparent_children",
                format!("new parent {} is {} itself or one of its descendants", self.describe(*new_parent), self.describe(*node)),
            );
            return;
        }
        // Children are moved as they are (no text merging: the tree builder only
        // re-parents into freshly created, empty elements).
        let kids = std::mem::take(&mut self.nodes.borrow_mut()[*node].children);
        let mut nodes = self.nodes.borrow_mut();
        for k in kids {
            nodes[k].parent = Some(*new_parent);
            nodes[*new_parent].children.push(k);
        }
    }

    fn is_mathml_annotation_xml_integration_point(&self, handle: &Id) -> bool {
        self.call("is_mathml_annotation_xml_integration_point");
        if !self.valid("is_mathml_annotation_xml_integration_point", "handle", *handle) {
            return false;
        }
        match &self.nodes.borrow()[*handle].kind {
            MKind::Element { mathml_ip, .. } => *mathml_ip,
            _ => {
                self.violations.borrow_mut().push(format!(
                    "call #{} is_mathml_annotation_xml_integration_point: called on non-element",
                    self.calls.get()
                ));
                false
            },
        }
    }

    fn set_current_line(&self, line_number: u64) {
        self.line_now.set(line_number);
        self.lines.borrow_mut().push(line_number);
        if self.record_events {
            self.events.borrow_mut().push(Event::Line(line_number));
        }
    }

    fn allow_declarative_shadow_roots(&self, intended_parent: &Id) -> bool {
        self.call("allow_declarative_shadow_roots");
        self.valid("allow_declarative_shadow_roots", "intended_parent", *intended_parent);
        self.dsd != Dsd::Deny
    }

    fn attach_declarative_shadow(&self, location: &Id, template: &Id, _attrs: &[Attribute]) -> bool {
        self.call("attach_declarative_shadow");
        self.valid("attach_declarative_shadow", "location", *location);
        self.valid("attach_declarative_shadow", "template", *template);
        if self.valid("attach_declarative_shadow", "location", *location) && !self.is_element(*location) {
            self.violate("attach_declarative_shadow", format!("host {} is not an element", self.describe(*location)));
        }
        if self.valid("attach_declarative_shadow", "template", *template) && !self.is_html_named(*template, "template") {
            self.violate("attach_declarative_shadow", format!("{} is not an HTML template element", self.describe(*template)));
        }
        if self.dsd == Dsd::AllowSucceed {
            // like a DOM: only the elements the DOM standard lists can host a shadow root, and only one
            let ok = match self.elem_qname(*location) {
                Some(q) => valid_shadow_host(&q.ns, &q.local),
                None => false,
            } && !self.shadow_hosts.borrow().iter().any(|(h, _)| h == location);
            if ok {
                self.shadow_hosts.borrow_mut().push((*location, *template));
                return true;
            }
        }
        false
    }

    fn maybe_clone_an_option_into_selectedcontent(&self, option: &Id) {
        self.call("maybe_clone_an_option_into_selectedcontent");
        if self.valid("maybe_clone_an_option_into_selectedcontent", "option", *option) && !self.is_html_named(*option, "option") {
            self.violate(
                "maybe_clone_an_option_into_selectedcontent",
                format!("called on {}, not an HTML option element", self.describe(*option)),
            );
        }
    }
}

pub struct ModelView<'a>(pub &'a ModelDom);

impl<'a> TreeView for ModelView<'a> {
    type H = Id;
    fn kind(&self, h: &Id) -> CKind {
        let nodes = self.0.nodes.borrow();
        match &nodes[*h].kind {
            MKind::Document => CKind::Document,
            MKind::Fragment => CKind::Fragment,
            MKind::Doctype { name, public, system } => {
                CKind::Doctype { name: name.clone(), public: public.clone(), system: system.clone() }
            },
            MKind::Text(t) => CKind::Text(t.clone()),
            MKind::Comment(t) => CKind::Comment(t.clone()),
            MKind::Pi { target, data } => CKind::Pi { target: target.clone(), data: data.clone() },
            MKind::Element { name, attrs, dup, .. } => CKind::Element {
                ns: name.ns.to_string(),
                prefix: name.prefix.as_ref().map(|p| p.to_string()),
                local: name.local.to_string(),
                attrs: attrs
                    .iter()
                    .map(|a| CAttr {
                        ns: a.name.ns.to_string(),
                        prefix: a.name.prefix.as_ref().map(|p| p.to_string()),
                        local: a.name.local.to_string(),
                        value: a.value.to_string(),
                    })
                    .collect(),
                dup: Some(*dup),
            },
        }
    }
    fn children(&self, h: &Id) -> Vec<Id> {
        self.0.nodes.borrow()[*h].children.clone()
    }
    fn template_contents(&self, h: &Id) -> Option<Id> {
        self.0.nodes.borrow()[*h].tmpl
    }
    fn shadow_roots(&self, h: &Id) -> Vec<Id> {
        let nodes = self.0.nodes.borrow();
        self.0.shadow_hosts.borrow().iter().filter(|(host, _)| host == h).filter_map(|(_, t)| nodes[*t].tmpl).collect()
    }
}

pub fn model_canon(dom: &ModelDom, root: Id, o: crate::sinks::canon::CanonOpts) -> String {
    crate::sinks::canon::canon(&ModelView(dom), &root, o)
}

// ---------------------------------------------------------------------------
// "maybe clone an option into selectedcontent" (model side, used by C20)

impl ModelDom {
    fn html_local(&self, h: Id) -> Option<String> {
        match &self.nodes.borrow()[h].kind {
            MKind::Element { name, .. } if &*name.ns == "http://www.w3.org/1999/xhtml" => Some(name.local.to_string()),
            _ => None,
        }
    }

    fn has_attr(&self, h: Id, local: &str) -> bool {
        match &self.nodes.borrow()[h].kind {
            MKind::Element { attrs, .. } => attrs.iter().any(|a| &*a.name.local == local),
            _ => false,
        }
    }

    fn deep_clone(&self, h: Id, new_parent: Option<Id>) -> Id {
        // iterative deep copy
        let root_kind = self.nodes.borrow()[h].kind.clone();
        let root = self.new_node(root_kind);
        self.nodes.borrow_mut()[root].parent = new_parent;
        let mut work = vec![(h, root)];
        while let Some((src, dst)) = work.pop() {
            let (kids, tmpl) = {
                let n = self.nodes.borrow();
                (n[src].children.clone(), n[src].tmpl)
            };
            for k in kids {
                let kind = self.nodes.borrow()[k].kind.clone();
                let c = self.new_node(kind);
                {
                    let mut n = self.nodes.borrow_mut();
                    n[c].parent = Some(dst);
                    n[dst].children.push(c);
                }
                work.push((k, c));
            }
            if let Some(t) = tmpl {
                let frag = self.new_node(MKind::Fragment);
                {
                    let mut n = self.nodes.borrow_mut();
                    n[dst].tmpl = Some(frag);
                    n[frag].host = Some(dst);
                }
                work.push((t, frag));
            }
        }
        root
    }

    /// The algorithm of the standard (without the 'disabled' refinement):
    /// nearest ancestor select of the option; option carries `selected`; the
    /// select is not `multiple`; first selectedcontent descendant in tree
    /// order; replace its children by deep copies of the option's children.
    /// Returns true when a clone happened.
    pub fn clone_option_into_selectedcontent(&self, option: Id) -> bool {
        if self.html_local(option).as_deref() != Some("option") {
            return false;
        }
        // nearest ancestor select
        let mut seen_optgroup = false;
        let mut cur = self.nodes.borrow()[option].parent;
        let mut select = None;
        while let Some(c) = cur {
            match self.html_local(c).as_deref() {
                Some("datalist") | Some("hr") | Some("option") => return false,
                Some("optgroup") => {
                    if seen_optgroup {
                        return false;
                    }
                    seen_optgroup = true;
                },
                Some("select") => {
                    select = Some(c);
                    break;
                },
                _ => {},
            }
            cur = self.nodes.borrow()[c].parent;
        }
        let Some(select) = select else { return false };
        if !self.has_attr(option, "selected") {
            return false;
        }
        if self.has_attr(select, "multiple") {
            return false;
        }
        // first selectedcontent descendant in tree order
        let mut stack: Vec<Id> = self.nodes.borrow()[select].children.iter().rev().cloned().collect();
        let mut target = None;
        while let Some(n) = stack.pop() {
            if self.html_local(n).as_deref() == Some("selectedcontent") {
                target = Some(n);
                break;
            }
            let kids: Vec<Id> = self.nodes.borrow()[n].children.iter().rev().cloned().collect();
            stack.extend(kids);
        }
        let Some(target) = target else { return false };
        let src_kids = self.nodes.borrow()[option].children.clone();
        let clones: Vec<Id> = src_kids.iter().map(|k| self.deep_clone(*k, Some(target))).collect();
        let old = std::mem::replace(&mut self.nodes.borrow_mut()[target].children, clones);
        for o in old {
            self.nodes.borrow_mut()[o].parent = None;
        }
        true
    }
}
