#![no_main]
//! One libFuzzer target for every property: HV_FUZZ_PROP selects the property,
//! the input bytes are the choice sequence of the same decoders the proptest
//! runners use, and the semantic oracle runs inside the target.
use libfuzzer_sys::fuzz_target;

fuzz_target!(|data: &[u8]| {
    hv::props::fuzz_one(data);
});
